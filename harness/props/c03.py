"""C03 -- all lenient spellings converge on one canonical text, which is in the strict profile."""
from __future__ import annotations

import json
import random

from lib import astcodec, corefrag, doccases, docprops, parsecorr, render
from lib.model import enc_str, run_driver

LEVEL = "proof"
DRIVERS = ["syn"]
PFX = "C03-"



ALIAS_OF = {"\u2192": ["->"], "\u2295": ["+"], "\u29fa": ["~"], "\u21cc": ["<->", " vs "], "\u2228": ["|"], "\u2227": ["&"], "\u00a7": ["#"]}
ALIAS_ATOMS = ["x", "B2", "1", '"s"', "[a,b]", "[", "]", ",", "::", "true", "$V", "X<q>"]


def alias_substitution_stream(ctx, hm_strict=None):
    """Spelling convergence on ARBITRARY accepted texts, not only content-model documents: every text built from short
    sequences of value atoms and Unicode operators, glued with and without blanks, against the same text with each
    operator occurrence replaced by an ASCII alias. Both must canonicalise to identical bytes (or both be refused)."""
    import itertools
    ops = list(ALIAS_OF)
    n = 0
    for length in (2, 3, 4):
        seqs = list(itertools.product(ALIAS_ATOMS + ops, repeat=length)) if length < 4 else \
            [tuple(ctx.rng.choice(ALIAS_ATOMS + ops) for _ in range(4)) for _ in range(ctx.scale(1500, 40000))]
        if length == 3 and ctx.quick():
            seqs = ctx.rng.sample(seqs, 2500)
        for tup in seqs:
            if not any(t in ALIAS_OF for t in tup) or tup[0] in ALIAS_OF and tup[0] != "\u00a7":
                continue
            for glue in ("", " "):
                uni = "A::" + glue.join(tup) + "\n"
                choice = [ctx.rng.choice(ALIAS_OF[t]) if t in ALIAS_OF else t for t in tup]
                asc = "A::" + glue.join(choice) + "\n"
                if " vs " in asc and glue == "":
                    asc = "A::" + "".join(choice).replace("  ", " ") + "\n"
                    uni = "A::" + "".join((" " + t + " ") if (c == " vs ") else t for t, c in zip(tup, choice)).replace("  ", " ") + "\n"
                cu, _, eu = doccases.canon_impl(uni)
                ca, _, ea = doccases.canon_impl(asc)
                ctx.count()
                n += 1
                if (eu is None) != (ea is None) or (eu is None and cu != ca):
                    ctx.property_failure({"stream": "alias substitution", "unicode_spelling": uni, "alias_spelling": asc,
                                          "canonical_unicode": cu, "canonical_alias": ca, "refused_unicode": eu, "refused_alias": ea},
                                         "the ASCII-alias spelling of a text does not canonicalise like its Unicode spelling")
                elif eu is None and cu != uni:
                    ctx.nontrivial(("alias", uni, asc))
    # bracket payloads the parser captures as TEXT (constructor arguments, section annotations, brackets embedded in a
    # flow expression): an alias inside must be normalised exactly like the Unicode operator
    templates = ["A::REQ[x{0}y]\n", "A::ENUM[a{0}b,c{1}d]\n", "A::NEVER[x{0}y]\n", "\u00a71::NAME[a{0}b]\n  K::1\n", "A::S{0}C[l{1}t]{0}D\n",
                 "A::x{0}y[p{1}q]\n", "A::[k::REQ[a{0}b],z]\n", "B:\n  A::TYPE[u{0}v]\n", "A::X[[a{0}b],c]\n"]
    for tpl in templates:
        for u1 in ALIAS_OF:
            for u2 in list(ALIAS_OF)[:3]:
                if "\u00a7" in (u1, u2):
                    continue
                for a1 in ALIAS_OF[u1]:
                    a2 = ALIAS_OF[u2][0]
                    uni, asc = tpl.format(u1, u2), tpl.format(a1, a2)
                    cu, _, eu = doccases.canon_impl(uni)
                    ca, _, ea = doccases.canon_impl(asc)
                    ctx.count()
                    n += 1
                    if (eu is None) != (ea is None) or (eu is None and cu != ca):
                        ctx.property_failure({"stream": "alias substitution (bracket payload)", "unicode_spelling": uni, "alias_spelling": asc,
                                              "canonical_unicode": cu, "canonical_alias": ca, "refused_unicode": eu, "refused_alias": ea},
                                             "the ASCII-alias spelling of a text does not canonicalise like its Unicode spelling")
                    elif eu is None and hm_strict is not None:
                        hm_strict.append(ca)
    ctx.hist("alias_substitution_pairs", n)


def run(ctx):
    hm = doccases.have_model(ctx)
    # core fragment (theorems C03_strict_emit_core / text round trip): deep nesting; strict profile of every canonical text
    corefrag.run(ctx, ctx.scale(150, 3000), hm)
    ctx.extra["rule"] = ("for every content-model document that falsifies no wf clause: the canonical spelling, the all-alias "
                         "corner and 8 (thorough 48) random lenient spellings with every freedom toggled independently at every "
                         "site; all must canonicalise to the same bytes = emit(content). Every canonical output (also of documents "
                         "that falsify clauses) is run through the extracted independent strict-profile recogniser. "
                         "non-trivial = distinct (document, spelling) with >= 5 lenient sites")
    from octave_mcp.core.emitter import emit
    for fid, f in ctx.known.items():
        w = f["witness"]
        t = doccases.impl_emit(w["doc"])
        ok = run_driver("syn", ["strict " + enc_str(t)])[0] == "1" if hm else True
        ctx.finding_witness(fid, not ok)
    cases = doccases.gen_docs(ctx, ctx.scale(700, 12000), valid_fraction=0.8)
    reps = ctx.scale(8, 48)
    canon_outputs = []
    for d, cl in cases:
        canon = doccases.impl_emit(docprops.expected(d))
        canon_outputs.append((canon, d, cl))
        if cl:
            continue
        spellings = [render.render(d, None)[0]]
        for k in range(reps + 1):
            rng = random.Random(ctx.rng.random())
            if k == 0:
                rng.random = lambda: 0.0          # the corner where every freedom is taken
            t, rc, sites = render.render(d, rng)
            spellings.append(t)
            if sites >= 5:
                ctx.nontrivial(t)
            ctx.hist("sites", min(sites // 20 * 20, 300))
        for t in spellings:
            ctx.count()
            c1, doc, err = doccases.canon_impl(t)
            if err or c1 != canon:
                # delta-debug to a single spelling: report the pair (canonical spelling, this spelling)
                ctx.property_failure({"doc": d, "spelling": t, "canonical_of_spelling": c1, "expected_canonical": canon,
                                      "rejected": err},
                                     "a lenient spelling does not canonicalise to the canonical text of its content")
    # ---- the same convergence through the writing tool: octave_write(lenient=true) must put exactly the canonical
    #      text of the content into the file, whatever the spelling (all-freedoms corner + random spellings) ----
    import asyncio, os, shutil, tempfile
    from octave_mcp.mcp.write import WriteTool
    tmp = tempfile.mkdtemp(prefix="c03w")
    loop = asyncio.new_event_loop()
    try:
        wdocs = [(d, cl) for d, cl in cases if not cl][: ctx.scale(150, 2500)]
        for i, (d, _) in enumerate(wdocs):
            canon = doccases.impl_emit(docprops.expected(d))
            if "\r" in canon:
                continue                      # raw CR does not survive a text file (C01/C05 finding cr-through-file)
            for k in range(ctx.scale(3, 6)):
                rng = random.Random(ctx.rng.random())
                if k == 0:
                    rng.random = lambda: 0.0
                t = render.render(d, rng)[0]
                pth = os.path.join(tmp, f"w{i}_{k}.oct.md")
                w = loop.run_until_complete(WriteTool().execute(target_path=pth, content=t, lenient=True))
                ctx.count()
                if w.get("status") != "success":
                    got = None
                else:
                    with open(pth, newline="") as fh:
                        got = fh.read()
                if got != canon:
                    c1, _, err = doccases.canon_impl(t)
                    if c1 != canon:
                        continue              # already reported above through emit(parse(x))
                    ctx.property_failure({"doc": d, "spelling": t, "file_bytes": got, "expected_canonical": canon,
                                          "errors": str(w.get("errors"))[:300], "surface": "octave_write(lenient=true)"},
                                         "octave_write(lenient=true): a lenient spelling is not written as the canonical text of its content")
    finally:
        loop.close()
        shutil.rmtree(tmp, ignore_errors=True)
    ctx.sample({"canonical": canon_outputs[0][0]})
    _alias_canon = []
    alias_substitution_stream(ctx, _alias_canon)
    canon_outputs.extend((c, {"alias_template": True}, []) for c in sorted(set(_alias_canon)))
    # ---- curated inputs whose canonical text exercises corner cases of the strict profile (regressions of repaired defects:
    #      a bare `//` comment must not become `// ` with a trailing blank, 3fa2dc1) ----
    CURATED = ["===D===\n//\nK::1\n===END===\n", "===D===\nB:\n  //\n  K::1\n  //\n===END===\n", "===D===\nK::1\n//\n===END===\n",
               "===D===\n\u00a71::S\n  //\n  K::[a,b,c] //\n===END===\n", "K::1 //   \n//\t\n", "===D===\nMETA:\n  TYPE::X\n  //\n---\n//\nK::1\n===END===\n"]
    for t in CURATED:
        c1, doc, err = doccases.canon_impl(t)
        ctx.count()
        if err is None:
            canon_outputs.append((c1, {"curated_text": t}, []))
    # ---- strict profile of every canonical output ----
    if hm:
        res = run_driver("syn", ["strict " + enc_str(c) for c, _, _ in canon_outputs])
        for (c, d, cl), r in zip(canon_outputs, res):
            ctx.count()
            if r == "1":
                continue
            fids = sorted({doccases.CLAUSE_FINDING[x] for x in cl if x in doccases.CLAUSE_FINDING})
            fids = [f for f in fids if f in ("reserved-segment",)]
            case = {"doc": d, "canonical": c}
            if fids:
                for f in fids:
                    ctx.property_failure(case, "canonical text is not in the strict profile", finding=PFX + f)
            else:
                ctx.property_failure(case, "canonical text is not in the strict profile")
        # the recogniser must reject lenient spellings that use a freedom (sanity of the oracle, not a property)
        lenient = [render.render(d, random.Random(i))[0] for i, (d, cl) in enumerate(cases[:200]) if not cl]
        rej = sum(1 for r in run_driver("syn", ["strict " + enc_str(t) for t in lenient]) if r == "0")
        ctx.extra["recogniser_rejects_lenient"] = f"{rej}/{len(lenient)}"
    # ---- parser correspondence on lenient spellings ----
    if hm:
        sub = [render.render(d, random.Random(1000 + i))[0] for i, (d, cl) in enumerate(cases) if not cl][: ctx.scale(800, 8000)]
        bad, n_in, n_out, _ = parsecorr.compare(sub, strict=False, with_warnings=True)
        ctx.count(n_in)
        for t, i, m in bad[:10]:
            ctx.correspondence_failure({"text": t, "impl": i[:500], "model": m[:500]}, "parse_with_warnings differs from the parser model")
