"""C14 -- projections only remove, and say so: no invention, honest lossy flag.

Per generated document (AST0 = what the real parser reads from the generated text) x 4 modes x 4 formats:
  (K) correspondence with the extracted Coq model (build/bin/proj): project() -> filtered AST / lossy / fields_omitted;
      _ast_to_dict -> dict tree; _ast_to_markdown -> exact text; the harness' own item function vs items_doc/items_dict;
  (P) the property text evaluated on EjectTool output: the output is parsed back (octave_mcp.parse / json / yaml /
      markdown pair scan) and compared as sets of (path, cell) items with the source; lossy flag; formats agree;
      every deviation must be attributed to a listed finding by a precise per-item clause, else it is a failure;
  (CLI) `octave eject` (CliRunner) must print what the tool returns, or differ only by a listed finding's clause.

Repair 88905cd (eject.py: holographic values exported as their pattern text, nested META blocks converted) made the
TOOL clean on holographic values / nested META blocks: no attribution exists for the tool path any more -- a TypeError,
an unreadable YAML view, a Python repr in the markdown view is an unattributed failure (VIOLATION).  The former
witnesses are corpus regressions (corpus/C14/fixed-88905cd-*.json) that must pass.  The CLI (`octave eject`) has its own
copies of the converters in cli/main.py, which were NOT repaired: attribution of a CLI difference requires
via == "octave eject" AND the class the CLI output/error names (C14-cli-*).
"""
from __future__ import annotations

import asyncio
import copy
import json
import os
import shutil
import tempfile
from collections import Counter

from lib.model import enc_str, dec_str, run_driver

LEVEL = "proof"
DRIVERS = ["proj"]
COQ_TARGETS = ["theories/Proj/Pins_Projector.vo"]

MODES = ["canonical", "authoring", "executive", "developer"]
FORMATS = ["octave", "json", "yaml", "markdown"]
KEEP = {"executive": ["STATUS", "RISKS", "DECISIONS"], "developer": ["TESTS", "CI", "DEPS"]}
FILTER_KEYS = ["STATUS", "RISKS", "DECISIONS", "TESTS", "CI", "DEPS"]

F_SECTION = "C14-section-dropped"
F_DUP = "C14-duplicate-key-collapse"
F_TARGET = "C14-block-target-dropped"
F_CLI_MD = "C14-cli-markdown-repr"
F_CLI_ZONE = "C14-cli-zone-not-exported"
F_CLI_HOLO = "C14-cli-holographic-not-exported"
F_CLI_META = "C14-cli-nested-meta-not-converted"
CLI_FINDINGS = (F_CLI_MD, F_CLI_ZONE, F_CLI_HOLO, F_CLI_META)
REPR_MARKS = (" object at 0x", "Token(", "HolographicValue(", "ListValue(", "InlineMap(", "LiteralZoneValue(", "!!python/")


def _apply_selftest_mutation(name):
    """VERIF_SELFTEST_MUTATION=<name>: monkeypatch the implementation in THIS process only (never in a normal run)."""
    import octave_mcp.core.projector as P
    import octave_mcp.mcp.eject as E
    from octave_mcp.core import ast_nodes as A
    if name == "lossy_false":
        orig = P.project
        def f(doc, mode="canonical"):
            r = orig(doc, mode)
            r.lossy = False
            return r
        P.project = f
        E.project = f
    elif name == "invent_key":
        orig = E._ast_to_dict
        def f(doc):
            d = orig(doc)
            d["GENERATED_BY"] = "octave"
            return d
        E._ast_to_dict = f
    elif name == "drop_nested":
        orig = E._convert_block
        def f(block):
            d = orig(block)
            return {k: v for k, v in d.items() if not isinstance(v, dict) or "__literal_zone__" in v}
        E._convert_block = f
    elif name == "filter_keeps_all_nested":
        orig = P._filter_fields
        def f(doc, keep):
            return doc if any(isinstance(s, A.Block) for s in doc.sections) else orig(doc, keep)
        P._filter_fields = f
    elif name == "md_drop_bool":
        orig = E._format_markdown_value
        E._format_markdown_value = lambda v: "" if isinstance(v, bool) else orig(v)
    elif name == "canonical_filters":
        orig = P.project
        def f(doc, mode="canonical"):
            return orig(doc, "executive" if mode == "canonical" else mode)
        P.project = f
        E.project = f
    elif name == "holo_passthrough":       # _convert_value without the HolographicValue case (pre-88905cd behaviour)
        orig = E._convert_value
        E._convert_value = lambda v: v if isinstance(v, A.HolographicValue) else orig(v)
    elif name == "md_holo_repr":           # _format_markdown_value without the HolographicValue case
        orig = E._format_markdown_value
        E._format_markdown_value = lambda v: str(v) if isinstance(v, A.HolographicValue) else orig(v)
    elif name == "meta_dict_passthrough":  # _convert_value without the dict case
        orig = E._convert_value
        E._convert_value = lambda v: v if isinstance(v, dict) else orig(v)
    else:
        raise RuntimeError(f"unknown self-test mutation {name}")


# ---------------------------------------------------------------------------------------------------
# canonical token forms (same grammar as ocaml/proj_main.ml)
# ---------------------------------------------------------------------------------------------------
class OutOfModel(Exception):
    pass


def _A():
    from octave_mcp.core import ast_nodes as A
    return A


def tok_ostr(s):
    return "~" if s is None else enc_str(s)


def tok_value(v):
    A = _A()
    if v is None:
        return "z"
    if isinstance(v, bool):
        return "b1" if v else "b0"
    if isinstance(v, int):
        return "i" + str(v)
    if isinstance(v, float):
        return "f" + enc_str(repr(v))
    if isinstance(v, str):
        return "s" + enc_str(v)
    if isinstance(v, A.ListValue):
        return " ".join([f"L {len(v.items)}"] + [tok_value(x) for x in v.items])
    if isinstance(v, A.InlineMap):
        return " ".join([f"M {len(v.pairs)}"] + [enc_str(k) + " " + tok_value(x) for k, x in v.pairs.items()])
    if isinstance(v, A.LiteralZoneValue):
        return f"Z {enc_str(v.content)} {tok_ostr(v.info_tag)} {enc_str(v.fence_marker)}"
    if isinstance(v, A.HolographicValue):
        return "H " + enc_str(v.raw_pattern)
    if isinstance(v, dict):      # nested META block (parse_meta_block builds a plain dict): VMap in the model
        for k in v:
            if not isinstance(k, str):
                raise OutOfModel("non-string key")
        return " ".join([f"M {len(v)}"] + [enc_str(k) + " " + tok_value(x) for k, x in v.items()])
    raise OutOfModel(f"value kind {type(v).__name__}")


def tok_native(v):
    """tokens of the tree _ast_to_dict returns (the model's jv).  STRICT: only native Python values have a native token;
    an AST object left in the tree prints as the model's pass-through constructor (H / Z) or, where the model has none
    (ListValue / InlineMap objects inside an unconverted dict), as a token no model output can equal."""
    A = _A()
    if v is None:
        return "z"
    if isinstance(v, bool):
        return "b1" if v else "b0"
    if isinstance(v, int):
        return "i" + str(v)
    if isinstance(v, float):
        return "f" + enc_str(repr(v))
    if isinstance(v, str):
        return "s" + enc_str(v)
    if isinstance(v, list):
        return " ".join([f"L {len(v)}"] + [tok_native(x) for x in v])
    if isinstance(v, dict):
        return " ".join([f"M {len(v)}"] + [enc_str(str(k)) + " " + tok_native(x) for k, x in v.items()])
    if isinstance(v, A.HolographicValue):
        return "H " + enc_str(v.raw_pattern)
    if isinstance(v, A.LiteralZoneValue):
        return f"Z {enc_str(v.content)} {tok_ostr(v.info_tag)} {enc_str(v.fence_marker)}"
    return "!object:" + type(v).__name__


def is_native(v):
    if v is None or isinstance(v, (bool, int, float, str)):
        return True
    if isinstance(v, list):
        return all(is_native(x) for x in v)
    if isinstance(v, dict):
        return all(isinstance(k, str) and is_native(x) for k, x in v.items())
    return False


def tok_node(n):
    A = _A()
    if isinstance(n, A.Assignment):
        return f"A {enc_str(n.key)} {tok_value(n.value)}"
    if isinstance(n, A.Block):
        return " ".join([f"B {enc_str(n.key)} {tok_ostr(n.target)} {len(n.children)}"] + [tok_node(c) for c in n.children])
    if isinstance(n, A.Section):
        return " ".join([f"S {enc_str(n.section_id)} {enc_str(n.key)} {tok_ostr(n.annotation)} {len(n.children)}"]
                        + [tok_node(c) for c in n.children])
    if isinstance(n, A.Comment):
        return "C " + enc_str(n.text)
    raise OutOfModel(f"node kind {type(n).__name__}")


def tok_doc(doc):
    parts = ["N " + enc_str(doc.name), f"M {len(doc.meta)}"]
    for k, v in doc.meta.items():
        parts.append(enc_str(k) + " " + tok_value(v))
    parts.append(f"D {len(doc.sections)}")
    parts += [tok_node(n) for n in doc.sections]
    return " ".join(parts)


# ---------------------------------------------------------------------------------------------------
# items: (path, cell) -- python mirror of Proj/Ast.v items_doc and Proj/Convert.v items_dict
# (cross-checked against the extracted definitions on every case)
# ---------------------------------------------------------------------------------------------------
def leaf_cell(v):
    if v is None:
        return "z"
    if isinstance(v, bool):
        return "b1" if v else "b0"
    if isinstance(v, int):
        return "i" + str(v)
    if isinstance(v, float):
        return "f" + enc_str(repr(v))
    if isinstance(v, str):
        return "s" + enc_str(v)
    raise OutOfModel(f"leaf kind {type(v).__name__}")


def zone_items(p, content, tag, fence):
    return [(p, "N"), (p + ("k" + enc_str("__literal_zone__"),), "b1"), (p + ("k" + enc_str("content"),), "s" + enc_str(content)),
            (p + ("k" + enc_str("info_tag"),), "z" if tag is None else "s" + enc_str(tag)),
            (p + ("k" + enc_str("fence_marker"),), "s" + enc_str(fence))]


def items_value(p, v):
    A = _A()
    if isinstance(v, A.LiteralZoneValue):
        return zone_items(p, v.content, v.info_tag, v.fence_marker)
    if isinstance(v, A.HolographicValue):
        # a holographic value is contained as its canonical pattern text (Proj/Ast.v items_v); an OBJECT left in a
        # dict tree is a different cell ("h", see items_native)
        return [(p, "s" + enc_str(v.raw_pattern))]
    if isinstance(v, (A.ListValue, list)):
        xs = v.items if isinstance(v, A.ListValue) else v
        if not xs:
            return [(p, "e")]
        out = [(p, "N")]
        for i, x in enumerate(xs):
            out += items_value(p + (f"i{i}",), x)
        return out
    if isinstance(v, (A.InlineMap, dict)):
        m = v.pairs if isinstance(v, A.InlineMap) else v
        out = [(p, "N")]
        for k, x in m.items():
            if not isinstance(k, str):
                raise OutOfModel("non-string key")
            out += items_value(p + ("k" + enc_str(k),), x)
        return out
    return [(p, leaf_cell(v))]


def items_node(p, n):
    A = _A()
    if isinstance(n, A.Assignment):
        return items_value(p + ("k" + enc_str(n.key),), n.value)
    if isinstance(n, A.Block):
        q = p + ("k" + enc_str(n.key),)
        out = [(q, "N")]
        if n.target is not None:
            out.append((q + ("t",), "s" + enc_str(n.target)))
        for c in n.children:
            out += items_node(q, c)
        return out
    if isinstance(n, A.Section):
        q = p + ("s" + enc_str(n.section_id) + ":" + enc_str(n.key),)
        out = [(q, "N")]
        if n.annotation is not None:
            out.append((q + ("a",), "s" + enc_str(n.annotation)))
        for c in n.children:
            out += items_node(q, c)
        return out
    if isinstance(n, A.Comment):
        return []
    raise OutOfModel(f"node kind {type(n).__name__}")


def items_doc(doc):
    out = []
    if doc.meta:
        q = ("k" + enc_str("META"),)
        out.append((q, "N"))
        for k, v in doc.meta.items():
            out += items_value(q + ("k" + enc_str(k),), v)
    for n in doc.sections:
        out += items_node((), n)
    return out


def items_native(p, v):
    """items of a dict tree (Proj/Convert.v items_j): native values; AST objects left in it are object cells"""
    A = _A()
    if isinstance(v, A.HolographicValue):
        return [(p, "h" + enc_str(v.raw_pattern))]
    if isinstance(v, A.LiteralZoneValue):
        return zone_items(p, v.content, v.info_tag, v.fence_marker)
    if isinstance(v, list):
        if not v:
            return [(p, "e")]
        out = [(p, "N")]
        for i, x in enumerate(v):
            out += items_native(p + (f"i{i}",), x)
        return out
    if isinstance(v, dict):
        out = [(p, "N")]
        for k, x in v.items():
            if not isinstance(k, str):
                raise OutOfModel("non-string key")
            out += items_native(p + ("k" + enc_str(k),), x)
        return out
    if v is None or isinstance(v, (bool, int, float, str)):
        return [(p, leaf_cell(v))]
    return [(p, "!object:" + type(v).__name__)]


def items_pydict(d):
    out = []
    for k, v in d.items():
        out += items_native(("k" + enc_str(k),), v)
    return out


def fmt_items(items):
    return " ".join(("/".join(p) if p else ".") + "=" + c for p, c in items)


# ---------------------------------------------------------------------------------------------------
# markdown: independent reading of the view -- the (key, text) pairs it shows
# ---------------------------------------------------------------------------------------------------
def md_text(v):
    """What a markdown view must show for a value: its leaves, comma separated (independent re-statement)."""
    A = _A()
    if isinstance(v, A.LiteralZoneValue):
        c = v.content
        if c and not c.endswith("\n"):
            c += "\n"
        return f"{v.fence_marker}{v.info_tag or ''}\n{c}{v.fence_marker}"
    if isinstance(v, A.ListValue):
        return ", ".join(md_text(x) for x in v.items)
    if isinstance(v, A.InlineMap):
        return ", ".join(f"{k}: {md_text(x)}" for k, x in v.pairs.items())
    if isinstance(v, A.HolographicValue):
        return v.raw_pattern          # the canonical pattern text
    if isinstance(v, dict):           # nested META block
        return ", ".join(f"{k}: {md_text(x)}" for k, x in v.items())
    return str(v)


def md_scan(text):
    """[(key, text)] pairs of a markdown view; multi-line texts (fenced zones) are re-joined."""
    pairs = []
    cur = None
    lines = text.split("\n")
    in_fence = None
    for ln in lines:
        if in_fence is not None:
            cur[1] += "\n" + ln
            if ln.startswith(in_fence) and ln.strip("`~") == "":
                in_fence = None
            continue
        m = ln[4:] if ln.startswith("- **") else (ln[2:] if ln.startswith("**") else None)
        if m is not None and "**: " in m:
            k, _, t = m.partition("**: ")
            cur = [k, t]
            pairs.append(cur)
            st = t.lstrip()
            if st.startswith("```") or st.startswith("~~~"):
                fence = st[:len(st) - len(st.lstrip(st[0]))]
                in_fence = fence
            continue
        cur = None
    return [(k, t) for k, t in pairs]


def source_pairs(doc, through_sections=True):
    A = _A()
    out = [(k, md_text(v)) for k, v in doc.meta.items()]

    def walk(n):
        if isinstance(n, A.Assignment):
            out.append((n.key, md_text(n.value)))
        elif isinstance(n, A.Block) or (through_sections and isinstance(n, A.Section)):
            for c in n.children:
                walk(c)
    for n in doc.sections:
        walk(n)
    return out


# ---------------------------------------------------------------------------------------------------
# attribution clauses
# ---------------------------------------------------------------------------------------------------
def dup_positions(doc):
    """set of key-paths (tuples) at which two sibling nodes (Assignment/Block) share the key (or clash with META)."""
    A = _A()
    dups = set()

    def sib(p, nodes, extra=()):
        c = Counter([n.key for n in nodes if isinstance(n, (A.Assignment, A.Block))] + list(extra))
        for k, n in c.items():
            if n > 1:
                dups.add(p + ("k" + enc_str(k),))
        for n in nodes:
            if isinstance(n, A.Block):
                sib(p + ("k" + enc_str(n.key),), n.children)
            # sections are dropped as a whole by the dict formats: their inside is attributed to the section clause
    sib((), doc.sections, ["META"] if doc.meta else [])
    return dups


def has_kind(doc, kind):
    A = _A()
    found = False

    def val(v):
        nonlocal found
        if isinstance(v, kind):
            found = True
        elif isinstance(v, A.ListValue):
            for x in v.items:
                val(x)
        elif isinstance(v, A.InlineMap):
            for x in v.pairs.values():
                val(x)
        elif isinstance(v, dict):
            for x in v.values():
                val(x)

    def walk(n):
        if isinstance(n, A.Assignment):
            val(n.value)
        elif isinstance(n, (A.Block, A.Section)):
            for c in n.children:
                walk(c)
    for v in doc.meta.values():
        val(v)
    for n in doc.sections:
        walk(n)
    return found


def attribute_missing(item, dups):
    """clause of the finding that explains why `item` of the (projected) source is absent from a dict/markdown view"""
    p, c = item
    if any(s.startswith("s") for s in p):
        return F_SECTION
    if "t" in p:
        return F_TARGET
    for i in range(1, len(p) + 1):
        if p[:i] in dups:
            return F_DUP
    return None


# ---------------------------------------------------------------------------------------------------
# generator
# ---------------------------------------------------------------------------------------------------
WORDS = ["alpha", "beta", "r1", "ok", "two words", "x_y", "done", "v2", "Mixed Case text", "n-a"]
PLAIN_KEYS = ["NAME", "OWNER", "NOTES", "ITEMS", "CFG", "LEVEL", "OUT", "K", "DATA"]


def gen_scalar(rng):
    r = rng.random()
    if r < 0.5:
        return rng.choice(WORDS)
    if r < 0.7:
        return rng.choice([0, 1, 7, -3, 42, 2**40, 10**20])
    if r < 0.8:
        return rng.choice([1.5, 2.0, -0.25, 1e22, 3.14])
    if r < 0.9:
        return rng.choice([True, False])
    return None


def gen_value(rng, depth=0, allow_zone=True, allow_holo=True):
    """holographic values (placeholder HOLO, replaced at text level) in EVERY value position: assignment value,
    list item at any depth, inline-map value"""
    A = _A()
    r = rng.random()
    if depth > 0 and allow_holo and r < 0.22:
        return "HOLO"
    if r < 0.5 or depth > 2:
        return gen_scalar(rng)
    if r < 0.72:
        n = rng.choice([0, 1, 2, 3, 4])
        return A.ListValue(items=[gen_value(rng, depth + 1, False, allow_holo) for _ in range(n)])
    if r < 0.84:
        return A.ListValue(items=[A.InlineMap(pairs={rng.choice(["k", "j", "id"]): ("HOLO" if allow_holo and rng.random() < 0.3 else gen_scalar(rng))})
                                  for _ in range(rng.randint(1, 3))])
    if r < 0.93 and allow_zone and depth == 0:
        return A.LiteralZoneValue(content=rng.choice(ZONE_CONTENTS),
                                  info_tag=rng.choice([None, "py", "json", "markdown"]), fence_marker=rng.choice(["```", "````"]))
    if allow_holo and depth == 0:
        return "HOLO"         # placeholder replaced at text level
    return gen_scalar(rng)


def gen_meta_block(rng, features):
    """a nested META block (parse_meta_block -> plain dict) holding lists (incl. empty / nested / of inline maps),
    holographic values and scalars in every position"""
    A = _A()
    out = {}
    for k in rng.sample(["L", "H", "S", "I", "M", "E", "Q"], rng.randint(1, 4)):
        r = rng.random()
        if r < 0.4:
            out[k] = A.ListValue(items=[gen_value(rng, 1, False, features["holo"]) for _ in range(rng.choice([0, 1, 2, 3]))])
        elif r < 0.55 and features["holo"]:
            out[k] = "HOLO"
        elif r < 0.65:
            out[k] = A.ListValue(items=[A.InlineMap(pairs={"k": gen_scalar(rng)}), gen_scalar(rng)])
        else:
            out[k] = gen_scalar(rng)
    return out


# literal-zone contents: plain ones AND the ones a whole-text post-pass of the emitted view would damage (round-2 seed
# C14-a: project(authoring) emitting with FormatOptions(blank_line_normalize, trailing_whitespace="strip")): lines ending
# in blanks / a tab, runs of >= 3 empty lines, lines that look like section markers, whitespace-only content.  The octave
# view is parsed back and its zone CONTENT is compared byte for byte (zone_items: the content is one string leaf) with
# the projection and with the json view, in all four modes.
ZONE_CONTENTS = ["code", "line1\nline2", "x = 1\n", "", "a: b",
                 "line one  \nline two\n\n\n\nafter the gap\n  trailing tab\t\nend",
                 "\u00a71::A\nx\n\u00a72::B\ny", "tail \t", "\n\n\n\nx", "a\n\n\n\n\n", " \n\t\n  ",
                 "x\u00a7 1::\n\n\n\n\u00a73::C[note]\n", "K::v   \n===END===\n\n\n\n// c \n"]
ZONE_FRAGILE = [z for z in ZONE_CONTENTS if any(ln != ln.rstrip() for ln in z.split("\n")) or "\n\n\n\n" in z or "\u00a7" in z]


def zone_contents(doc):
    A = _A()
    out = []

    def walk(n):
        if isinstance(n, A.Assignment) and isinstance(n.value, A.LiteralZoneValue):
            out.append(n.value.content)
        for c in getattr(n, "children", None) or []:
            walk(c)
    for n in doc.sections:
        walk(n)
    return out


HOLO_TEXTS = ['["ex"∧REQ→§SELF]', '["ACTIVE"∧REQ∧ENUM[ACTIVE,DONE]]', '["x"∧OPT]']


def gen_children(rng, depth, n_lo, n_hi, features):
    A = _A()
    out = []
    n = rng.randint(n_lo, n_hi)
    for _ in range(n):
        r = rng.random()
        key = rng.choice(FILTER_KEYS) if rng.random() < 0.4 else rng.choice(PLAIN_KEYS)
        if r < 0.62 or depth >= 3:
            out.append(A.Assignment(key=key, value=gen_value(rng, 0, features["zone"], features["holo"])))
        else:
            tgt = rng.choice(["TGT", "INDEXER"]) if (features["target"] and rng.random() < 0.3) else None
            out.append(A.Block(key=key, target=tgt, children=gen_children(rng, depth + 1, 0 if rng.random() < 0.15 else 1, 3, features)))
    if features["dup"] and out and rng.random() < 0.5:
        src = rng.choice(out)
        if isinstance(src, A.Assignment):
            out.insert(rng.randint(0, len(out)), A.Assignment(key=src.key, value=gen_scalar(rng)))
        else:
            out.append(A.Block(key=src.key, children=gen_children(rng, depth + 1, 1, 2, features)))
    if features["comment"] and rng.random() < 0.3 and depth > 0:
        out.append(A.Comment(text="orphan note"))
    return out


def gen_doc(rng, i):
    A = _A()
    # every feature is off in a share of documents so that the wf (theorem) domain is well represented
    features = {f: rng.random() < p for f, p in
                [("section", 0.35), ("dup", 0.3), ("target", 0.3), ("holo", 0.35), ("zone", 0.5), ("comment", 0.4),
                 ("nmeta", 0.35)]}
    if i % 5 == 0:
        features = dict.fromkeys(features, False)
        features["zone"] = True
    sections = gen_children(rng, 0, 1, 6, features)
    if features["section"]:
        for _ in range(rng.randint(1, 2)):
            sec = A.Section(section_id=rng.choice(["1", "2", "2b"]), key=rng.choice(["SEC", "OVERVIEW", "STATUS"]),
                            annotation=rng.choice([None, None, "note"]),
                            children=gen_children(rng, 1, 0 if rng.random() < 0.1 else 1, 3, features))
            sections.insert(rng.randint(0, len(sections)), sec)
    meta = {}
    if rng.random() < 0.8:
        meta = {"TYPE": "X", "VERSION": "1.0"}
        if rng.random() < 0.3:
            meta["TAGS"] = A.ListValue(items=["a", "b"])
        if features["holo"] and rng.random() < 0.5:
            meta[rng.choice(["PATTERN", "TAGS"])] = rng.choice(["HOLO", A.ListValue(items=["HOLO", "a"]), A.ListValue(items=["x", A.ListValue(items=["HOLO"])])])
    if features["nmeta"]:
        for k in rng.sample(["N", "CONTRACT_NOTES", "N2"], rng.randint(1, 2)):
            meta[k] = gen_meta_block(rng, features)
    return A.Document(name="DOC", meta=meta, sections=sections), features


def doc_text(doc, rng):
    """emit, then splice holographic patterns in at text level (the emitter needs parser-made HolographicValues)"""
    import re
    from octave_mcp.core.emitter import emit
    t = emit(doc)
    return re.sub(r"\bHOLO\b", lambda m: rng.choice(HOLO_TEXTS), t)


# ---------------------------------------------------------------------------------------------------
def parse_back(fmt, output):
    """-> ('items', [items]) | ('pairs', [(k,t)]) | ('unreadable', reason)"""
    from octave_mcp.core.parser import parse
    import yaml
    if fmt == "octave":
        try:
            return "items", items_doc(parse(output))
        except Exception as e:  # noqa
            return "unreadable", f"{type(e).__name__}: {e}"
    if fmt == "json":
        try:
            return "items", items_pydict(json.loads(output))
        except Exception as e:  # noqa
            return "unreadable", f"{type(e).__name__}: {e}"
    if fmt == "yaml":
        try:
            d = yaml.safe_load(output)
            return "items", items_pydict(d if d is not None else {})
        except Exception as e:  # noqa
            return "unreadable", f"{type(e).__name__}: {e}"
    return "pairs", md_scan(output)


def run(ctx):
    mut = os.environ.get("VERIF_SELFTEST_MUTATION")
    if mut:
        _apply_selftest_mutation(mut)
        ctx.extra["SELFTEST_MUTATION"] = mut
    have_model = ctx.build_status["drivers"].get("proj", False)
    ctx.extra["rule"] = (
        "documents are generated as ASTs (top-level assignments/blocks over the six filter keys STATUS RISKS DECISIONS "
        "TESTS CI DEPS and %d plain keys, blocks nested to depth 3 with optional [->TARGET], section markers with "
        "children and annotation, lists incl. empty and nested, lists of inline maps, literal zones, holographic "
        "values in every value position (assignment at any depth, list item at any depth, inline-map value, META "
        "value, inside nested META blocks), nested META blocks holding lists / lists of inline maps / holographic "
        "values / scalars, duplicate sibling keys (assignment and block), orphan comments, META with list value), emitted to "
        "text; the source of truth is what the real parser reads back. Each feature is switched off in a share of "
        "documents (1 in 5 documents has none but zones) so that the theorem domain wf_doc is represented. "
        "x 4 modes x 4 formats through EjectTool.execute, plus `octave eject` through click's CliRunner. "
        "non-trivial = distinct (document tokens, mode, format)" % len(PLAIN_KEYS))
    root = tempfile.mkdtemp(prefix="c14_")
    try:
        _run(ctx, root, have_model)
    finally:
        shutil.rmtree(root, ignore_errors=True)
    ctx.assumptions += [
        "json.dumps / yaml.dump are trusted to serialise the dict tree; their output is parsed back with json.loads / yaml.safe_load",
        "the markdown pair scan (md_scan) is the harness' reading of a markdown view: `- **K**: text` / `**K**: text` lines, fenced blocks re-joined",
        "OCTAVE output is read back with octave_mcp.parse; emit/parse fidelity of scalars is C01-C04 (generated scalars are tame)",
        "since repair 88905cd the markdown model needs no str(HolographicValue) oracle: the exact markdown text is compared with the model for every document",
    ]


def _run(ctx, root, have_model):
    from octave_mcp.core.parser import parse
    from octave_mcp.core.projector import project
    from octave_mcp.core.emitter import emit
    import octave_mcp.mcp.eject as E
    from click.testing import CliRunner
    from octave_mcp.cli.main import cli
    A = _A()
    rng = ctx.rng
    loop = asyncio.new_event_loop()
    tool = E.EjectTool()
    # -------- finding witnesses -------------------------------------------------------------------
    for fid, f in ctx.known.items():
        try:
            ctx.finding_witness(fid, replay_witness(loop, tool, root, f["witness"], fid))
        except Exception as e:  # noqa
            ctx.obligation_failure("finding-witness:" + fid, f"{type(e).__name__}: {e}")
    # -------- documents ------------------------------------------------------------------------------
    texts = []
    corpus_dir = os.path.join(os.path.dirname(os.path.dirname(os.path.dirname(os.path.abspath(__file__)))), "corpus", "C14")
    if os.path.isdir(corpus_dir):
        for fn in sorted(os.listdir(corpus_dir)):
            if fn.endswith(".oct.md"):
                texts.append((open(os.path.join(corpus_dir, fn), encoding="utf-8").read(), {"corpus": fn}))
            elif fn.endswith(".json"):
                # regression of a REPAIRED finding: must pass (no attribution possible); the document also runs
                # through the whole pipeline below
                reg = json.load(open(os.path.join(corpus_dir, fn), encoding="utf-8"))
                regression_fixed(ctx, loop, tool, reg, fn)
                texts.append((reg["doc_text"], {"corpus": fn}))
    n_docs = ctx.scale(260, 6000)
    for i in range(n_docs):
        d, feats = gen_doc(rng, i)
        try:
            texts.append((doc_text(d, rng), feats))
        except Exception as e:  # noqa
            ctx.hist("generator", "emit failed " + type(e).__name__)
    m_lines, m_expect = [], []
    n_cli = 0
    for di, (text, feats) in enumerate(texts):
        try:
            src = parse(text)
            stable = tok_doc(parse(emit(src))) == tok_doc(src)
        except OutOfModel as e:
            ctx.hist("generator", "out of model: " + str(e))
            continue
        except Exception as e:  # noqa
            ctx.hist("generator", "unreadable " + type(e).__name__)
            continue
        if not stable:
            ctx.hist("generator", "source does not round-trip (C01-C04 scope)")
            continue
        ctx.hist("generator", "ok")
        src_tok = tok_doc(src)
        src_items = items_doc(src)
        holo = has_kind(src, A.HolographicValue)
        nmeta = any(isinstance(v, dict) for v in src.meta.values())
        ctx.hist("doc_items", min(len(src_items) // 10 * 10, 100))
        for f in ("section", "dup", "target", "holo", "zone", "comment", "nmeta"):
            if feats.get(f):
                ctx.hist("feature", f)
        ctx.hist("parsed_document_has", ("holographic " if holo else "") + ("nested-META " if nmeta else "") or "neither")
        for pos in holo_positions(src):
            ctx.hist("holographic_position", pos)
        zc = zone_contents(src)
        ctx.hist("literal_zones", "none" if not zc else ("with trailing blanks/tabs, >=3 blank lines or section-like lines"
                                                        if any(z in ZONE_FRAGILE for z in zc) else "plain content only"))
        if have_model:
            m_lines.append("items " + src_tok)
            m_expect.append(("items(source)", {"doc_text": text}, fmt_items(src_items)))
        if len(ctx.samples) < 4 and di % 50 == 3:
            ctx.sample({"doc_text": text, "items": len(src_items)})
        for mode in MODES:
            # ---- core projection (AST level) vs model ----
            pr = project(copy.deepcopy(src), mode)
            view = pr.filtered_doc
            view_items = items_doc(view)
            dups = dup_positions(view)
            ctx.count()
            if have_model:
                m_lines.append(f"project {enc_str(mode)} {src_tok}")
                m_expect.append((f"project({mode})", {"doc_text": text, "mode": mode},
                                 " ".join(["1" if pr.lossy else "0", f"O {len(pr.fields_omitted)}"]
                                          + [enc_str(x) for x in pr.fields_omitted] + [tok_doc(view)])))
                vt = tok_doc(view)
                pyd = E._ast_to_dict(view)
                m_lines.append("dict 0 " + vt)
                m_expect.append((f"_ast_to_dict({mode})", {"doc_text": text, "mode": mode}, tok_native(pyd)))
                m_lines.append("ditems 0 " + vt)
                m_expect.append((f"items(dict,{mode})", {"doc_text": text, "mode": mode}, fmt_items(items_pydict(pyd))))
                m_lines.append("native 0 " + vt)
                m_expect.append((f"native(dict,{mode})", {"doc_text": text, "mode": mode}, "1" if is_native(pyd) else "0"))
                # exact markdown text, for EVERY document (no holographic exclusion since repair 88905cd)
                m_lines.append("md " + vt)
                m_expect.append((f"_ast_to_markdown({mode})", {"doc_text": text, "mode": mode}, enc_str(E._ast_to_markdown(view))))
                ctx.hist("model_scope", "in_model" + (" (holographic)" if holo else ""))
                m_lines.append("wf " + vt)
                m_expect.append(("wf", None, None))
            # AST level: no invention, lossy flag
            case0 = {"doc_text": text, "mode": mode}
            sset = set(src_items)
            inv = [it for it in view_items if it not in sset]
            if inv:
                ctx.property_failure(dict(case0, invented=fmt_items(inv[:5])), "project(): projected AST contains an item the source does not have")
            if set(view_items) != sset and not pr.lossy:
                ctx.property_failure(case0, "project(): something was left out but lossy=false")
            if mode in ("canonical", "authoring") and (pr.lossy or tok_doc(view) != src_tok):
                ctx.property_failure(case0, f"project({mode}) is not the whole document with lossy=false")
            per_format = {}
            for fmt in FORMATS:
                case = {"doc_text": text, "mode": mode, "format": fmt}
                ctx.count()
                ctx.nontrivial((src_tok, mode, fmt))
                ctx.hist("mode_format", f"{mode}/{fmt}")
                try:
                    r = loop.run_until_complete(tool.execute(content=text, schema="X", mode=mode, format=fmt))
                except Exception as e:  # noqa  -- no attribution: the tool path has no listed exception finding in C14
                    ctx.property_failure(case, f"octave_eject raised {type(e).__name__}: {e}")
                    continue
                out = r.get("output")
                if fmt != "octave":
                    marks = [m for m in REPR_MARKS if m in out and m not in text]
                    if marks:
                        ctx.property_failure(dict(case, marks=marks), f"{fmt} view contains a Python object dump / repr ({marks[0].strip()})")
                lossy = r.get("lossy")
                if lossy is not pr.lossy or list(r.get("fields_omitted", [])) != list(pr.fields_omitted):
                    ctx.property_failure(case, "octave_eject: lossy / fields_omitted differ from project()")
                if mode in ("canonical", "authoring") and lossy is not False:
                    ctx.property_failure(case, f"{mode} reports lossy={lossy}")
                kind, got = parse_back(fmt, out)
                per_format[fmt] = (kind, got)
                if kind == "unreadable":
                    ctx.property_failure(dict(case, reason=got), f"{fmt} output cannot be read back")
                    continue
                if kind == "items":
                    gset = set(got)
                    invented = [it for it in got if it not in sset]
                    if invented:
                        ctx.property_failure(dict(case, invented=fmt_items(invented[:5])),
                                             f"{fmt} view contains a key/value the source does not have at that path")
                    missing = [it for it in view_items if it not in gset]
                    # relative to the projected AST every format must be complete; relative to the source when lossy=false
                    for it in missing:
                        fid = attribute_missing(it, dups)
                        ctx.hist("missing_item_attribution", fid or "unattributed")
                        ctx.property_failure(dict(case, missing=fmt_items([it])),
                                             f"{fmt} view omits an item of the projection (lossy={lossy}): {fmt_items([it])}", finding=fid)
                else:
                    want = source_pairs(view, through_sections=True)
                    have = list(got)
                    cw, ch = Counter(want), Counter(have)
                    extra = list((ch - cw).elements())
                    lack = list((cw - ch).elements())
                    sec_pairs = Counter(source_pairs(view, True)) - Counter(source_pairs(view, False))
                    for k, t in lack:
                        fid = None
                        if sec_pairs.get((k, t), 0) > 0:
                            fid = F_SECTION
                            sec_pairs[(k, t)] -= 1
                        ctx.hist("missing_item_attribution", (fid or "unattributed") + "(markdown)")
                        ctx.property_failure(dict(case, missing=[k, t[:80]]), f"markdown view omits {k}", finding=fid)
                    for k, t in extra:
                        ctx.property_failure(dict(case, invented=[k, t[:80]]), f"markdown view shows {k}: {t[:40]!r} which the source does not have")
                    # targets are not shown by markdown either
                    if any("t" in p for p, _ in view_items):
                        ctx.property_failure(case, "markdown view omits a block target", finding=F_TARGET)
            # ---- formats agree (same projection): json vs yaml exactly; octave vs json modulo the clauses
            if "json" in per_format and "yaml" in per_format and per_format["json"][0] == per_format["yaml"][0] == "items":
                if set(per_format["json"][1]) != set(per_format["yaml"][1]):
                    ctx.property_failure({"doc_text": text, "mode": mode}, "json and yaml views contain different items")
            if "octave" in per_format and "json" in per_format and per_format["octave"][0] == per_format["json"][0] == "items":
                o, j = set(per_format["octave"][1]), set(per_format["json"][1])
                for it in o - j:
                    fid = attribute_missing(it, dups)
                    ctx.property_failure({"doc_text": text, "mode": mode, "item": fmt_items([it])},
                                         "octave and json views of one projection differ: " + fmt_items([it]), finding=fid)
                for it in j - o:
                    ctx.property_failure({"doc_text": text, "mode": mode, "item": fmt_items([it])},
                                         "json view has an item the octave view lacks: " + fmt_items([it]))
            if "octave" in per_format and per_format["octave"][0] == "items":
                zkey = "k" + enc_str("content")
                want_z = sorted((p, c) for p, c in view_items if p and p[-1] == zkey and not any(st.startswith("s") for st in p))
                got_z = sorted((p, c) for p, c in per_format["octave"][1] if p and p[-1] == zkey and not any(st.startswith("s") for st in p))
                if want_z != got_z:
                    diff = [fmt_items([it]) for it in want_z if it not in got_z][:2]
                    ctx.property_failure({"doc_text": text, "mode": mode, "format": "octave", "zone_items_missing": diff},
                                         f"octave view ({mode}, lossy={pr.lossy}) alters the content of a literal zone (compared byte for byte with the projection)")
                if set(per_format["octave"][1]) != set(view_items):
                    ctx.property_failure({"doc_text": text, "mode": mode}, "octave view does not contain exactly the projection's items")
            # ---- CLI ----
            if di % ctx.scale(4, 2) == 0:
                fp = os.path.join(root, "d.oct.md")
                with open(fp, "w", encoding="utf-8") as fh:
                    fh.write(text)
                for fmt in FORMATS:
                    res = CliRunner().invoke(cli, ["eject", fp, "--mode", mode, "--format", fmt])
                    n_cli += 1
                    ctx.count()
                    ctx.hist("path", "cli eject")
                    try:
                        r = loop.run_until_complete(tool.execute(content=text, schema="X", mode=mode, format=fmt))
                        ref = r["output"] + "\n"
                    except Exception:  # noqa
                        ref = None
                    if ref is not None and res.exit_code == 0 and res.output == ref:
                        continue
                    case = {"doc_text": text, "mode": mode, "format": fmt, "via": "octave eject", "exit": res.exit_code}
                    if ref is None:
                        # the TOOL raised on this call: already reported above as an unattributed failure of the tool;
                        # nothing to compare the CLI with
                        ctx.hist("path", "cli eject: no tool reference")
                        continue
                    fid = attribute_cli(view, fmt, res)
                    ctx.hist("cli_difference_attribution", fid or "unattributed")
                    ctx.property_failure(case, f"`octave eject --format {fmt}` prints a different view than octave_eject", finding=fid)
    ctx.extra["documents"] = len(texts)
    ctx.extra["cli_invocations"] = n_cli
    # -------- model comparison --------------------------------------------------------------------
    if have_model and m_lines:
        outs = run_driver("proj", m_lines)
        wf_count = Counter()
        for ln, (what, case, exp), got in zip(m_lines, m_expect, outs):
            if what == "wf":
                wf_count[got] += 1
                continue
            ctx.count()
            if got != exp:
                ctx.correspondence_failure({"what": what, "case": case, "impl": exp[:500], "model": got[:500]},
                                           f"{what}: model and implementation differ")
        ctx.extra["projections_in_theorem_domain(wf_doc)"] = dict(wf_count)
        # theorem domain: on wf projections the dict must be complete -- re-check on the implementation
    loop.close()


def _assignments(doc):
    A = _A()
    out = []

    def walk(n):
        if isinstance(n, A.Assignment):
            out.append(n)
        elif isinstance(n, A.Block):
            for c in n.children:
                walk(c)
    for n in doc.sections:
        walk(n)
    return out


def holo_positions(doc):
    """where holographic values sit in a parsed document (evidence histogram)"""
    A = _A()
    out = []

    def val(v, where):
        if isinstance(v, A.HolographicValue):
            out.append(where)
        elif isinstance(v, A.ListValue):
            for x in v.items:
                val(x, where + ">list-item")
        elif isinstance(v, A.InlineMap):
            for x in v.pairs.values():
                val(x, where + ">map-value")
        elif isinstance(v, dict):
            for x in v.values():
                val(x, "nested-META-value")

    def walk(n, depth):
        if isinstance(n, A.Assignment):
            val(n.value, "assignment" if depth == 0 else "nested-assignment")
        elif isinstance(n, A.Block):
            for c in n.children:
                walk(c, depth + 1)
        elif isinstance(n, A.Section):
            for c in n.children:
                walk(c, depth + 1)
    for v in doc.meta.values():
        val(v, "META-value")
    for n in doc.sections:
        walk(n, 0)
    return out


def _meta_block_nonnative(doc):
    """class names of the AST objects a nested META block (dict) holds, at any depth below the dict"""
    A = _A()
    found = set()

    def val(v, inside):
        if isinstance(v, dict):
            for x in v.values():
                val(x, True)
        elif isinstance(v, A.ListValue):
            if inside:
                found.add("ListValue")
            for x in v.items:
                val(x, inside)
        elif isinstance(v, A.InlineMap):
            if inside:
                found.add("InlineMap")
            for x in v.pairs.values():
                val(x, inside)
        elif isinstance(v, (A.HolographicValue, A.LiteralZoneValue)) and inside:
            found.add(type(v).__name__)
    for v in doc.meta.values():
        val(v, False)
    return found


def attribute_cli(view, fmt, res):
    """Which listed CLI finding explains that `octave eject --format fmt` differs from what octave_eject returns for the
    same projection.  Every clause is (a) via the CLI (the only caller), (b) a predicate on the projected document,
    (c) the class the CLI's own output / error message names.  cli/main.py is not touched by repair 88905cd."""
    A = _A()
    out = res.output or ""
    if fmt == "markdown":
        direct = list(view.meta.values()) + [a.value for a in _assignments(view)]
        if any(isinstance(v, (A.ListValue, A.InlineMap, A.LiteralZoneValue, A.HolographicValue, dict)) for v in direct):
            return F_CLI_MD
        return None
    if fmt not in ("json", "yaml"):
        return None

    def names(cls):
        if fmt == "json":
            return res.exit_code != 0 and f"Object of type {cls} is not JSON serializable" in out
        return res.exit_code == 0 and f"!!python/object:octave_mcp.core.ast_nodes.{cls}" in out
    # the serialiser stops at / dumps the FIRST offending object: attribute by the class it names
    if has_kind(view, A.LiteralZoneValue) and names("LiteralZoneValue"):
        return F_CLI_ZONE
    if has_kind(view, A.HolographicValue) and names("HolographicValue"):
        return F_CLI_HOLO
    nn = _meta_block_nonnative(view)
    if any(names(c) for c in ("ListValue", "InlineMap") if c in nn):
        return F_CLI_META
    return None


def regression_fixed(ctx, loop, tool, reg, fn):
    """corpus/C14/fixed-*.json: the witness of a REPAIRED finding.  Everything below must hold; a miss is reported without
    attribution (VIOLATION)."""
    import yaml
    text, leaf = reg["doc_text"], reg["expect_string_leaf"]
    for mode in MODES if reg.get("all_modes", True) else ["canonical"]:
        outs = {}
        for fmt in FORMATS:
            case = {"regression": fn, "doc_text": text, "mode": mode, "format": fmt}
            ctx.count()
            try:
                r = loop.run_until_complete(tool.execute(content=text, schema="X", mode=mode, format=fmt))
            except Exception as e:  # noqa
                ctx.property_failure(case, f"regression {reg['fixed']}: octave_eject raised {type(e).__name__}: {e}")
                continue
            outs[fmt] = r["output"]
        if mode not in ("canonical", "authoring"):
            continue          # the filtered modes drop the witness key: only "no exception" is demanded there

        def leaves(v):
            if isinstance(v, dict):
                return [x for y in v.values() for x in leaves(y)]
            if isinstance(v, list):
                return [x for y in v for x in leaves(y)]
            return [v]
        case = {"regression": fn, "doc_text": text, "mode": mode}
        if "json" in outs:
            try:
                lv = leaves(json.loads(outs["json"]))
                if leaf not in lv:
                    ctx.property_failure(dict(case, format="json"), f"regression {reg['fixed']}: json view lacks the string leaf {leaf!r}")
            except Exception as e:  # noqa
                ctx.property_failure(dict(case, format="json"), f"regression {reg['fixed']}: json view does not parse: {e}")
        if "yaml" in outs:
            try:
                lv = leaves(yaml.safe_load(outs["yaml"]))
                if leaf not in lv:
                    ctx.property_failure(dict(case, format="yaml"), f"regression {reg['fixed']}: yaml view lacks the string leaf {leaf!r}")
            except Exception as e:  # noqa
                ctx.property_failure(dict(case, format="yaml"), f"regression {reg['fixed']}: yaml view is not safe_load-able: {type(e).__name__}")
        if "markdown" in outs:
            md = outs["markdown"]
            bad = [m for m in (" object at 0x", "Token(") if m in md]
            if bad:
                ctx.property_failure(dict(case, format="markdown"), f"regression {reg['fixed']}: markdown view contains {bad[0].strip()!r}")
            if leaf not in md:
                ctx.property_failure(dict(case, format="markdown"), f"regression {reg['fixed']}: markdown view lacks the text {leaf!r}")
    ctx.hist("corpus", "regression of a repaired finding: " + fn)


def replay_witness(loop, tool, root, w, fid):
    """True iff the committed witness still shows the defect."""
    from octave_mcp.core.parser import parse
    from click.testing import CliRunner
    from octave_mcp.cli.main import cli
    text, mode, fmt = w["doc_text"], w.get("mode", "canonical"), w["format"]
    src = parse(text)
    if fid in CLI_FINDINGS:
        fp = os.path.join(root, "w.oct.md")
        with open(fp, "w", encoding="utf-8") as fh:
            fh.write(text)
        res = CliRunner().invoke(cli, ["eject", fp, "--mode", mode, "--format", fmt])
        # the defect is the CLI's alone: the tool must be clean on the same input
        r = loop.run_until_complete(tool.execute(content=text, schema="X", mode=mode, format=fmt))
        return w["expect_in_output"] in (res.output or "") and w["expect_in_output"] not in r["output"]
    r = loop.run_until_complete(tool.execute(content=text, schema="X", mode=mode, format=fmt))
    kind, got = parse_back(fmt, r["output"])
    if kind == "items":
        missing = [it for it in items_doc(src) if it not in set(got)]
        return r["lossy"] is False and any(attribute_missing(it, dup_positions(src)) == fid for it in missing)
    if kind == "pairs":
        lack = Counter(source_pairs(src, True)) - Counter(got)
        return r["lossy"] is False and bool(lack)
    return False
