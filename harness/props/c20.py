"""C20 -- any text is either read or cleanly refused; tools never raise.

Implementation-side search (the Coq side lives in coq/theories/Properties/C20.v and is not needed here):

 (a) corpus/C20/*.json and the witnesses of the `known` findings are replayed first;
 (b) generators (all randomness from ctx.rng): exhaustive / sampled token sequences over a 30-symbol
     alphabet, random sequences over an extended alphabet, random Unicode strings (no surrogates), span
     mutations of every packaged *.oct.md, curated + grammar-random structured documents, size-scaled
     families (timing clause, SUPPORT ONLY) and deep bracket / deep indentation probes;
 (c) every text goes to tokenize, parse, parse_with_warnings, parse_meta_only inside worker processes; each
     call is guarded by setitimer (Python-level hang) and the parent watches a per-worker progress cell
     (C-level hang, interpreter crash).  Anything but a return / LexerError / ParserError is a property failure;
     the lexer verdict is compared with the extracted model (driver `syn`) through lib.lexcorr;
 (d) every MCP tool x every format/mode flag combination on curated documents, random flag combinations on
     a subsample of all generators; the result must be a dict with `status` or `validation_status` that
     `json.dumps(result, indent=2)` (server.py:handle_call_tool) accepts;
 (e) failures are attributed to a known finding only through the precise predicates in `_classify_*`.

Repair 88905cd (octave_eject converts holographic values and nested META blocks): the classifier branch for
TypeError out of `json.dumps(data)` is GONE -- such a raise is an unattributed failure again -- and the two former
witnesses are regressions (corpus/C20/fixed-88905cd-*.json, kind `tool-regression`): every mode x format returns an
envelope, the json view parses and holds the pattern text as a string leaf, the yaml view is safe_load-able, the
markdown view has no ` object at 0x` / `Token(`.  The flow model lists the json.dumps site as benign; a raise there is
reported as a refuted assumption (correspondence failure) on top of the property failure.

Self-test switches (environment variable C20_SELFTEST, applied inside the workers and in --replay); each of
them must turn the check red (exit 1 with a VIOLATION line):
   parser_keyerror  parse() raises KeyError on every text containing "true null"
   hang             tokenize() sleeps forever on every text containing "zz"
   tool_raise       ValidateTool.execute raises RuntimeError
Other knobs: C20_WORKERS (default 16), C20_HANG_S (per-call timeout, default 5 s).
"""
from __future__ import annotations

import itertools
import json
import math
import os
import re
import shutil
import signal
import sys
import tempfile
import time
import traceback
from collections import Counter
from pathlib import Path

from lib import lexcorr
from lib.core import SRC, VERIF

LEVEL = "proof"
DRIVERS = ["syn", "flow"]
# the lexer theorems of C20 are about Lex/Lexer.v, whose hand scanners were written against the regex texts of
# lexer.TOKEN_PATTERNS pinned in Lex/Pins_Lexer.v: a changed token pattern must break a C20 obligation as well
COQ_TARGETS = ["theories/Lex/Pins_Lexer.vo"]

HANG_S = float(os.environ.get("C20_HANG_S", "5"))
NWORKERS = int(os.environ.get("C20_WORKERS", "16"))
SELFTEST = os.environ.get("C20_SELFTEST", "")
SLOPE_MAX = 1.3
CORPUS = VERIF / "corpus" / "C20"

# --------------------------------------------------------------------------------------------------
# alphabets and rendering
# --------------------------------------------------------------------------------------------------
FENCE = "```\nx\n```"
ALPHABET = ["A", "META", "1", "-2.5", '"s"', "true", "null", "::", ":", "[", "]", ",", "\u2192", "->", "\u2295",
            "vs", "\u2227", "\u00a7", "//c", "\n", "\n  ", "\n    ", "===D===", "===END===", "---", "$V", "1.2.3",
            FENCE, "%", "OCTAVE::5.1.0"]
assert len(ALPHABET) == 30
EXTENDED = ALPHABET + ["@", "\u2228", "~", "\u29fa", "\u21cc", "<->", "#", "+", "|", "&", "{", "}", "<", ">", '"""',
                       "\t", "TYPE", "CONTRACT", "FIELD", "FIELDS", "POLICY", "REQ", "ENUM", "REGEX", "false",
                       "1e5", "A<q>", "A{q}", "K", "B", '"', "\\", "==", "\u00a71", "===", "\n      ", "60", "``",
                       "```", "````", "\r", "\u00e9", "\U0001F600", "\u0301", "-", ".", "/", "_", "0", "$"]


def render(seq):
    out = []
    for i, s in enumerate(seq):
        if i and not (out[-1].endswith((" ", "\n")) or s.startswith("\n")):
            out.append(" ")
        out.append(s)
    return "".join(out)


def seq_texts(length, lo=0, hi=None):
    """Texts of all symbol sequences of `length` whose first-symbols index range is [lo, hi) (mixed radix)."""
    n = len(ALPHABET)
    total = n ** length
    hi = total if hi is None else hi
    for idx in range(lo, hi):
        seq, x = [], idx
        for _ in range(length):
            seq.append(ALPHABET[x % n])
            x //= n
        yield render(seq[::-1])


POOLS = {
    "ascii": [chr(c) for c in range(32, 127)],
    "ops": list("\u2192\u2295\u29fa\u21cc\u2227\u2228\u00a7:[],\"=-<>|&+~@#$%`/\\{}") + ["::", "->", "<->", "vs", "===", "---", "//", "```"],
    "ctrl": ["\x00", "\r", "\t", "\x0b", "\x0c", "\x1c", "\x1d", "\x1e", "\x1f", "\x7f", "\x85", "\u2028", "\u2029", "\n", "\n  ",
             "\u00a0", "\u200b", "\u200d", "\ufeff", "\x1b", "\x08"],
    "combining": ["\u0301", "\u0308", "\u0338", "\u20e3", "\u0323", "\u0f71", "\u3099", "\ufe0f", "\u0345", "\u1ab0", "\u093c"],
    "astral": ["\U0001F600", "\U0001F468", "\U0001D400", "\U00020000", "\U0001F1E6", "\U000E0001", "\U0001F3FB", "\U00010000",
               "\U0010FFFD", "\U0001D7D8", "\U0001F100"],
    "private": ["\ue000", "\uf8ff", "\U000F0000", "\U00100000"],
    "nonchar": ["\ufffe", "\uffff", "\ufdd0", "\U0001FFFE", "\U0010FFFF"],
    "letters": list("ABKZaz_09") + ["\u00e9", "\u0130", "\u00df", "\u01c5", "\u0660", "\u2460", "\u00bd", "\u4e2d", "\u05d0", "\u2167", "\uff21"],
}


def gen_unicode(rng, n):
    out = [""]
    names = list(POOLS)
    for _ in range(n):
        ln = rng.randint(0, 200) if rng.random() < 0.5 else rng.randint(0, 12)
        mode = rng.random()
        if mode < 0.3:       # fully random code points (no surrogates)
            chars = []
            for _ in range(ln):
                while True:
                    c = rng.randint(0, 0x10FFFF)
                    if not 0xD800 <= c <= 0xDFFF:
                        break
                chars.append(chr(c))
            s = "".join(chars)
        else:
            k = rng.randint(1, len(names))
            pools = rng.sample(names, k)
            s = "".join(rng.choice(POOLS[rng.choice(pools)]) for _ in range(ln))
            if mode > 0.7:   # give it a plausible OCTAVE frame so that the parser is reached
                s = rng.choice(["K::", "===D===\nK::", "K:\n  X::", "META:\n  TYPE::", "K::[", 'K::"']) + s
            elif mode > 0.62:  # the string as the NAME of an envelope line (the envelope regex is ASCII-only, the
                # diagnostic for a rejected name uses Unicode-aware str methods: both must agree on every name)
                s = "===" + s[: rng.randint(1, 10)].replace("\n", "") + "===\nK::1\n===END===\n"
        out.append(s)
    return out


def packaged_files():
    seen, out = set(), []
    for root in (SRC / "resources", SRC / "schemas" / "builtin", SRC):
        for p in sorted(root.rglob("*.oct.md")):
            if p not in seen:
                seen.add(p)
                out.append(p)
    return out


def mutate(rng, text, k):
    for _ in range(k):
        n = len(text)
        if n == 0:
            text = rng.choice(EXTENDED)
            continue
        op = rng.choice(("delete", "insert", "duplicate", "transpose"))
        a = rng.randrange(n)
        ln = rng.choice((1, 1, 2, 3, 8, 40, 200)) if rng.random() < 0.8 else rng.randint(1, max(1, n // 4))
        b = min(n, a + ln)
        if op == "delete":
            text = text[:a] + text[b:]
        elif op == "insert":
            ins = "".join(rng.choice(EXTENDED) for _ in range(rng.randint(1, 4)))
            text = text[:a] + ins + text[a:]
        elif op == "duplicate":
            text = text[:b] + text[a:b] + text[b:]
        else:
            c = min(n, b + rng.choice((1, 2, 5, 30, 120)))
            text = text[:a] + text[b:c] + text[a:b] + text[c:]
    return text


# --------------------------------------------------------------------------------------------------
# structured documents (targets: the tool stages that run outside any try)
# --------------------------------------------------------------------------------------------------
CURATED = [
    "",
    "===Caf\u00e9===\nK::1\n===END===\n", "===\u0414\u041e\u041a===\nK::1\n===END===\n", "===\u6587\u6863===\nK::1\n===END===\n",
    "===DOC\u00b2===\nK::1\n===END===\n", "===_\u00e9_1===\n===END===\n", "===\u0661\u0662===\nK::1\n", "===A\u0301===\nK::1\n===END===\n",
    "K::zz",
    "K::v",
    '===D===\nF::["x"\u2227REQ\u2192\u00a7SELF]\n===END===\n',
    '===D===\nMETA:\n  TYPE::"T"\n  VERSION::"1.0"\n  STATUS::active\n---\nSTATUS::ok\nRISKS::[a,b]\nTESTS::[t1]\nDEPS:\n  X::1\n===END===\n',
    '===D===\nMETA:\n  TYPE::SESSION\n  VERSION::"1.0"\n  CONTRACT::[FIELD[STATUS]::REQ\u2227ENUM[A,B],FIELD[N]::OPT\u2227TYPE[NUMBER]]\nSTATUS::A\n===END===\n',
    '===D===\nMETA:\n  TYPE::1\n  CONTRACT::[FIELD[A]::REQ]\n===END===\n',
    '===D===\nMETA:\n  CONTRACT::[FIELD[A]::REQ]\n===END===\n',
    '===D===\nMETA:\n  TYPE::[a,b]\n  VERSION::2\n  CONTRACT::[FIELD[A]::REGEX["("]]\n===END===\n',
    '===D===\nMETA:\n  TYPE::"T"\n  NEST:\n    L::[a,b]\n    M::["x"\u2227REQ]\n===END===\n',
    '===SCHEMA===\nMETA:\n  TYPE::PROTOCOL_DEFINITION\n  VERSION::"1.0"\nPOLICY:\n  VERSION::"1.0"\n  UNKNOWN_FIELDS::REJECT\n  TARGETS::[\u00a7INDEXER,\u00a7SELF]\nFIELDS:\n  ID::["abc"\u2227REQ\u2227REGEX["^[a-z]+$"]\u2192\u00a7INDEXER]\n  N::[5\u2227OPT\u2227RANGE[1,10]]\n  E::["A"\u2227REQ\u2227ENUM[A,B,C]]\n  D::["2024-01-01"\u2227OPT\u2227DATE]\n===END===\n',
    '===D===\nPOLICY:\n  VERSION::1\n  UNKNOWN_FIELDS::[x]\n  TARGETS::5\nFIELDS:\n  A::1\n  B::[a,b]\n  C::"str"\n  D::["x"\u2227NOPE]\n  E:\n    F::["y"\u2227REQ]\n===END===\n',
    '===D===\nFIELDS::["x"\u2227REQ]\nPOLICY::1\n===END===\n',
    '===D===\nK::\n```python\nprint("x")\t\n```\nB:\n  ```\n  raw\n  ```\n===END===\n',
    '===D===\n\u00a71::NAME\n  A::1\n  \u00a72b::INNER[note,x]\n    B::["x"\u2227REQ\u2192\u00a7SELF]\n\u00a7CONTEXT::\n  V::$VAR\n===END===\n',
    '===D===\nA::NEVER[X,Y]\nB::FOO[]\nC::REGEX::"x"\nD::[REGEX::"a",ENUM::"b",k::v]\nE::ATHENA<wisdom>\nPATTERN::abc\n===END===\n',
    '===D===\nL::[[1,[2,[3,[4,[5,[6,[7]]]]]]],[k::v,k2::[a,b]],"s",true,null,-1.5e3,1.2.3,$V]\n===END===\n',
    '===D===\nRULES::[PATTERN::[a,b],REGEX::1,PATTERN::["x"\u2227REQ],REGEX::[k::v],ENUM::[[1],2],PATTERN::null,REGEX::true]\nPATTERN::[a,[b]]\nREGEX::[k::[1]]\n===END===\n',
    '===D===\nMETA:\n  TYPE::"T"\n  PATTERN::[a,b]\n  L::[REGEX::[a,b],PATTERN::1.5]\n===END===\n',
    "K::" + "[" * 99 + "1" + "]" * 99,
    "L::" + "[" * 40 + "a::b" + "]" * 40,
    '---\nname: Agent (x)\ndescription: "y"\n---\n===D===\nMETA:\n  TYPE::"T"\nK::v\n===END===\n',
    '---\nname: [unclosed\n---\nK::v\n',
    "K::a b c\nK::d\nK::e\nX->Y\nbare\nZ::A->B\u2227C vs D vs E\n",
    "STATUS::x\nSTATUS:\n  STATUS::y\nTESTS:\n  CI:\n    DEPS::[1]\n",
    "```\nonly fence\n```\n",
    "OCTAVE::5.1.0\n===D===\nK::v\n===END===\ntrailing::1\n",
    "===D===\nMETA:\n  TYPE::\"SKILL\"\n  VERSION::\"1.0\"\nSKILL:\n  NAME::x\n===END===\n",
    "===TEST_HOLOGRAPHIC===\nMETA:\n  TYPE::TEST_HOLOGRAPHIC\n  VERSION::\"1.0\"\nTEST_HOLOGRAPHIC:\n  NAME::5\n  STATUS::ZZZ\n===END===\n",
    "plain prose text: with a colon\nand a second line {curly}\n",
    "K::A{q}\nM::B<r>\n",
    '```octave\n===D===\nK::v\n===END===\n```',
    "K::1e999999\nM::-0.0\nN::" + "9" * 400 + "\n",
    "K::" + "1" * 4301,
    "K::\"\\\\n\\t\\\"\"\nM::\"\"\"tri\"ple\n\"\"\"\n",
    "META::notablock\nMETA:\n  A::1\n",
    "META:\n  A::1\n  A::2\n  B:\n    C::1\n    C::2\n// c\nK::v\n",
    "K::\u00a7\nL::\u00a7 \u00a7\nM::A\u2192\u00a71\n",
    "===D===\nK::v\n===END===\n===E===\nM::1\n===END===\n",
    # holographic values and nested META blocks with lists in every position (regression domain of repair 88905cd)
    '===D===\nMETA:\n  TYPE::"T"\n  PATTERN::["x"\u2227REQ\u2192\u00a7SELF]\n  TAGS::[["y"\u2227OPT],a,[b,["z"\u2227REQ]]]\n  N:\n    L::[a,["x"\u2227REQ],[k::1]]\n    H::["x"\u2227REQ\u2192\u00a7SELF]\n    E::[]\n    S::v\n  N2:\n    M::[[k::["x"\u2227OPT]],b]\n'
    'STATUS::["ACTIVE"\u2227REQ\u2227ENUM[ACTIVE,DONE]]\nRISKS::[["r"\u2227OPT],[k::["q"\u2227OPT]],[["n"\u2227REQ]]]\nTESTS:\n  CI::["c"\u2227REQ\u2192\u00a7SELF]\n  DEPS:\n    X::[a,["d"\u2227OPT]]\n===END===\n',
    '===D===\nMETA:\n  N:\n    L::[a,b]\n===END===\n',
    '===D===\nMETA:\n  N:\n    Z::\n```py\ncode\n```\n    L::[[1,[2]],[k::v,j::[a,b]]]\n  M:\n    H::["x"\u2227REQ]\n\u00a71::S\n  K::["x"\u2227REQ\u2192\u00a7SELF]\nK::["x"\u2227REQ]\nK::[["x"\u2227REQ]]\n===END===\n',
]

ATOMS = ["A", "abc", '"x"', '"a b"', "1", "-2", "1.5", "true", "null", "$V", "1.2.3", "REQ", "OPT", "DATE", "ISO8601", "DIR",
         "ENUM[A,B]", "ENUM[]", "CONST[X]", "CONST[1]", 'REGEX["^a+$"]', 'REGEX["("]', 'REGEX["[a-"]', "REGEX[abc]", "TYPE[NUMBER]",
         "TYPE[STRING]", "TYPE[X]", "TYPE[LIST]", "RANGE[1,5]", "RANGE[a,b]", "RANGE[5]", "RANGE[5,1]", "MAX_LENGTH[3]", "MAX_LENGTH[x]",
         "MIN_LENGTH[-1]", "MAX_LENGTH[]", "APPEND_ONLY", "NEVER[X]", "FOO[]", "A<q>", "\u00a7SELF", "\u00a7INDEXER", "\u00a71",
         "[a,b]", "[]", "[k::v]", "[[1]]", "FIELD[A]::REQ", "FIELD[A]::", "FIELD[]::REQ", "FIELD::REQ", "FIELD[A B]::REQ\u2227ENUM[A,B]",
         "FIELD[A]::REQ\u2227REQ", "FIELD[A]::ENUM[A]\u2227CONST[B]", "FIELD[a-b]::OPT", "FIELD[A]::REGEX[\"(\"]", "FIELD[A]::RANGE[x,y]",
         "FIELD[A]::TYPE[Q]", "FIELD[A]::MAX_LENGTH[q]", "FIELD[A]::\u2227", "FIELD[A]::REQ\u2192\u00a7T",
         # arguments that make a LIBRARY call fail with an exception class of its own (re.compile: OverflowError for a huge
         # repetition count, RecursionError for deep nesting; int / float conversions; huge widths)
         'REGEX["a{99999999999999999999}"]', 'REGEX["a{4294967296}"]', 'REGEX["' + "(" * 300 + ")" * 300 + '"]', 'REGEX["(?P<n>a)(?P<n>b)"]',
         'REGEX["\\\\"]', 'REGEX["[z-a]"]', 'REGEX["(?"]', 'FIELD[A]::REGEX["a{99999999999999999999}"]',
         "RANGE[1e999,5]", "RANGE[-1e999,1e999]", "RANGE[nan,1]", "RANGE[" + "9" * 400 + ",1]", "MAX_LENGTH[" + "9" * 400 + "]",
         "MAX_LENGTH[1e9]", "MIN_LENGTH[1.5]", "MAX_LENGTH[-0]", "CONST[1e999]", "ENUM[1e999,nan]", "DATE[x]", "ISO8601[1]"]
OPS = ["\u2227", "\u2192", "\u2228", "\u2295", ",", "::", " ", "vs", "@", "~", "\u2192\u00a7"]
KEYS = ["TYPE", "VERSION", "STATUS", "CONTRACT", "K", "NAME", "ID", "FIELDS", "POLICY", "UNKNOWN_FIELDS", "TARGETS", "META", "RISKS",
        "TESTS", "DEPS", "CI", "DECISIONS", "PATTERN", "REGEX", "ENUM", "TYPE", "SKILL", "TEST_HOLOGRAPHIC", "DEBATE_TRANSCRIPT",
        "FRONTMATTER", "A", "B"]


def _rand_value(rng, depth=0):
    r = rng.random()
    if r < 0.35:
        return rng.choice(ATOMS)
    if r < 0.6:
        n = rng.randint(1, 4)
        return "".join(rng.choice(ATOMS) + (rng.choice(OPS) if i < n - 1 else "") for i in range(n))
    if r < 0.9 and depth < 4:
        n = rng.randint(0, 4)
        sep = rng.choice([",", ",", "\u2227", "\u2192", ", ", ",\n    "])
        # an item may be an inline-map pair KEY::value whose value is ANY value (list, number, holographic group), with the keys that
        # have special handling (PATTERN / REGEX / constructor names) in the pool: warnings then carry non-string payloads (seed r7-C20-a)
        return "[" + sep.join((rng.choice(KEYS) + "::" if rng.random() < 0.25 else "") + _rand_value(rng, depth + 1) for _ in range(n)) + "]"
    if r < 0.95:
        return "\n```" + rng.choice(["", "py", " a b"]) + "\nlit\t\n```"
    return ""


def gen_structured(rng, n):
    out = []
    for _ in range(n):
        lines = []
        if rng.random() < 0.15:
            lines += ["---", "name: x (y)", "---"]
        if rng.random() < 0.8:
            lines.append("===%s===" % rng.choice(["D", "SCHEMA", "SKILL", "d_1"]))
        if rng.random() < 0.7:
            lines.append("META:")
            for _ in range(rng.randint(0, 4)):
                k = rng.choice(KEYS)
                if rng.random() < 0.15:
                    lines.append(f"  {k}:")
                    for _ in range(rng.randint(0, 2)):
                        lines.append(f"    {rng.choice(KEYS)}::{_rand_value(rng)}")
                else:
                    lines.append(f"  {k}::{_rand_value(rng)}")
            if rng.random() < 0.3:
                lines.append("---")
        for _ in range(rng.randint(0, 5)):
            r = rng.random()
            k = rng.choice(KEYS)
            if r < 0.45:
                lines.append(f"{k}::{_rand_value(rng)}")
            elif r < 0.8:
                lines.append(f"{k}{rng.choice(['', '', '[->T]', '[note]', '[->' + chr(0xa7) + 'X]'])}:")
                for _ in range(rng.randint(0, 4)):
                    k2 = rng.choice(KEYS)
                    if rng.random() < 0.25:
                        lines.append(f"  {k2}:")
                        lines.append(f"    {rng.choice(KEYS)}::{_rand_value(rng)}")
                    else:
                        lines.append(f"  {k2}::{_rand_value(rng)}")
            elif r < 0.9:
                lines.append(f"\u00a7{rng.choice(['1', '2b', 'CTX', '0'])}::{rng.choice(['NAME', '', 'META[a,b]'])}")
                lines.append(f"  {rng.choice(KEYS)}::{_rand_value(rng)}")
            else:
                lines.append(rng.choice(["// comment", "bare", "K: v", "K->v", "  ORPHAN::1"]))
        if rng.random() < 0.8:
            lines.append("===END===")
        out.append("\n".join(lines) + rng.choice(["", "\n"]))
    return out


# --------------------------------------------------------------------------------------------------
# size-scaled families (timing clause; x axis = len(text))
# --------------------------------------------------------------------------------------------------
def _fam_nested_blocks(n):
    return "\n".join("  " * i + "B%d:" % i for i in range(n)) + "\n" + "  " * n + "X::1\n"


_TAIL_WORDS_F = "closing quote forgotten "
FAMILIES = {
    "long_string": lambda k: 'K::"' + "a" * (20000 * k) + '"',
    "long_words": lambda k: "K::" + " ".join("w%d" % i for i in range(300 * k)),
    "long_list": lambda k: "K::[" + ",".join(str(i) for i in range(200 * k)) + "]",
    "long_flow_ascii": lambda k: "K::" + "->".join("A%d" % i for i in range(500 * k)),
    "long_flow_unicode": lambda k: "K::[" + "\u2192".join("A%d" % i for i in range(250 * k)) + "]",
    "many_lines": lambda k: "\n".join("K%d::%d" % (i, i) for i in range(100 * k)),
    "many_duplicate_keys": lambda k: "\n".join("K::%d" % i for i in range(300 * k)),
    "many_blocks": lambda k: "\n".join("B%d:\n  C::1" % i for i in range(60 * k)),
    "many_comments": lambda k: "\n".join("//c %d" % i for i in range(200 * k)),
    "many_percent": lambda k: "K::" + " ".join("%d%%" % i for i in range(200 * k)),
    "many_fences": lambda k: "\n".join("K%d::\n```\nx y\n```" % i for i in range(60 * k)),
    "fences_with_tabs": lambda k: "\n".join("K%d::\n```\n" % i + "\t" * 16 + "\n```" for i in range(80 * k)),
    "nested_blocks": lambda k: _fam_nested_blocks(6 * k),      # depth 6..96 (quick) / 6*64 is beyond the cap: thorough caps k at 16
    "long_unterminated_string": lambda k: 'K::"' + "a" * (20000 * k),
    # unterminated quote + long tail of ordinary words after a valid prefix (round-2 seed C20-a); safe to time in-process
    # because hang_probes() has already run the same shape up to 25600 characters in killable children
    "unterminated_quote_tail": lambda k: '===DOC===\nMETA:\n  TYPE::NOTE\nTITLE::"fine"\nNOTE::"' + _TAIL_WORDS_F * (60 * k),
    "unterminated_triple_quote_tail": lambda k: '===DOC===\nTITLE::"""fine"""\nNOTE::"""a "b" ' + _TAIL_WORDS_F * (60 * k),
    "long_meta": lambda k: "META:\n" + "\n".join("  K%d::%d" % (i, i) for i in range(100 * k)),
}
NO_TIMING_BEYOND = {"nested_blocks": 16}
# measured and tabulated, never judged: the quadratic term (lexer.py `content[pos + 1:].lstrip()` per '%') is a memcpy whose
# constant is so small that at these sizes the slope sits on the threshold (0.9 .. 1.3 depending on size) -- judging it would be flaky
INFO_ONLY_FAMILIES = {"many_percent"}
# families whose super-linear growth is a listed finding; attribution = (family, function) -- the family text is generated
# here, so "the input is of the shape that triggers the quadratic loop" is true by construction
TIMING_FINDINGS = {
    ("long_flow_ascii", "tokenize"): "C20-time-repairs-rescan", ("long_flow_ascii", "parse"): "C20-time-repairs-rescan",
    ("fences_with_tabs", "tokenize"): "C20-time-tab-fence-scan", ("fences_with_tabs", "parse"): "C20-time-tab-fence-scan",
    ("many_duplicate_keys", "parse"): "C20-time-duplicate-key-warning",
}


def slope(xs, ys):
    lx, ly = [math.log(x) for x in xs], [math.log(max(y, 1e-9)) for y in ys]
    n = len(lx)
    if n < 3:
        return None
    mx, my = sum(lx) / n, sum(ly) / n
    den = sum((x - mx) ** 2 for x in lx)
    return sum((x - mx) * (y - my) for x, y in zip(lx, ly)) / den if den else None


# --------------------------------------------------------------------------------------------------
# worker side
# --------------------------------------------------------------------------------------------------
class _Hang(BaseException):
    pass


_W = {}


def _alarm(signum, frame):
    raise _Hang()


def _apply_selftest(mode):
    import octave_mcp.core.lexer as lx
    import octave_mcp.core.parser as ps
    if mode == "parser_keyerror":
        orig = ps.parse

        def parse(content):
            if isinstance(content, str) and "true null" in content:
                raise KeyError("selftest")
            return orig(content)
        ps.parse = parse
    elif mode == "hang":
        orig_t = lx.tokenize

        def tokenize(content, lenient=False):
            if "zz" in content:
                while True:
                    time.sleep(3600)
            return orig_t(content, lenient=lenient)
        lx.tokenize = tokenize
        ps.tokenize = tokenize
    elif mode == "tool_raise":
        from octave_mcp.mcp.validate import ValidateTool

        async def execute(self, **kw):
            raise RuntimeError("selftest")
        ValidateTool.execute = execute


def _w_setup():
    """Import the implementation once per process, install the alarm handler, apply self-test patches."""
    if _W.get("ready"):
        return
    import octave_mcp.core.lexer as lx
    import octave_mcp.core.parser as ps
    from octave_mcp.mcp.compile_grammar import CompileGrammarTool
    from octave_mcp.mcp.eject import EjectTool
    from octave_mcp.mcp.validate import ValidateTool
    from octave_mcp.mcp.write import WriteTool
    _W.update(lx=lx, ps=ps, tools={"octave_validate": ValidateTool, "octave_write": WriteTool, "octave_eject": EjectTool,
                                   "octave_compile_grammar": CompileGrammarTool})
    if SELFTEST:
        _apply_selftest(SELFTEST)
    import warnings
    warnings.simplefilter("ignore")      # re.compile FutureWarning etc. on mutated schema text: stderr noise only
    signal.signal(signal.SIGALRM, _alarm)
    sys.setrecursionlimit(1000)          # CPython default; stated in the assumptions
    _W["tmp"] = None
    _W["n"] = 0
    _W["ready"] = True


def _frames(tb):
    out = []
    for fs in traceback.extract_tb(tb):
        if "octave_mcp" in fs.filename:
            out.append([fs.filename.split("octave_mcp/")[-1], fs.name, fs.lineno, (fs.line or "")[:120]])
    return out


def _guarded(fn, *a, **kw):
    """-> ('ret', value) | ('own', exc) | ('foreign', exc, frames) | ('hang',)"""
    lx, ps = _W["lx"], _W["ps"]
    signal.setitimer(signal.ITIMER_REAL, HANG_S)
    try:
        try:
            r = fn(*a, **kw)
        finally:
            signal.setitimer(signal.ITIMER_REAL, 0)
        return ("ret", r)
    except (lx.LexerError, ps.ParserError) as e:
        signal.setitimer(signal.ITIMER_REAL, 0)
        return ("own", e)
    except _Hang:
        return ("hang",)
    except BaseException as e:  # noqa: B036 -- everything else is exactly what the property forbids
        signal.setitimer(signal.ITIMER_REAL, 0)
        if isinstance(e, (KeyboardInterrupt, SystemExit)) and not _W.get("in_call"):
            raise
        return ("foreign", e, _frames(e.__traceback__))


ENTRY = ("tokenize", "parse", "parse_with_warnings", "parse_meta_only")

# --------------------------------------------------------------------------------------------------
# hang probes in KILLABLE child processes (run before everything else)
#   A regex that backtracks exponentially never returns to the interpreter loop: SIGALRM handlers do not run, so the
#   in-worker setitimer guard is blind to it and only the parent's 60 s watchdog would notice -- once per input.
#   Shapes known to provoke catastrophic backtracking in a token pattern are therefore tried first, one forked child
#   per call, killed after PROBE_CAP_S.  Ladders are ascending and a shape is abandoned at its first hang (the failing
#   input is the shortest one found).  If any probe hangs the remaining search is skipped (every generator would run
#   into the same hang, 60 s at a time): the check reports the failing inputs and exits 1.
# --------------------------------------------------------------------------------------------------
PROBE_CAP_S = float(os.environ.get("C20_PROBE_CAP_S", "2"))
_TAIL_WORDS = "closing quote forgotten "
PROBE_TAILS = [12, 16, 20, 24, 28, 32, 40, 60, 80, 120, 200, 1600, 6400, 25600]
PROBE_SHAPES = {
    # unterminated quote + long tail of characters that are neither a quote nor a backslash, up to the end of the text
    "dq-top": lambda t: 'NOTE::"' + t,
    "dq-after-valid-prefix": lambda t: '===DOC===\nMETA:\n  TYPE::NOTE\nTITLE::"fine"\nNOTE::"' + t,
    "dq-in-meta": lambda t: '===D===\nMETA:\n  TYPE::"' + t,
    "dq-in-list": lambda t: 'K::[a,"b",[c,"' + t,
    "dq-in-inline-map": lambda t: 'K::[k::"' + t,
    "dq-tail-spans-lines": lambda t: 'K::"' + t[: len(t) // 2] + "\nM::1\n  " + t[len(t) // 2:] + "\n===END===\n",
    "dq-after-escapes": lambda t: 'K::"a\\n\\"b' + t,
    "dq-unicode-tail": lambda t: 'K::"' + "".join("é中 →x-"[i % 6] for i in range(len(t))),
    "tq-top": lambda t: 'NOTE::"""' + t,
    "tq-after-valid-prefix": lambda t: '===DOC===\nMETA:\n  TYPE::NOTE\nTITLE::"""fine"""\nNOTE::"""' + t,
    "tq-with-inner-quotes": lambda t: 'K::"""a "b" c ' + t,
    "tq-in-list": lambda t: 'K::[a,"""' + t,
    # same idea for the other delimited tokens (cheap; the ladder shows they are linear today)
    "unclosed-angle": lambda t: "K::NAME<" + t.replace(" ", "_"),
    "unclosed-comment-like": lambda t: "K::v //" + t,
    "long-bare-run": lambda t: "K::" + t.replace(" ", "-"),
}
PROBE_FNS = ("tokenize", "parse", "parse_with_warnings", "parse_meta_only")
PROBE_TOOL_LEVELS = (32, 200)          # tails at which the four tools are probed as well


def _probe_child(conn, fn, text):
    try:
        _w_setup()
        signal.setitimer(signal.ITIMER_REAL, 0)
        t0 = time.perf_counter()
        if fn in PROBE_FNS:
            lx, ps = _W["lx"], _W["ps"]
            try:
                _entry(fn)(text)
                out = "returned"
            except (lx.LexerError, ps.ParserError) as e:
                out = "own:" + type(e).__name__
            except BaseException as e:  # noqa
                out = "FOREIGN:" + type(e).__name__
        else:
            import asyncio
            cls = _W["tools"][fn]
            d = tempfile.mkdtemp(prefix="c20p")
            try:
                kw = {"octave_validate": {"content": text, "schema": "META"}, "octave_eject": {"content": text, "schema": "X", "format": "json"},
                      "octave_compile_grammar": {"content": text}, "octave_write": {"target_path": d + "/f.oct.md", "content": text, "lenient": True}}[fn]
                try:
                    r = asyncio.run(cls().execute(**kw))
                    json.dumps(r)
                    out = "envelope" if isinstance(r, dict) and ("status" in r or "validation_status" in r) else "BAD-ENVELOPE"
                except BaseException as e:  # noqa
                    out = "FOREIGN:" + type(e).__name__
            finally:
                shutil.rmtree(d, ignore_errors=True)
        conn.send((out, time.perf_counter() - t0))
    except BaseException as e:  # noqa
        try:
            conn.send(("CHILD-ERROR:" + type(e).__name__, 0.0))
        except Exception:  # noqa
            pass
    finally:
        conn.close()
        os._exit(0)


def probe_batch(items, cap=None):
    """items: [(key, fn, text)] -> {key: (outcome | 'HANG', seconds)}; every call in its own forked child, started in
    groups of 32, each child killed `cap` seconds after its start."""
    import multiprocessing as mp
    cap = PROBE_CAP_S if cap is None else cap
    ctxm = mp.get_context("fork")
    out = {}
    for i in range(0, len(items), 32):
        live = []
        for key, fn, text in items[i:i + 32]:
            a, b = ctxm.Pipe(duplex=False)
            p = ctxm.Process(target=_probe_child, args=(b, fn, text), daemon=True)
            p.start()
            b.close()
            live.append((key, p, a, time.time()))
        for key, p, a, t0 in live:
            left = max(0.0, cap - (time.time() - t0))
            res = None
            if a.poll(left):
                try:
                    res = a.recv()
                except EOFError:
                    res = ("CHILD-DIED", 0.0)
            if res is None:
                res = ("HANG", cap)
            if p.is_alive():
                p.kill()
            p.join(2)
            a.close()
            out[key] = res
    return out


def hang_probes(ctx):
    """-> (failure cases, table).  Ascending ladder per shape; a shape stops at its first hang / foreign exception."""
    fails, table = [], {}
    alive = dict.fromkeys(PROBE_SHAPES, True)
    for n in PROBE_TAILS:
        tail = (_TAIL_WORDS * (n // len(_TAIL_WORDS) + 1))[:n]
        fns = PROBE_FNS + (tuple(_W["tools"]) if n in PROBE_TOOL_LEVELS else ())
        items = [((sh, fn), fn, PROBE_SHAPES[sh](tail)) for sh in PROBE_SHAPES if alive[sh] for fn in fns]
        res = probe_batch(items)
        ctx.count(len(items))
        for (sh, fn), (outc, secs) in res.items():
            table.setdefault(sh, {}).setdefault(fn, []).append([n, outc, round(secs, 4)])
            ctx.hist("hang_probe_outcome", outc.split(":")[0])
            bad = outc == "HANG" or outc.startswith(("FOREIGN", "BAD-ENVELOPE", "CHILD"))
            if bad and alive[sh]:
                alive[sh] = False
                text = PROBE_SHAPES[sh](tail)
                prev = table[sh][fn][:-1]
                if outc == "HANG":
                    q = max(text.rfind('"'), text.rfind("<"), text.rfind("//"))
                    what = ("hang: %s did not return within %g s on a text of %d characters (shape %s, ladder step %d: %d characters follow "
                            "the last opening quote / delimiter up to the end of the text; times at the shorter steps: %s)"
                            % (fn, PROBE_CAP_S, len(text), sh, n, len(text) - q - 1,
                               ", ".join("%d:%.3fs" % (a_, c_) for a_, _, c_ in prev[-4:]) or "none shorter"))
                else:
                    what = "%s on probe shape %s (tail %d): %s" % (fn, sh, n, outc)
                fails.append(({"kind": "hang-probe", "fn": fn, "shape": sh, "tail": n, "text": text, "codepoints": [ord(c) for c in text[:400]],
                               "cap_s": PROBE_CAP_S, "outcome": outc}, what))
    return fails, table


def _entry(name):
    if name == "tokenize":
        return _W["lx"].tokenize
    return getattr(_W["ps"], name)


def _positioned(e):
    """LexerError / ParserError must be *positioned*: LexerError carries int line/column; ParserError carries
    the offending token with int line/column, and an error code."""
    if type(e).__name__ == "LexerError":
        return isinstance(getattr(e, "line", None), int) and isinstance(getattr(e, "column", None), int)
    tok = getattr(e, "token", None)
    return isinstance(getattr(e, "error_code", None), str) and tok is not None and isinstance(getattr(tok, "line", None), int) \
        and isinstance(getattr(tok, "column", None), int)


def _classify_lexparse(text, fn, exc, frames):
    """Precise predicates for the known lexer/parser findings. -> finding id or None."""
    if (isinstance(exc, ValueError) and str(exc).startswith("Exceeds the limit") and frames
            and frames[-1][0] == "core/lexer.py" and frames[-1][1] == "tokenize" and "int(matched_text)" in frames[-1][3]
            and re.search(r"\d{%d,}" % (sys.get_int_max_str_digits() + 1), text)):
        return "C20-lexer-int-digit-limit"
    return None


def lexparse_one(text):
    """Run the four entry points on one text. -> dict(outcomes=[..4], ntok, failures=[...])"""
    outcomes, failures, ntok = [], [], -1
    for name in ENTRY:
        if "HANG" in outcomes:           # one hang per text is enough evidence; do not burn 4 x HANG_S
            outcomes.append("SKIPPED-after-hang")
            continue
        _W["in_call"] = True
        res = _guarded(_entry(name), text)
        _W["in_call"] = False
        if res[0] == "ret":
            outcomes.append("OK")
            if name == "tokenize":
                ntok = len(res[1][0])
        elif res[0] == "own":
            e = res[1]
            outcomes.append(type(e).__name__ + ":" + str(getattr(e, "error_code", "?")))
            if not _positioned(e):
                failures.append({"fn": name, "what": "error without position/code", "exc": type(e).__name__, "finding": None})
        elif res[0] == "hang":
            outcomes.append("HANG")
            failures.append({"fn": name, "what": f"hang: {name} did not return within {HANG_S:g} s", "exc": "hang", "finding": None})
        else:
            e, fr = res[1], res[2]
            outcomes.append("FOREIGN:" + type(e).__name__)
            failures.append({"fn": name, "what": f"foreign exception: {name} raised {type(e).__name__}", "exc": type(e).__name__,
                             "msg": str(e)[:200], "frames": fr[-4:], "finding": _classify_lexparse(text, name, e, fr)})
    return {"outcomes": outcomes, "ntok": ntok, "failures": failures}


def _len_bucket(n):
    for b in (0, 1, 4, 16, 64, 256, 1024, 4096, 16384, 65536):
        if n <= b:
            return "<=%d" % b
    return ">65536"


def job_lexparse(payload, progress):
    """payload: {'kind':..., 'texts':[...]} or {'kind':'seq','length':L,'lo':a,'hi':b}"""
    _w_setup()
    kind = payload["kind"]
    texts = payload["texts"] if "texts" in payload else seq_texts(payload["length"], payload["lo"], payload["hi"])
    start = payload.get("start", 0)
    hist, fails, flags, n = Counter(), [], bytearray(), 0
    for i, t in enumerate(texts):
        if i < start:
            continue
        progress(i)
        r = lexparse_one(t)
        n += 1
        for name, o in zip(ENTRY, r["outcomes"]):
            hist[(name, o)] += 1
        hist[("len", _len_bucket(len(t)))] += 1
        nontriv = r["ntok"] >= 3 or r["outcomes"][0] != "OK" or r["outcomes"][1] != "OK"   # >=2 tokens besides EOF, or an error
        flags.append(1 if nontriv else 0)
        for f in r["failures"]:
            if len(fails) < 40 or f["finding"] is None:
                f = dict(f)
                f["text"] = t
                fails.append(f)
    return {"n": n, "hist": dict(hist), "fails": fails[:200], "flags": bytes(flags), "kind": kind}


def job_lexcorr(payload, progress):
    _w_setup()
    progress(0)
    out = []
    n = 0
    for lenient in payload["lenient"]:
        bad, k = lexcorr.compare(payload["texts"], lenient=lenient)
        n += k
        out += [{"text": t, "lenient": lenient, "impl": i[:300], "model": m[:300]} for t, i, m in bad[:10]]
    return {"n": n, "bad": out}


# ---- tools ---------------------------------------------------------------------------------------
def _try_sites(cls):
    """Line ranges of every try body inside cls.execute (absolute line numbers) with their handler types."""
    import ast
    import inspect
    import textwrap
    key = ("sites", cls.__name__)
    if key in _W:
        return _W[key]
    try:
        src, first = inspect.getsourcelines(cls.execute)
        tree = ast.parse(textwrap.dedent("".join(src)))
        sites = []
        for node in ast.walk(tree):
            if isinstance(node, ast.Try):
                lo = node.body[0].lineno + first - 1
                hi = max(getattr(b, "end_lineno", b.lineno) for b in node.body) + first - 1
                hs = [ast.unparse(h.type) if h.type is not None else "bare" for h in node.handlers]
                sites.append((lo, hi, hs))
    except Exception:  # noqa
        sites = []
    _W[key] = sites
    return sites


def _escape_site(cls, frames):
    for fr in frames:
        if fr[1] == "execute" and fr[0].startswith("mcp/"):
            inside = [hs for lo, hi, hs in _try_sites(cls) if lo <= fr[2] <= hi]
            return {"file": fr[0], "line": fr[2], "code": fr[3], "inside_try": bool(inside), "handlers": inside}
    return None


def _classify_tool(tool, args, exc, frames, setup=None):
    """Precise predicates for the known tool findings. -> finding id or None."""
    ps = _W["ps"]
    content = args.get("content")
    site = None
    for fr in frames:
        if fr[1] == "execute" and fr[0].startswith("mcp/"):
            site = fr
    try:
        # (no clause for octave_eject(format=json): C20-eject-json-holographic / -nested-meta were repaired by 88905cd)
        # (no clause for compile_gbnf_from_meta with a non-string META.TYPE: repaired by 61337a1)
        # Path.exists() outside any try: ENAMETOOLONG is not one of the errnos pathlib swallows
        pth = args.get("target_path") if tool == "octave_write" else args.get("file_path")
        if tool in ("octave_write", "octave_validate") and isinstance(exc, OSError) and exc.errno == 36 and site is not None \
                and ".exists()" in site[3] and isinstance(pth, str) \
                and (any(len(os.fsencode(c)) > 255 for c in pth.split("/")) or len(os.fsencode(pth)) >= 4096):
            return "C20-path-name-too-long"
        # octave_write re-parses the EXISTING file under `except (LexerError, ParserError)` only
        existing = (setup or {}).get("existing")
        if tool == "octave_write" and isinstance(existing, str) and site is not None and "baseline_content_for_diff" in site[3] \
                and ("parse(" in site[3] or "parse_with_warnings(" in site[3]) and "changes" not in args:
            if _classify_lexparse(existing, "parse", exc, frames) == "C20-lexer-int-digit-limit":
                return "C20-write-baseline-foreign-exception"
    except Exception:  # noqa
        return None
    return None


def _prep_args(args, setup):
    """Materialise $TMP paths and the optional pre-existing file. Returns (args, cleanup_paths)."""
    if _W["tmp"] is None:
        _W["tmp"] = tempfile.mkdtemp(prefix="c20w")
    _W["n"] += 1
    d = os.path.join(_W["tmp"], "c%d" % _W["n"])
    os.mkdir(d)
    out = {}
    for k, v in args.items():
        out[k] = v.replace("$TMP", d) if isinstance(v, str) and k in ("target_path", "file_path") else v
    if setup and setup.get("existing") is not None:
        p = (out.get("target_path") or out.get("file_path"))
        with open(p, "w", encoding="utf-8", newline="") as f:
            f.write(setup["existing"])
        if setup.get("hash") == "good":
            import hashlib
            out["base_hash"] = hashlib.sha256(setup["existing"].encode("utf-8")).hexdigest()
    return out, d


def tool_one(tool, args, setup=None):
    """-> dict(outcome, failure|None).  The call is exactly asyncio.run(Tool().execute(**args)) followed by
    json.dumps(result, indent=2) as in mcp/server.py:handle_call_tool."""
    import asyncio
    cls = _W["tools"][tool]
    hkey = (tool, args.get("content"), (setup or {}).get("existing"))
    if hkey in _W.setdefault("hung", set()):      # this (tool, content) already hung in this process: do not wait again
        return {"outcome": "SKIPPED-after-hang", "failure": None}
    real, d = _prep_args(args, setup)
    try:
        if setup and setup.get("first") is not None:
            # TWO-STEP SEQUENCE on one path: `first` is an ordinary earlier call of the same tool on the same target
            # (it creates the state on disk the second call meets).  It is subject to the property like any call.
            first = {k: (v.replace("$TMP", d) if isinstance(v, str) and k in ("target_path", "file_path") else v)
                     for k, v in setup["first"].items()}
            _W["in_call"] = True
            r1 = _guarded(lambda: asyncio.run(cls().execute(**first)))
            _W["in_call"] = False
            if r1[0] == "hang":
                return {"outcome": "HANG(first call)", "failure": {"what": f"hang: first call of a two-step {tool} sequence did not return within {HANG_S:g} s",
                                                                    "exc": "hang", "finding": None}}
            if r1[0] in ("own", "foreign"):
                e = r1[1]
                fr = r1[2] if r1[0] == "foreign" else _frames(e.__traceback__)
                return {"outcome": "RAISED(first call):" + type(e).__name__,
                        "failure": {"what": f"{tool} raised {type(e).__name__} (first call of a two-step sequence)", "exc": type(e).__name__,
                                    "msg": str(e)[:200], "mro": [c.__name__ for c in type(e).__mro__], "frames": fr[-5:],
                                    "escape_site": _escape_site(cls, fr), "finding": _classify_tool(tool, first, e, fr, None)}}
            e1 = r1[1]
            if not isinstance(e1, dict) or not ("status" in e1 or "validation_status" in e1):
                return {"outcome": "BAD-ENVELOPE(first call)", "failure": {"what": f"{tool} (first call of a sequence) returned no status envelope",
                                                                          "got": repr(e1)[:200], "finding": None}}
            try:
                json.dumps(e1, indent=2)
            except BaseException as e:  # noqa
                return {"outcome": "NOT-JSON(first call)", "failure": {"what": f"{tool} envelope of the first call is not JSON-serialisable", "msg": str(e)[:200],
                                                                      "finding": None}}
            if setup.get("hash") == "good" and os.path.exists(first.get("target_path", "")):
                import hashlib
                with open(first["target_path"], "rb") as fh:
                    real["base_hash"] = hashlib.sha256(fh.read()).hexdigest()
        _W["in_call"] = True
        res = _guarded(lambda: asyncio.run(cls().execute(**real)))
        _W["in_call"] = False
        if res[0] == "hang":
            _W["hung"].add(hkey)
            return {"outcome": "HANG", "failure": {"what": f"hang: {tool} did not return within {HANG_S:g} s", "exc": "hang", "finding": None}}
        if res[0] in ("own", "foreign"):
            e = res[1]
            fr = res[2] if res[0] == "foreign" else _frames(e.__traceback__)
            fid = _classify_tool(tool, args, e, fr, setup)
            return {"outcome": "RAISED:" + type(e).__name__,
                    "failure": {"what": f"{tool} raised {type(e).__name__}", "exc": type(e).__name__, "msg": str(e)[:200],
                                "mro": [c.__name__ for c in type(e).__mro__],
                                "frames": fr[-5:], "escape_site": _escape_site(cls, fr), "finding": fid}}
        r = res[1]
        if not isinstance(r, dict) or not ("status" in r or "validation_status" in r):
            return {"outcome": "BAD-ENVELOPE", "failure": {"what": f"{tool} returned no status/validation_status envelope",
                                                           "got": repr(r)[:200], "finding": None}}
        try:
            json.dumps(r, indent=2)
        except BaseException as e:  # noqa
            path = _unserialisable_path(r)
            return {"outcome": "NOT-JSON:" + type(e).__name__,
                    "failure": {"what": f"{tool} envelope is not JSON-serialisable ({type(e).__name__})", "msg": str(e)[:200],
                                "where": path, "finding": None}}
        return {"outcome": "OK:%s/%s" % (r.get("status", "-"), r.get("validation_status", "-")), "failure": None}
    finally:
        _W["in_call"] = False
        shutil.rmtree(d, ignore_errors=True)


def _unserialisable_path(obj, path="$", depth=0):
    if depth > 12:
        return path
    if isinstance(obj, dict):
        for k, v in obj.items():
            if not isinstance(k, (str, int, float, bool, type(None))):
                return path + ".<key %r>" % (k,)
            p = _unserialisable_path(v, f"{path}.{k}", depth + 1)
            if p:
                return p
        return None
    if isinstance(obj, (list, tuple)):
        for i, v in enumerate(obj):
            p = _unserialisable_path(v, f"{path}[{i}]", depth + 1)
            if p:
                return p
        return None
    if isinstance(obj, (str, int, float, bool, type(None))):
        return None
    return f"{path} : {type(obj).__name__}"


def _flag_key(tool, args):
    parts = []
    for k in sorted(args):
        if k in ("content", "target_path", "file_path", "base_hash"):
            continue
        v = args[k]
        if isinstance(v, dict):
            v = "obj"
        parts.append(f"{k}={v}")
    return tool.replace("octave_", "") + "(" + ",".join(parts) + ")"


def job_tools(payload, progress):
    _w_setup()
    hist, fails, n = Counter(), [], 0
    for i, (tool, args, setup) in enumerate(payload["calls"]):
        if i < payload.get("start", 0):
            continue
        progress(i)
        r = tool_one(tool, args, setup)
        n += 1
        hist[("tool_outcome", tool.replace("octave_", "") + ":" + r["outcome"])] += 1
        hist[("tool_flags", _flag_key(tool, args) + (" <-second call after a first write" if (setup or {}).get("first") else ""))] += 1
        if r["failure"] is not None and (len(fails) < 60 or r["failure"].get("finding") is None):
            f = dict(r["failure"])
            f.update(tool=tool, args=args, setup=setup)
            fails.append(f)
    if _W.get("tmp"):
        shutil.rmtree(_W["tmp"], ignore_errors=True)
        _W["tmp"] = None
    return {"n": n, "hist": dict(hist), "fails": fails[:300]}


def job_timing(payload, progress):
    """min-of-3 wall time of tokenize and parse for one family over the scale factors."""
    _w_setup()
    fam = FAMILIES[payload["family"]]
    rows = []
    stop = {"tokenize": False, "parse": False}
    for j, k in enumerate(payload["scales"]):
        text = fam(k)
        row = {"scale": k, "len": len(text)}
        for name in ("tokenize", "parse"):
            if stop[name]:
                continue
            best, outc = None, None
            for rep in range(3):
                if best is not None and best > 1.5:      # noise is irrelevant at this size: do not repeat
                    break
                progress(j * 10 + rep)
                fn = _entry(name)
                lx, ps = _W["lx"], _W["ps"]
                t0 = time.perf_counter()
                try:
                    fn(text)
                    outc = "OK"
                except (lx.LexerError, ps.ParserError) as e:
                    outc = type(e).__name__ + ":" + e.error_code
                except BaseException as e:  # noqa
                    outc = "FOREIGN:" + type(e).__name__
                dt = time.perf_counter() - t0
                best = dt if best is None else min(best, dt)
                if dt > payload.get("cap_s", 20):
                    stop[name] = True
                    break
            row[name] = best
            row[name + "_outcome"] = outc
        rows.append(row)
    return {"family": payload["family"], "rows": rows}


def job_depth(payload, progress):
    """Deep brackets / deep indentation probes: outcome of the four entry points, never a foreign exception
    inside the cap."""
    _w_setup()
    out = []
    for i, (shape, depth) in enumerate(payload["probes"]):
        progress(i)
        text = ("K::" + "[" * depth + "1" + "]" * depth) if shape == "brackets" else _fam_nested_blocks(depth)
        r = lexparse_one(text)
        out.append({"shape": shape, "depth": depth, "outcomes": r["outcomes"], "failures": r["failures"]})
    return {"probes": out}


JOBS = {"lexparse": job_lexparse, "lexcorr": job_lexcorr, "tools": job_tools, "timing": job_timing, "depth": job_depth}


# --------------------------------------------------------------------------------------------------
# process farm with a watchdog (C-level hangs and interpreter crashes are attributed to one item)
# --------------------------------------------------------------------------------------------------
def _worker_main(conn, cell):
    signal.signal(signal.SIGINT, signal.SIG_IGN)

    def progress(i):
        cell[0] = i
        cell[1] += 1
    _W["tmp"], _W["n"] = None, 0      # never share the parent's scratch directory
    try:
        _w_setup()
    except BaseException as e:  # noqa
        conn.send(("fatal", "worker setup failed: %s: %s" % (type(e).__name__, e)))
        return
    while True:
        try:
            msg = conn.recv()
        except EOFError:
            return
        if msg is None:
            return
        jid, kind, payload = msg
        try:
            res = JOBS[kind](payload, progress)
            conn.send((jid, "ok", res))
        except BaseException as e:  # noqa  -- harness error inside the worker: reported, never swallowed
            conn.send((jid, "err", "%s: %s\n%s" % (type(e).__name__, e, traceback.format_exc()[-1500:])))


class Farm:
    def __init__(self, n, watchdog_s):
        import multiprocessing as mp
        self.mp = mp.get_context("fork")
        self.n = n
        self.watchdog_s = watchdog_s
        self.workers = [None] * n
        self.incidents = []     # (kind, payload, item_index, what)
        self.errors = []
        for i in range(n):
            self._spawn(i)

    def _spawn(self, i):
        from multiprocessing.sharedctypes import RawArray
        parent, child = self.mp.Pipe()
        cell = RawArray("q", 2)
        p = self.mp.Process(target=_worker_main, args=(child, cell), daemon=True)
        p.start()
        child.close()
        self.workers[i] = {"p": p, "conn": parent, "cell": cell, "job": None, "seen": 0, "t": time.time()}

    def run(self, jobs, on_result, max_active=None):
        """jobs: list of (kind, payload); on_result(kind, payload, result). Restartable items use payload['start']."""
        max_active = max_active or self.n
        from multiprocessing.connection import wait
        queue = list(enumerate(jobs))[::-1]
        active = 0
        while queue or active:
            for w in self.workers:
                if w["job"] is None and queue and active < max_active:
                    jid, (kind, payload) = queue.pop()
                    w["job"] = (jid, kind, payload)
                    w["seen"], w["t"] = w["cell"][1], time.time()
                    w["conn"].send((jid, kind, payload))
                    active += 1
            ready = wait([w["conn"] for w in self.workers if w["job"] is not None], timeout=0.5)
            now = time.time()
            for i, w in enumerate(self.workers):
                if w["job"] is None:
                    continue
                jid, kind, payload = w["job"]
                if w["conn"] in ready:
                    try:
                        msg = w["conn"].recv()
                    except (EOFError, OSError):
                        msg = None
                    if msg is not None:
                        if msg[0] == "fatal":
                            raise RuntimeError(msg[1])
                        _, st, res = msg
                        if st == "ok":
                            on_result(kind, payload, res)
                        else:
                            self.errors.append(res)
                        w["job"] = None
                        active -= 1
                        continue
                dead = not w["p"].is_alive()
                if w["cell"][1] != w["seen"]:
                    w["seen"], w["t"] = w["cell"][1], now
                stuck = now - w["t"] > self.watchdog_s
                if dead or stuck:
                    item = int(w["cell"][0])
                    what = ("interpreter crash (exit code %s)" % w["p"].exitcode) if dead else \
                        ("hang: no progress for %g s (not interruptible by the in-process timer)" % self.watchdog_s)
                    self.incidents.append((kind, payload, item, what))
                    try:
                        w["p"].kill()
                        w["p"].join(5)
                    except Exception:  # noqa
                        pass
                    w["conn"].close()
                    self._spawn(i)
                    active -= 1
                    if kind in ("lexparse", "tools"):     # resume after the culprit
                        p2 = dict(payload)
                        p2["start"] = item + 1
                        queue.append((jid, (kind, p2)))
        return

    def close(self):
        for w in self.workers:
            try:
                w["conn"].send(None)
            except Exception:  # noqa
                pass
        for w in self.workers:
            w["p"].join(2)
            if w["p"].is_alive():
                w["p"].kill()


# --------------------------------------------------------------------------------------------------
# tool call construction
# --------------------------------------------------------------------------------------------------
SCHEMAS = ["META", "NO_SUCH_SCHEMA", "SKILL", "TEST_HOLOGRAPHIC", "DEBATE_TRANSCRIPT", "../x"]
PROFILES = ["STRICT", "STANDARD", "LENIENT", "ULTRA"]
MODES = ["canonical", "authoring", "executive", "developer"]
FORMATS = ["octave", "json", "yaml", "markdown", "gbnf"]
MUTATIONS = [None, {"STATUS": "ACTIVE", "L": ["a", 1, None, True, {"k": "v"}], "D": {"$op": "DELETE"}, "N": None, "F": 1.5},
             {"TYPE": {"$op": "DELETE"}, "CONTRACT": ["FIELD[A]::REQ"]}]
CHANGES = [{"K": "new", "META.STATUS": "ACTIVE", "L": [1, [2, "x y"], {"a": None}], "GONE": {"$op": "DELETE"}, "N": None},
           {"META": {"TYPE": "T2", "VERSION": {"$op": "DELETE"}}, "STATUS": {"$op": "DELETE"}},
           {"META": {"$op": "DELETE"}}, {}]
EXISTING = '===D===\nMETA:\n  TYPE::"T"\n  VERSION::"1.0"\n  STATUS::DRAFT\nSTATUS::x\nK::old\n===END===\n'


def validate_full(content):
    for schema, fix, profile, diff_only, compact, dbg, hint in itertools.product(
            SCHEMAS[:5], (False, True), PROFILES, (False, True), (False, True), (False, True), (False, True)):
        yield ("octave_validate", {"content": content, "schema": schema, "fix": fix, "profile": profile, "diff_only": diff_only,
                                   "compact": compact, "debug_grammar": dbg, "grammar_hint": hint}, None)


def eject_full(content):
    for mode, fmt in itertools.product(MODES, FORMATS):
        yield ("octave_eject", {"content": content, "schema": "X", "mode": mode, "format": fmt}, None)


def compile_full(content):
    for fmt in ("gbnf", "json_schema"):
        yield ("octave_compile_grammar", {"content": content, "format": fmt}, None)


def write_full(content, every=1):
    i = 0
    for lenient, dry, policy, schema, mut, dbg, hint in itertools.product(
            (False, True), (False, True), ("error", "salvage"), (None, "META", "SKILL", "TEST_HOLOGRAPHIC", "NO_SUCH_SCHEMA"),
            range(len(MUTATIONS)), (False, True), (False, True)):
        i += 1
        if i % every:
            continue
        a = {"target_path": "$TMP/f.oct.md", "content": content, "lenient": lenient, "corrections_only": dry,
             "parse_error_policy": policy, "debug_grammar": dbg, "grammar_hint": hint}
        if schema is not None:
            a["schema"] = schema
        if MUTATIONS[mut] is not None:
            a["mutations"] = MUTATIONS[mut]
        setup = {"existing": EXISTING} if (i // every) % 3 == 0 else None
        yield ("octave_write", a, setup)


def write_other_modes(existing):
    """changes mode and normalize mode on an existing file whose content is `existing`."""
    for ch in CHANGES:
        for mut in MUTATIONS:
            for schema in (None, "META", "TEST_HOLOGRAPHIC"):
                for lenient, dry in ((False, False), (True, True)):
                    a = {"target_path": "$TMP/f.oct.md", "changes": ch, "lenient": lenient, "corrections_only": dry}
                    if mut is not None:
                        a["mutations"] = mut
                    if schema:
                        a["schema"] = schema
                    yield ("octave_write", a, {"existing": existing, "hash": "good" if dry else None})
    for schema in (None, "META", "SKILL"):
        for lenient, dry, policy in itertools.product((False, True), (False, True), ("error", "salvage")):
            a = {"target_path": "$TMP/f.oct.md", "lenient": lenient, "corrections_only": dry, "parse_error_policy": policy}
            if schema:
                a["schema"] = schema
            yield ("octave_write", a, {"existing": existing})
    yield ("octave_validate", {"file_path": "$TMP/f.oct.md", "schema": "META"}, {"existing": existing})


# two-step write sequences over one path (round-2 seed C20-b: W_STRUCT_001 sorts lost section markers with int() -- a
# NAMED marker that disappears in the second write raises ValueError out of execute()).  First documents use numbered,
# multi-digit, suffixed and named markers; second contents keep / drop / rename / reorder / flatten them.
SEQ_FIRST = [
    "===DOC===\nMETA:\n  TYPE::NOTE\n\u00a71::ONE\n  A::1\n\u00a72::TWO\n  B::2\n\u00a710::TEN\n  C::3\n===END===\n",
    "===DOC===\nMETA:\n  TYPE::NOTE\n\u00a72::TWO\n  A::1\n\u00a72b::TWO_B\n  B::2\n===END===\n",
    "===DOC===\nMETA:\n  TYPE::NOTE\n\u00a71::ONE\n  A::1\n\u00a7CONTEXT::LOCAL\n  B::2\n===END===\n",
    "===DOC===\nMETA:\n  TYPE::NOTE\n\u00a7DEFINITIONS::\n  A::1\n\u00a7CONTEXT::\n  B::2\n===END===\n",
    "===DOC===\n\u00a71::A\n  \u00a71b::INNER[note]\n    X::1\n\u00a7CTX_2::N[a,b]\n  Y::[a,b]\n\u00a7_x::Z\n  W::\n```\nraw\n```\n===END===\n",
    "\u00a7A::ONE\n  K::1\n\u00a7B::TWO\n  K::2\n\u00a73::THREE\n  K::3\n",
]
SEQ_SECOND = [
    "===DOC===\nMETA:\n  TYPE::NOTE\nA::1\nB::2\nC::3\n===END===\n",                                                  # all markers gone
    "===DOC===\nMETA:\n  TYPE::NOTE\n\u00a71::ONE\n  A::1\n===END===\n",                                               # only \u00a71 kept
    "===DOC===\nMETA:\n  TYPE::NOTE\n\u00a7CONTEXT::LOCAL\n  B::2\n\u00a71::ONE\n  A::1\n===END===\n",                 # reordered
    "===DOC===\nMETA:\n  TYPE::NOTE\n\u00a7RENAMED::LOCAL\n  B::2\n\u00a77::SEVEN\n  A::1\n\u00a72c::X\n  C::1\n===END===\n",   # renamed
    "K::v",                                                                                                           # no envelope, nothing kept
    "===DOC===\nA::[unclosed\n===END===\n",                                                                          # unparseable second content
]


def write_sequences(every=1):
    """first write (plain content mode) then a second call on the SAME path: content mode with every flag combination,
    changes mode, normalize mode; the second call sees the file the first one left."""
    i = 0
    for first in SEQ_FIRST:
        f_args = {"target_path": "$TMP/f.oct.md", "content": first}
        for second, lenient, dry, policy, schema, mut in itertools.product(
                SEQ_SECOND, (False, True), (False, True), ("error", "salvage"), (None, "META", "NO_SUCH_SCHEMA"), (None, MUTATIONS[1])):
            i += 1
            if i % every:
                continue
            a = {"target_path": "$TMP/f.oct.md", "content": second, "lenient": lenient, "corrections_only": dry, "parse_error_policy": policy}
            if schema is not None:
                a["schema"] = schema
            if mut is not None:
                a["mutations"] = mut
            yield ("octave_write", a, {"first": f_args, "hash": "good" if (i // every) % 4 == 0 else None})
        for ch in CHANGES:
            for dry in (False, True):
                yield ("octave_write", {"target_path": "$TMP/f.oct.md", "changes": ch, "corrections_only": dry}, {"first": f_args})
        for lenient, dry, policy in itertools.product((False, True), (False, True), ("error", "salvage")):
            yield ("octave_write", {"target_path": "$TMP/f.oct.md", "lenient": lenient, "corrections_only": dry, "parse_error_policy": policy},
                   {"first": f_args})
        yield ("octave_validate", {"file_path": "$TMP/f.oct.md", "schema": "META"}, {"existing": first})


def fixed_calls():
    """Calls whose behaviour does not depend on a content argument (still part of 'every flag')."""
    for schema in SCHEMAS + ["latest", "frozen@1.0.0", ""]:
        for fmt in ("gbnf", "json_schema", "bogus"):
            yield ("octave_compile_grammar", {"schema": schema, "format": fmt}, None)
        for mode, fmt in itertools.product(MODES, FORMATS):
            yield ("octave_eject", {"schema": schema, "mode": mode, "format": fmt}, None)          # content None -> template
            yield ("octave_eject", {"content": None, "schema": schema, "mode": mode, "format": fmt}, None)
    yield ("octave_compile_grammar", {}, None)
    yield ("octave_compile_grammar", {"schema": "META", "content": "K::v"}, None)
    yield ("octave_validate", {"schema": "META"}, None)
    yield ("octave_validate", {"schema": "META", "content": "K::v", "file_path": "$TMP/f.oct.md"}, None)
    yield ("octave_validate", {"schema": "META", "file_path": "$TMP/missing.oct.md"}, None)
    yield ("octave_validate", {"schema": "META", "file_path": "$TMP/f.txt"}, None)
    yield ("octave_validate", {"schema": "META", "content": "K::v", "profile": "standard"}, None)
    yield ("octave_write", {"target_path": "$TMP/f.oct.md"}, None)
    yield ("octave_write", {"target_path": "$TMP/" + "a" * 300 + ".oct.md", "content": "K::v"}, None)
    yield ("octave_validate", {"file_path": "$TMP/" + "a" * 300 + ".oct.md", "schema": "META"}, None)
    yield ("octave_write", {"target_path": "$TMP/a\x00b.oct.md", "content": "K::v"}, None)
    yield ("octave_validate", {"file_path": "$TMP/a\x00b.oct.md", "schema": "META"}, None)
    yield ("octave_write", {"target_path": "", "content": "K::v"}, None)
    yield ("octave_write", {"target_path": "$TMP", "content": "K::v"}, None)
    yield ("octave_write", {"target_path": "$TMP/f.oct.md", "changes": {"K": 1}}, None)
    yield ("octave_write", {"target_path": "$TMP/f.oct.md", "changes": {"K": 1}, "content": "K::v"}, None)
    yield ("octave_write", {"target_path": "$TMP/f.txt", "content": "K::v"}, None)
    yield ("octave_write", {"target_path": "$TMP/../f.oct.md", "content": "K::v"}, None)
    yield ("octave_write", {"target_path": "$TMP/sub/dir/f.oct.md", "content": "K::v", "schema": "latest"}, None)
    yield ("octave_write", {"target_path": "$TMP/f.oct.md", "content": "K::v", "schema": "frozen@1.0.0"}, None)
    yield ("octave_write", {"target_path": "$TMP/f.oct.md", "content": "K::v", "base_hash": "00"}, {"existing": EXISTING})
    yield ("octave_write", {"target_path": "$TMP/f.oct.md", "content": "K::v"}, {"existing": EXISTING, "hash": "good"})


def random_calls(rng, content):
    """A handful of random flag combinations for one content string (all four tools)."""
    b = lambda: rng.random() < 0.5  # noqa: E731
    yield ("octave_validate", {"content": content, "schema": rng.choice(SCHEMAS), "fix": b(), "profile": rng.choice(PROFILES),
                               "diff_only": b(), "compact": b(), "debug_grammar": b(), "grammar_hint": b()}, None)
    yield ("octave_eject", {"content": content, "schema": rng.choice(SCHEMAS), "mode": rng.choice(MODES), "format": rng.choice(FORMATS)}, None)
    yield ("octave_eject", {"content": content, "schema": "X", "mode": rng.choice(MODES), "format": rng.choice(("json", "yaml", "gbnf"))}, None)
    yield ("octave_compile_grammar", {"content": content, "format": rng.choice(("gbnf", "json_schema"))}, None)
    a = {"target_path": "$TMP/f.oct.md", "content": content, "lenient": b(), "corrections_only": b(),
         "parse_error_policy": rng.choice(("error", "salvage")), "debug_grammar": b(), "grammar_hint": b()}
    if b():
        a["schema"] = rng.choice(SCHEMAS)
    if b():
        a["mutations"] = rng.choice(MUTATIONS[1:])
    yield ("octave_write", a, {"existing": EXISTING} if rng.random() < 0.3 else None)
    a2 = {"target_path": "$TMP/f.oct.md", "content": content, "lenient": True, "parse_error_policy": "salvage", "corrections_only": True}
    yield ("octave_write", a2, None)
    if rng.random() < 0.35:
        if b():
            a3 = {"target_path": "$TMP/f.oct.md", "changes": rng.choice(CHANGES), "corrections_only": b()}
            if b():
                a3["mutations"] = rng.choice(MUTATIONS[1:])
        else:
            a3 = {"target_path": "$TMP/f.oct.md", "lenient": b(), "parse_error_policy": rng.choice(("error", "salvage")), "corrections_only": b()}
        if b():
            a3["schema"] = rng.choice(SCHEMAS)
        yield ("octave_write", a3, {"existing": content})
    if rng.random() < 0.15:
        # two-step sequence: `content` is written first, then other content replaces it on the same path
        a4 = {"target_path": "$TMP/f.oct.md", "content": rng.choice(SEQ_SECOND + SEQ_FIRST), "lenient": b(), "corrections_only": b(),
              "parse_error_policy": rng.choice(("error", "salvage"))}
        yield ("octave_write", a4, {"first": {"target_path": "$TMP/f.oct.md", "content": content, "lenient": True, "parse_error_policy": "salvage"}})


# --------------------------------------------------------------------------------------------------
# extracted exception-flow / loop model (driver `flow`, Tools/ExnFlow.v): queried once per run
# --------------------------------------------------------------------------------------------------
FLOW_TOOLS = ("validate", "write", "eject", "compile_grammar")


def flow_query():
    """-> dict of decoded tables, or None when the driver is missing/stale (answers `!badcmd`)."""
    from lib.model import dec_str, enc_str, run_driver
    cmds = ["loops", "maxnest", "consuming", "total", "raising", "benign", "known"] + \
        ["escapes " + enc_str(t) for t in FLOW_TOOLS] + ["sites " + enc_str(t) for t in FLOW_TOOLS]
    out = dict(zip(cmds, run_driver("flow", cmds)))
    if any(v.startswith("!") for v in out.values()):
        return {"stale": sorted(k for k, v in out.items() if v.startswith("!"))}

    def items(v):
        return [x for x in v.split(";") if x] if v and v != "NONE" else []

    def names(v):
        return [] if v in ("~", "") else [dec_str(x) for x in v.split(",")]
    m = {"stale": []}
    m["loops"] = []
    for it in items(out["loops"]):
        lid, line, meth, abc = it.split(":")
        # `id` (method#ordinal-within-method) is the key; `line` is the source line at translation time, diagnostic only
        m["loops"].append({"id": dec_str(lid), "line": int(line), "method": dec_str(meth), "consumes": abc[0] == "1",
                           "ok_contract": abc[1] == "1", "ok_no_assumption": abc[2] == "1", "exempted": abc[3] == "1"})
    m["maxnest"] = int(out["maxnest"])
    m["consuming"] = [dec_str(x) for x in items(out["consuming"])]
    m["total"] = [dec_str(x) for x in items(out["total"])]
    m["raising"] = {dec_str(a): names(b) for a, b in (it.split("=") for it in items(out["raising"]))}
    m["benign"] = [(dec_str(a), dec_str(b), int(c)) for a, b, c in (it.split("/") for it in items(out["benign"]))]
    m["known"] = [(dec_str(a), dec_str(b), int(c), dec_str(d)) for a, b, c, d in (it.split("/") for it in items(out["known"]))]
    m["escapes"], m["sites"] = {}, {}
    for t in FLOW_TOOLS:
        m["escapes"][t] = [(dec_str(a), int(b), dec_str(c)) for a, b, c in (it.split("/") for it in items(out["escapes " + enc_str(t)]))]
        sites = []
        for it in items(out["sites " + enc_str(t)]):
            line, callee, ordn, may, unc = it.split(":")
            sites.append({"line": int(line), "callee": dec_str(callee), "ord": int(ordn), "may": names(may), "unc": names(unc)})
        m["sites"][t] = sites
    return m


def site_file(f):
    return (f.get("escape_site") or {}).get("file")


def flow_predicts(model, tool, line, mro):
    """Does the model say an exception of this class (or a base class, or Exception) may escape at this line of execute()?"""
    want = set(mro) | {"Exception"} if "Exception" in mro else set(mro)
    hits = [s for s in model["sites"].get(tool, []) if s["line"] == line]
    for s_ in hits:
        if want & set(s_["unc"]):
            return True, s_["callee"]
    return False, ",".join(sorted({h["callee"] for h in hits})) or "?"


# --------------------------------------------------------------------------------------------------
# replay of a single case (corpus, finding witness, ./check --replay)
# --------------------------------------------------------------------------------------------------
def run_case(case):
    """-> (fails: bool, what: str, finding_or_None, detail)"""
    _w_setup()
    kind = case.get("kind")
    if kind == "tool":
        r = tool_one(case["tool"], case["args"], case.get("setup"))
        f = r["failure"]
        return (f is not None, (f or {}).get("what", r["outcome"]), (f or {}).get("finding"), f or r["outcome"])
    if kind == "hang-probe":
        res = probe_batch([("k", case["fn"], case["text"])], cap=float(case.get("cap_s", PROBE_CAP_S)))["k"]
        bad = res[0] == "HANG" or res[0].startswith(("FOREIGN", "BAD-ENVELOPE", "CHILD"))
        return (bad, "%s on the recorded probe text: %s after %.3f s" % (case["fn"], res[0], res[1]), None, list(res))
    if kind == "tool-regression":
        bad = regression_tool(case)
        return (bool(bad), bad[0]["what"] if bad else "regression passes", None, bad or "ok")
    if kind == "timing":
        sl = measure_family_inproc(case["family"], case.get("scales", [1, 2, 4, 8, 16]))
        bad = {k: sl[k] for k in ("tokenize", "parse") if superlinear(sl, k)}
        fids = {TIMING_FINDINGS.get((case["family"], k)) for k in bad}
        return (bool(bad), "timing slope %s" % sl, fids.pop() if len(fids) == 1 else None, sl)
    text = case["text"] if "text" in case else "".join(chr(c) for c in case["codepoints"])
    r = lexparse_one(text)
    if r["failures"]:
        f = r["failures"][0]
        return (True, f["what"], f.get("finding"), r["failures"])
    return (False, "outcomes " + ",".join(r["outcomes"]), None, r["outcomes"])


def regression_tool(case):
    """Witness of a REPAIRED octave_eject finding: all modes x all formats must return a serialisable envelope; in the
    whole-document modes the json view parses and holds `expect_string_leaf`, the yaml view is safe_load-able and holds
    it, the markdown view shows it and contains no default object repr / token dump.  -> list of failure dicts."""
    import asyncio
    import yaml
    bad = []
    leaf = case.get("expect_string_leaf")
    cls = _W["tools"][case["tool"]]

    def leaves(v):
        if isinstance(v, dict):
            return [x for y in v.values() for x in leaves(y)]
        if isinstance(v, list):
            return [x for y in v for x in leaves(y)]
        return [v]
    for mode in MODES:
        for fmt in FORMATS:
            args = dict(case["args"], mode=mode, format=fmt)
            r = tool_one(case["tool"], args, case.get("setup"))
            if r["failure"] is not None:
                bad.append(dict(r["failure"], what="regression %s: %s" % (case.get("fixed", "?"), r["failure"]["what"]), args=args))
                continue
            if mode not in ("canonical", "authoring") or fmt not in ("json", "yaml", "markdown"):
                continue
            out = asyncio.run(cls().execute(**args)).get("output", "")
            try:
                if fmt == "json":
                    ok = leaf is None or leaf in leaves(json.loads(out))
                    why = "json view lacks the string leaf %r" % leaf
                elif fmt == "yaml":
                    ok = leaf is None or leaf in leaves(yaml.safe_load(out))
                    why = "yaml view lacks the string leaf %r" % leaf
                else:
                    marks = [m for m in (" object at 0x", "Token(") if m in out]
                    ok = not marks and (leaf is None or leaf in out)
                    why = "markdown view contains %r" % marks[0].strip() if marks else "markdown view lacks the text %r" % leaf
            except Exception as e:  # noqa  -- json does not parse / yaml is not safe_load-able
                ok, why = False, "%s view cannot be read back: %s" % (fmt, type(e).__name__)
            if not ok:
                bad.append({"what": "regression %s: %s" % (case.get("fixed", "?"), why), "args": args, "finding": None})
    return bad


def measure_family_inproc(family, scales):
    res = job_timing({"family": family, "scales": scales}, lambda i: None)
    return slopes_of(res["rows"])


def slopes_of(rows):
    """Least-squares log-log slope per function, plus ('<fn>_median_local') the median of the slopes between adjacent scale
    points -- robust against a single cache-regime step, which bends the least-squares fit of a linear family (long_string:
    x3.1 between 160 k and 320 k characters, then linear again)."""
    out = {}
    for name in ("tokenize", "parse"):
        pts = [(r["len"], r[name]) for r in rows if r.get(name) is not None]
        out[name] = None if len(pts) < 3 else round(slope([p[0] for p in pts], [p[1] for p in pts]), 3)
        loc = sorted(math.log(max(b[1], 1e-9) / max(a[1], 1e-9)) / math.log(b[0] / a[0]) for a, b in zip(pts, pts[1:]) if b[0] > a[0])
        out[name + "_median_local"] = None if len(loc) < 2 else round((loc[(len(loc) - 1) // 2] + loc[len(loc) // 2]) / 2, 3)
    return out


def superlinear(sl, name):
    a, b = sl.get(name), sl.get(name + "_median_local")
    return a is not None and b is not None and a > SLOPE_MAX and b > SLOPE_MAX


def replay(ctx, case):
    c = case.get("case", case)
    fails, what, fid, detail = run_case(c)
    print(json.dumps({"fails": fails, "what": what, "finding": fid, "detail": detail}, indent=1, default=str, ensure_ascii=True)[:4000])
    return 1 if fails else 0


# --------------------------------------------------------------------------------------------------
# minimisation (delta debugging by deleting lines, then characters)
# --------------------------------------------------------------------------------------------------
def minimise(text, still_fails, budget=600):
    calls = [0]

    def ok(t):
        calls[0] += 1
        return calls[0] <= budget and still_fails(t)
    for unit in ("line", "char"):
        parts = text.split("\n") if unit == "line" else list(text)
        joiner = "\n" if unit == "line" else ""
        chunk = max(1, len(parts) // 2)
        while chunk >= 1 and calls[0] <= budget:
            i, changed = 0, False
            while i < len(parts):
                cand = parts[:i] + parts[i + chunk:]
                if cand != parts and ok(joiner.join(cand)):
                    parts, changed = cand, True
                else:
                    i += chunk
            if chunk == 1 and not changed:
                break
            chunk = chunk // 2 if not changed or chunk > 1 else 1
            if chunk == 0:
                break
        text = joiner.join(parts)
    return text


def _min_lexparse(f):
    sig = (f["fn"], f["exc"])

    def pred(t):
        r = lexparse_one(t)
        return any((x["fn"], x["exc"]) == sig for x in r["failures"])
    if f["exc"] == "hang" or len(f["text"]) > 200000:
        return f["text"]
    return minimise(f["text"], pred)


def _min_tool(f):
    content = f["args"].get("content")
    if not isinstance(content, str) or f.get("exc") in (None, "hang"):
        return None

    def pred(t):
        a = dict(f["args"])
        a["content"] = t
        r = tool_one(f["tool"], a, f.get("setup"))
        return r["failure"] is not None and r["failure"].get("exc") == f["exc"]
    return minimise(content, pred, budget=300)


# --------------------------------------------------------------------------------------------------
# run
# --------------------------------------------------------------------------------------------------
def _case_lexparse(f, minimised=None):
    c = {"kind": "lexparse", "text": f["text"] if len(f["text"]) <= 20000 else f["text"][:20000],
         "truncated": len(f["text"]) > 20000, "codepoints": [ord(ch) for ch in f["text"][:400]], "fn": f["fn"], "exception": f.get("exc"),
         "message": f.get("msg"), "frames": f.get("frames")}
    if minimised is not None and minimised != f["text"]:
        c["minimised_text"] = minimised
        c["minimised_codepoints"] = [ord(ch) for ch in minimised[:400]]
    return c


def _case_tool(f, minimised=None):
    c = {"kind": "tool", "tool": f["tool"], "args": f["args"], "setup": f.get("setup"), "exception": f.get("exc"), "message": f.get("msg"),
         "frames": f.get("frames"), "escape_site": f.get("escape_site"), "where": f.get("where"),
         "call": "asyncio.run(%s().execute(**args)); json.dumps(result, indent=2)" % f["tool"]}
    if isinstance(f["args"].get("content"), str):
        c["content_codepoints"] = [ord(ch) for ch in f["args"]["content"][:400]]
    if minimised is not None and minimised != f["args"].get("content"):
        c["minimised_content"] = minimised
    return c


def run(ctx):
    try:
        _run(ctx)
    finally:
        if _W.get("tmp"):
            shutil.rmtree(_W["tmp"], ignore_errors=True)
            _W["tmp"] = None


def _run(ctx):
    t_start = time.time()
    rng = ctx.rng
    have_model = bool(ctx.build_status["drivers"].get("syn", False))
    quick = ctx.quick()
    _w_setup()                       # parent also needs the implementation (corpus replay, minimisation)
    vol = {}
    seq4_sample = 0 if not quick else int(os.environ.get("C20_SEQ4", "100000"))
    ctx.extra["rule"] = (
        "texts: (1) token sequences over the 30-symbol alphabet {alpha!r} joined by one space except around newline/indent symbols -- "
        "quick: exhaustive length<=3 + a {s4} sample of length 4, thorough: exhaustive length<=5 (length 5 sharded); (2) random sequences "
        "(length 5..14) over a {next}-symbol extended alphabet; (3) random Unicode strings length 0..200 over pools ascii/operators/control/"
        "combining/astral/private-use/noncharacters and fully random scalar values (never surrogates); (4) 1-3 span mutations "
        "(delete/insert/duplicate/transpose) of every packaged *.oct.md; (5) curated and grammar-random structured documents "
        "(holographic values, literal zones, META.CONTRACT, POLICY/FIELDS, sections, constructors, deep lists); (6) size-scaled "
        "families and depth probes. Each text -> tokenize, parse, parse_with_warnings, parse_meta_only; a subsample + all "
        "structured documents -> the four MCP tools with every format/mode flag (full product on curated documents, random "
        "combinations elsewhere). distinct non-trivial = distinct text whose token stream has >=2 tokens besides EOF or on which "
        "tokenize/parse raised; for tool calls distinct (tool, flags, content).").format(alpha=ALPHABET, s4=seq4_sample, next=len(EXTENDED))
    ctx.assumptions += [
        "timing clause: measured only (log-log least-squares slope of min-of-3 wall times against len(text), threshold %.1f, "
        "a family is reported only when both the least-squares slope and the median adjacent-pair slope exceed the threshold in three "
        "independent measurements; quick: scales x1..x16, thorough: x1..x64); partial by nature" % SLOPE_MAX,
        "unbounded recursion: measured under CPython %d.%d with sys.getrecursionlimit()==1000; inputs up to the documented cap "
        "(bracket depth < 100, block depth <= 100) must not raise RecursionError; beyond the cap outcomes are recorded only" % sys.version_info[:2],
        "hang detection: per-call timeout of %g s (setitimer inside the worker) plus a parent watchdog that kills a worker making no "
        "progress (C-level loops); a slower machine can turn a slow call into a reported hang" % HANG_S,
        "well-typed tool arguments = values of the JSON types declared by get_input_schema(); enum-typed parameters take their "
        "declared values only (plus one wrong-case / unknown value each through the tools' own validation)",
        "no lone surrogates anywhere in the inputs (the property quantifies over surrogate-free Unicode)",
    ]
    ctx.trusted_base.append("harness/props/c20.py worker farm (fork, pipes, setitimer/kill watchdog) and tempfile scratch dirs")

    # ---------------- (0) hang probes in killable children ----------------
    t0 = time.time()
    probe_fails, probe_table = hang_probes(ctx)
    vol["hang_probe_wall_s"] = round(time.time() - t0, 1)
    ctx.extra["hang_probes"] = {"cap_s": PROBE_CAP_S, "tails": PROBE_TAILS, "shapes": sorted(PROBE_SHAPES), "functions": list(PROBE_FNS),
                                "tools_probed_at_tails": list(PROBE_TOOL_LEVELS),
                                "slowest_s": {sh: max((r[2] for rows in fns.values() for r in rows), default=0.0) for sh, fns in probe_table.items()},
                                "hangs": [c["shape"] + "/" + c["fn"] + "/tail=%d" % c["tail"] for c, _ in probe_fails]}
    for case, what in probe_fails:
        ctx.hist("failure_class", "unattributed:hang-probe:" + case["fn"])
        ctx.property_failure(case, what)
    if probe_fails:
        # every generator below would run into the same non-interruptible hang (60 s watchdog per input): stop here
        ctx.extra["search_aborted"] = ("the reader hangs on %d probe shapes (first: %s); corpus, generators, tools and timing were NOT run"
                                       % (len(probe_fails), probe_fails[0][0]["shape"]))
        vol["total_wall_s"] = round(time.time() - t_start, 1)
        ctx.extra["volumes"] = vol
        return

    # ---------------- (a) corpus and finding witnesses (in-process, guarded) ----------------
    n_corpus = 0
    witness_raises = []          # failure records of replayed tool witnesses (flow model, reverse direction)
    for p in sorted(CORPUS.glob("*.json")) if CORPUS.exists() else []:
        rec = json.loads(p.read_text())
        case = rec.get("case", rec)
        fails, what, fid, detail = run_case(case)
        if fails and case.get("kind") == "tool" and isinstance(detail, dict):
            witness_raises.append(dict(detail, tool=case["tool"], args=case["args"], setup=case.get("setup"), source="corpus:" + p.name))
        n_corpus += 1
        ctx.count()
        ctx.hist("generator", "corpus")
        if fails:
            case = dict(case)
            case["corpus_file"] = p.name
            case["detail"] = detail
            ctx.property_failure(case, what, finding=fid)
    for fid, f in ctx.known.items():
        if f["witness"].get("kind") == "timing":
            continue                 # decided by the timing phase below
        fails, what, got, detail = run_case(f["witness"])
        if fails and f["witness"].get("kind") == "tool" and isinstance(detail, dict):
            witness_raises.append(dict(detail, tool=f["witness"]["tool"], args=f["witness"]["args"], setup=f["witness"].get("setup"),
                                       source="finding:" + fid))
        ctx.count()
        ctx.finding_witness(fid, bool(fails and got == fid))
        if fails and got != fid:   # the witness fails but the classifier no longer recognises it: do not hide it
            ctx.property_failure({"witness_of": fid, "case": f["witness"]}, "finding witness fails outside its classifier: " + what, finding=got)
    vol["corpus_cases"] = n_corpus

    # ---------------- (b) generate ----------------
    texts = {}          # kind -> list[str]   (kinds the parent holds in memory)
    texts["seq<=3"] = [t for L in range(0, 4) for t in seq_texts(L)]
    n4 = len(ALPHABET) ** 4
    if quick:
        idx4 = sorted(rng.sample(range(n4), seq4_sample))
        n = len(ALPHABET)

        def _t4(idx):
            s = []
            for _ in range(4):
                s.append(ALPHABET[idx % n])
                idx //= n
            return render(s[::-1])
        texts["seq4-sample"] = [_t4(i) for i in idx4]
    texts["ext-random"] = [render([rng.choice(EXTENDED) for _ in range(rng.randint(5, 14))]) for _ in range(ctx.scale(6000, 150000))]
    texts["unicode"] = gen_unicode(rng, ctx.scale(5000, 120000))
    files = packaged_files()
    vol["packaged_files"] = len(files)
    muts = []
    for p in files:
        src = p.read_text(encoding="utf-8")
        muts.append(src)
        for _ in range(ctx.scale(10, 150)):
            muts.append(mutate(rng, src, rng.randint(1, 3)))
    texts["mutation"] = muts
    texts["curated"] = list(CURATED)
    texts["structured"] = gen_structured(rng, ctx.scale(3000, 60000))

    jobs = []

    def chunks(kind, lst, size):
        for i in range(0, len(lst), size):
            jobs.append(("lexparse", {"kind": kind, "texts": lst[i:i + size], "off": i}))
    # big documents first (long jobs first keeps the farm balanced)
    chunks("mutation", texts["mutation"], 6)
    for kind in ("curated", "structured", "unicode", "ext-random", "seq<=3", "seq4-sample"):
        if kind in texts:
            chunks(kind, texts[kind], 1500)
    if not quick:
        for L in (4, 5):
            total = len(ALPHABET) ** L
            step = 30 ** 3
            for lo in range(0, total, step):
                jobs.append(("lexparse", {"kind": "seq%d" % L, "length": L, "lo": lo, "hi": min(total, lo + step)}))
    # depth probes
    probes = [("brackets", d) for d in (1, 2, 5, 20, 50, 90, 98, 99, 100, 101, 150, 400, 2000)] + \
             [("blocks", d) for d in (1, 10, 50, 99, 100)]
    probes_info = [("blocks", d) for d in (101, 150, 200, 300, 500, 1000)]
    jobs.append(("depth", {"probes": probes, "info": False}))
    jobs.append(("depth", {"probes": probes_info, "info": True}))

    # lexer correspondence batches
    if have_model:
        pool = texts["seq<=3"] + texts.get("seq4-sample", [])[:: max(1, len(texts.get("seq4-sample", [])) // 20000 or 1)]
        pool += texts["ext-random"][: ctx.scale(3000, 30000)] + texts["unicode"][: ctx.scale(3000, 30000)]
        pool += [t for t in texts["mutation"] if len(t) < 40000][: ctx.scale(60, 600)] + texts["curated"] + texts["structured"][: ctx.scale(1500, 15000)]
        big_int = re.compile(r"\d{%d,}" % (sys.get_int_max_str_digits() + 1))   # C20-lexer-int-digit-limit: outside the model
        pool = [t for t in pool if lexcorr.in_model(t) and not big_int.search(t)]
        vol["lexcorr_pool"] = len(pool)
        for i in range(0, len(pool), 2500):
            jobs.append(("lexcorr", {"texts": pool[i:i + 2500], "lenient": [False]}))
        lp = pool[:: max(1, len(pool) // ctx.scale(4000, 40000))]
        for i in range(0, len(lp), 2500):
            jobs.append(("lexcorr", {"texts": lp[i:i + 2500], "lenient": [True]}))

    # ---------------- (d) tool calls ----------------
    calls = list(fixed_calls())
    seq_calls = list(write_sequences(every=ctx.scale(3, 1)))
    vol["two_step_write_sequences"] = len(seq_calls)
    calls += seq_calls
    full_docs = CURATED[:] + texts["structured"][: ctx.scale(6, 60)] + [texts["mutation"][0][:3000]]
    for d in full_docs:
        calls += list(eject_full(d)) + list(compile_full(d)) + list(write_other_modes(d))
    for d in full_docs[: ctx.scale(14, 80)]:
        calls += list(validate_full(d))
        calls += list(write_full(d, every=ctx.scale(3, 1)))
    sub = []
    for kind, k in (("seq<=3", ctx.scale(1500, 27931)), ("seq4-sample", 1500), ("ext-random", ctx.scale(1200, 20000)),
                    ("unicode", ctx.scale(1200, 20000)), ("structured", ctx.scale(3000, 60000)), ("mutation", ctx.scale(100, 1500))):
        lst = texts.get(kind, [])
        sub += rng.sample(lst, min(k, len(lst)))
    for d in sub:
        calls += list(random_calls(rng, d))
    rng.shuffle(calls)
    vol["tool_calls_planned"] = len(calls)
    for i in range(0, len(calls), 400):
        jobs.append(("tools", {"calls": calls[i:i + 400]}))

    # ---------------- farm ----------------
    agg = Counter()
    lex_fails, tool_fails, corr_bad, depth_rows = [], [], [], []
    counts = Counter()
    seq5_nontrivial = [0]

    def on_result(kind, payload, res):
        if kind == "lexparse":
            counts["lexparse_texts"] += res["n"]
            counts["lexparse_calls"] += 4 * res["n"]
            for k, v in res["hist"].items():
                agg[k] += v
            agg[("generator", res["kind"])] += res["n"]
            lex_fails.extend(res["fails"])
            flags = res["flags"]
            if "texts" in payload:
                st = payload.get("start", 0)
                for t, fl in zip(payload["texts"][st:], flags):
                    if fl:
                        ctx.nontrivial(t)
            elif payload["length"] <= 4:
                st = payload.get("start", 0)
                for j, (t, fl) in enumerate(zip(itertools.islice(seq_texts(payload["length"], payload["lo"], payload["hi"]), st, None), flags)):
                    if fl:
                        ctx.nontrivial(t)
            else:
                seq5_nontrivial[0] += sum(flags)
        elif kind == "lexcorr":
            counts["lexcorr_cases"] += res["n"]
            corr_bad.extend(res["bad"])
        elif kind == "tools":
            counts["tool_calls"] += res["n"]
            for k, v in res["hist"].items():
                agg[k] += v
            tool_fails.extend(res["fails"])
            for tool, args, setup in payload["calls"]:
                ctx.nontrivial((tool, json.dumps(args, sort_keys=True, default=str), json.dumps(setup, sort_keys=True)))
        elif kind == "depth":
            for pr in res["probes"]:
                pr["info_only"] = payload["info"]
                depth_rows.append(pr)

    farm = Farm(NWORKERS, watchdog_s=max(60.0, 10 * HANG_S))
    try:
        t0 = time.time()
        farm.run(jobs, on_result)
        vol["search_wall_s"] = round(time.time() - t0, 1)

        # ---------------- timing (farm is idle now: one family per worker) ----------------
        scales = [1, 2, 4, 8, 16] if quick else [1, 2, 4, 8, 16, 32, 64]
        timing = {}

        def timing_round(fams):
            got = {}

            def on_t(kind, payload, res):
                got[res["family"]] = res["rows"]
            farm.run([("timing", {"family": f, "scales": [k for k in scales if k <= NO_TIMING_BEYOND.get(f, 10 ** 9)],
                                  "cap_s": ctx.scale(6, 30)}) for f in fams], on_t, max_active=max(1, NWORKERS // 2))
            return got
        t0 = time.time()
        costly = [f for f, _ in TIMING_FINDINGS]           # longest jobs first
        first = timing_round(sorted(FAMILIES, key=lambda f: (f not in costly, f)))
        suspects = []
        for fam, rows in first.items():
            sl = slopes_of(rows)
            timing[fam] = {"slopes": sl, "rows": [{k: (round(v * 1000, 2) if isinstance(v, float) else v) for k, v in r.items()} for r in rows]}
            if any(superlinear(sl, n) for n in ("tokenize", "parse")):
                suspects.append(fam)
        confirm = {}
        if suspects:                  # two independent re-measurements, run side by side on idle workers
            got2 = []

            def on_t2(kind, payload, res):
                got2.append((res["family"], res["rows"]))
            farm.run([("timing", {"family": f, "scales": [k for k in scales if k <= NO_TIMING_BEYOND.get(f, 10 ** 9)],
                                  "cap_s": ctx.scale(6, 30)}) for f in suspects for _ in range(2)], on_t2, max_active=max(1, NWORKERS // 2))
            for fam, rows in got2:
                confirm.setdefault(fam, []).append(slopes_of(rows))
        for fam in suspects:
            sl0 = timing[fam]["slopes"]
            timing[fam]["repeat_slopes"] = confirm.get(fam, [])
            for name in ("tokenize", "parse"):
                runs = [sl0] + confirm.get(fam, [])
                vals = [c.get(name) for c in runs]
                if fam in INFO_ONLY_FAMILIES:
                    continue
                if len(runs) == 3 and all(superlinear(c, name) for c in runs):
                    timing[fam]["superlinear_" + name] = True
                    ctx.property_failure({"kind": "timing", "family": fam, "scales": scales, "fn": name, "slopes": vals,
                                          "rows": timing[fam]["rows"], "example_x1": FAMILIES[fam](1)[:200]},
                                         f"timing: {name} grows faster than linearly on family {fam} (slopes {vals})",
                                         finding=TIMING_FINDINGS.get((fam, name)))
        for fid, f in ctx.known.items():
            if f["witness"].get("kind") == "timing":
                fam = f["witness"]["family"]
                ctx.finding_witness(fid, any(timing.get(fam, {}).get("superlinear_" + n) and TIMING_FINDINGS.get((fam, n)) == fid
                                             for n in ("tokenize", "parse")))
        vol["timing_wall_s"] = round(time.time() - t0, 1)
        ctx.extra["timing"] = {"threshold": SLOPE_MAX, "scales": scales, "x_axis": "len(text)", "unit": "ms (min of 3)",
                               "support_only": True, "info_only_families": sorted(INFO_ONLY_FAMILIES), "families": timing}
        ctx.count(sum(len(v["rows"]) * 6 for v in timing.values()))
    finally:
        farm.close()

    if farm.errors:
        raise RuntimeError("worker job failed: " + farm.errors[0])

    # ---------------- evaluate ----------------
    ctx.count(counts["lexparse_calls"] + counts["tool_calls"] + counts["lexcorr_cases"])
    for (name, bucket), v in agg.items():
        if name in ENTRY:
            ctx.hist("outcome_" + name, bucket, v)
        elif name == "len":
            ctx.hist("text_length", bucket, v)
        elif name == "generator":
            ctx.hist("generator", bucket, v)
        elif name == "tool_outcome":
            ctx.hist("tool_outcome", bucket, v)
        elif name == "tool_flags":
            ctx.hist("tool_flags", bucket, v)
    ctx.hist("generator", "tool-calls", counts["tool_calls"])

    # watchdog incidents
    for kind, payload, item, what in farm.incidents:
        if kind == "lexparse":
            lst = payload["texts"] if "texts" in payload else list(seq_texts(payload["length"], payload["lo"], payload["hi"]))
            t = lst[item] if item < len(lst) else ""
            ctx.property_failure({"kind": "lexparse", "text": t[:20000], "codepoints": [ord(c) for c in t[:400]]}, what)
        elif kind == "tools":
            tool, args, setup = payload["calls"][item]
            ctx.property_failure({"kind": "tool", "tool": tool, "args": args, "setup": setup}, what)
        else:
            ctx.obligation_failure("harness", f"{kind} job lost: {what}")

    # lexer / parser failures
    seen_sig = Counter()
    for f in lex_fails:
        sig = (f["fn"], f.get("exc"), tuple(map(tuple, (f.get("frames") or [])[-1:])), f.get("finding"))
        seen_sig[sig] += 1
        if seen_sig[sig] > 3:
            continue
        mini = None
        if f.get("finding") is None and seen_sig[sig] == 1:
            try:
                mini = _min_lexparse(f)
            except Exception:  # noqa
                mini = None
        ctx.hist("failure_class", f.get("finding") or ("unattributed:" + str(f.get("exc"))))
        ctx.property_failure(_case_lexparse(f, mini), f["what"], finding=f.get("finding"))
    # tool failures
    for f in tool_fails:
        site = f.get("escape_site") or {}
        sig = (f["tool"], f.get("exc"), site.get("line"), f.get("what"), f.get("finding"))
        seen_sig[sig] += 1
        if seen_sig[sig] > 3:
            continue
        mini = None
        if f.get("finding") is None and seen_sig[sig] == 1:
            try:
                mini = _min_tool(f)
            except Exception:  # noqa
                mini = None
        ctx.hist("failure_class", f.get("finding") or ("unattributed:%s:%s" % (f["tool"], f.get("exc"))))
        ctx.property_failure(_case_tool(f, mini), f["what"] + (" at %s:%s" % (site.get("file"), site.get("line")) if site else ""),
                             finding=f.get("finding"))
    # ---------------- extracted flow model <-> implementation ----------------
    if ctx.build_status["drivers"].get("flow"):
        fm = flow_query()
        if fm.get("stale"):
            ctx.extra["flow_model"] = {"used": False, "reason": "driver build/bin/flow does not answer %s (stale build)" % fm["stale"]}
        else:
            summ = {"used": True, "loops": len(fm["loops"]), "maxnest": fm["maxnest"],
                    "loops_needing_call_contract": [l["id"] for l in fm["loops"] if l["ok_contract"] and not l["ok_no_assumption"]],
                    "loops_exempted_in_model(loops_needing_contract)": [l["id"] for l in fm["loops"] if l["exempted"]],
                    "loops_not_ok": [l["id"] for l in fm["loops"] if not l["ok_contract"]],
                    "loop_lines_at_translation(diagnostic)": {l["id"]: l["line"] for l in fm["loops"]},
                    "call_contract_methods": fm["consuming"], "total_table_size": len(fm["total"]), "raising_table_size": len(fm["raising"]),
                    "benign": fm["benign"], "predicted_escapes": {t: fm["escapes"][t] for t in FLOW_TOOLS}, "known_escapes": fm["known"],
                    "sites": {t: len(fm["sites"][t]) for t in FLOW_TOOLS}}
            ctx.assumptions.append(
                "flow model (Tools/ExnFlow.v): loop termination uses the call contract that %s consume at least one token or raise; "
                "may_raise table: %d callees assumed total, %d with listed classes; callees ASSUMED total: %s"
                % (", ".join(fm["consuming"]), len(fm["total"]), len(fm["raising"]), ", ".join(fm["total"])))
            if fm["maxnest"] != _W["ps"].MAX_NESTING_DEPTH:
                ctx.correspondence_failure({"model": fm["maxnest"], "impl": _W["ps"].MAX_NESTING_DEPTH}, "MAX_NESTING_DEPTH differs from the flow model")
            unpredicted = {}
            raised = [f for f in tool_fails + witness_raises if f.get("mro") and f.get("escape_site")]
            for f in raised:
                site = f["escape_site"]
                t = f["tool"].replace("octave_", "")
                ok, callee = flow_predicts(fm, t, site["line"], f["mro"])
                ctx.hist("model_escape", "predicted" if ok else "NOT-predicted")
                if not ok:
                    unpredicted.setdefault((t, site["line"], f["exc"]), (f, callee))
            for (t, line, exc), (f, callee) in unpredicted.items():
                ctx.correspondence_failure(_case_tool(f), "tool raised %s at %s:%s (%s) which the flow model assumes total/covered"
                                           % (exc, site_file(f), line, callee))
            # reverse direction (information only): every known escape of the model has a raising witness at its site
            unwitnessed = []
            for tool_, callee, ordn, cls_ in fm["known"]:
                lines_ = [s_["line"] for s_ in fm["sites"].get(tool_, []) if s_["callee"] == callee and s_["ord"] == ordn]
                seen_w = [f.get("source", "search") for f in raised if f["tool"].replace("octave_", "") == tool_ and f["escape_site"]["line"] in lines_
                          and cls_ in (f["mro"] + ["Exception"])]
                if not seen_w:
                    unwitnessed.append([tool_, callee, ordn, cls_, lines_])
            summ["model_escapes_without_witness"] = unwitnessed
            summ["raised_calls_checked"] = len(raised)
            ctx.extra["flow_model"] = summ
    else:
        ctx.extra["flow_model"] = {"used": False, "reason": "driver flow not built"}

    # depth probes
    depth_table = []
    for pr in depth_rows:
        depth_table.append({"shape": pr["shape"], "depth": pr["depth"], "outcomes": pr["outcomes"], "info_only": pr["info_only"]})
        ctx.count(4)
        if not pr["info_only"]:
            for f in pr["failures"]:
                ctx.property_failure({"kind": "depth", "shape": pr["shape"], "depth": pr["depth"], "fn": f["fn"], "exception": f.get("exc"),
                                      "frames": f.get("frames")}, f"{pr['shape']} depth {pr['depth']}: " + f["what"], finding=f.get("finding"))
    ctx.extra["depth_probes"] = sorted(depth_table, key=lambda r: (r["shape"], r["depth"]))
    # correspondence
    for b in corr_bad[:20]:
        ctx.correspondence_failure({"text": b["text"][:2000], "codepoints": [ord(c) for c in b["text"][:200]], "lenient": b["lenient"],
                                    "impl": b["impl"], "model": b["model"]}, "tokenize(text) differs from the extracted lexer model")

    # samples
    for kind in ("seq<=3", "ext-random", "unicode", "structured", "curated"):
        lst = texts[kind]
        for t in (lst[len(lst) // 3], lst[(2 * len(lst)) // 3]):
            r = lexparse_one(t)
            ctx.sample({"generator": kind, "text": t[:300], "codepoints": [ord(c) for c in t[:60]], "outcomes": dict(zip(ENTRY, r["outcomes"]))})
    for call in (("octave_validate", {"content": CURATED[4], "schema": "META", "fix": True, "profile": "STRICT", "compact": True}, None),
                 ("octave_eject", {"content": CURATED[3], "schema": "X", "format": "yaml", "mode": "executive"}, None)):
        r = tool_one(*call)
        ctx.sample({"generator": "tool", "tool": call[0], "args": call[1], "outcome": r["outcome"]})

    vol.update({k: int(v) for k, v in counts.items()})
    vol["seq5_nontrivial_not_in_distinct_set"] = seq5_nontrivial[0]
    vol["texts_by_generator"] = {k[1]: v for k, v in agg.items() if k[0] == "generator"}
    vol["workers"] = NWORKERS
    vol["model_driver_used"] = have_model
    vol["lexer_foreign_or_hang_reports"] = len(lex_fails)
    vol["tool_failure_reports"] = len(tool_fails)
    vol["watchdog_incidents"] = len(farm.incidents)
    vol["total_wall_s"] = round(time.time() - t_start, 1)
    ctx.extra["volumes"] = vol
    ctx.exhaustive = False
    ctx.explanation = ("exhaustive only over the stated token-sequence bound; everything else is sampled; timing clause measured "
                       "(partial); the all-inputs statement is the Coq side of C20")
    if _W.get("tmp"):
        shutil.rmtree(_W["tmp"], ignore_errors=True)
        _W["tmp"] = None
