"""C17 -- base_hash is a real compare-and-swap; failed and dry calls change nothing.

The implementation runs in the same kind of CHILD as C16 (props/c16.py --server --c17: lib.fsinterpose installed
before octave_mcp is imported from $VERIF_REPO/src; one fork per job; fresh mkdtemp sandbox per job).

Run order: corpus / finding witnesses -> histories (<= 5 steps over content / changes / normalize /
corrections_only / atomic_write_octave / external modification  x  base_hash in none | current | stale | future):
after each step envelope (status, error class, canonical_hash), file bytes + mode, and a FULL sandbox
snapshot; compared with `fsw hist` (protocol model AND register spec) and judged directly by the property ->
two writers holding the same base_hash: two real calls in two threads (thorough: also two processes), one file
operation released at a time by fsinterpose's cooperative scheduler, along merges of the two 6-step sequences;
both_succeed compared with `fsw sched`, judged directly ("at most one succeeds"), attributed to the known
finding ONLY when the schedule is in_window per the model.
"""
from __future__ import annotations

import hashlib
import itertools
import json
import multiprocessing as mp
import os
import shutil
import tempfile
import threading
import time

from props import c16

LEVEL = "proof"
DRIVERS = ["fsw"]

FINDING_WINDOW = "C17-two-writer-window"
FINDING_MKDIR = "C17-error-after-mkdir-leaves-dirs"

OLD, NEW, NONCANON, FRONT = c16.OLD, c16.NEW, c16.NONCANON, c16.FRONT
C1 = NEW
C2 = '===DOC===\nMETA:\n  TYPE::NOTE\nA::3\nZ::"second"\n===END===\n'
BROKEN_FILE = "not octave {{{"
CH1 = {"A": 7}
CH2 = {"N": "v"}
M1 = {"STATUS": "draft"}
M2 = {"OWNER": "b"}
WA = '===DOC===\nMETA:\n  TYPE::NOTE\nW::"writer A"\n===END===\n'
WB = '===DOC===\nMETA:\n  TYPE::NOTE\nW::"writer B"\n===END===\n'
sha = c16.sha

# op key -> (api, kwargs without base/dry)
CALLS = {
    "content:C1": ("execute", {"content": C1}),
    "content:C2": ("execute", {"content": C2}),
    "changes:CH1": ("execute", {"changes": CH1}),
    "changes:CH2": ("execute", {"changes": CH2}),
    "normalize": ("execute", {}),
    "dry:C2": ("execute", {"content": C2, "corrections_only": True}),
    "dry:CH1": ("execute", {"changes": CH1, "corrections_only": True}),
    "dry:normalize": ("execute", {"corrections_only": True}),
    "dry:CH2": ("execute", {"changes": CH2, "corrections_only": True}),
    "dry:CH1+M1": ("execute", {"changes": CH1, "mutations": M1, "corrections_only": True}),
    "changes:CH1+M1": ("execute", {"changes": CH1, "mutations": M1}),
    "changes:CH2+M2": ("execute", {"changes": CH2, "mutations": M2}),
    "content:C1+M1": ("execute", {"content": C1, "mutations": M1}),
    "content:C2+M2": ("execute", {"content": C2, "mutations": M2}),
    "atomic:C2": ("atomic", {"content": C2}),
    "atomic:RAW": ("atomic", {"content": NONCANON}),
    # the CLI `octave write F --content .. | --changes .. [--base-hash H]`
    "cli-content:C1": ("cli", {"content": C1}),
    "cli-content:C2": ("cli", {"content": C2}),
    "cli-changes:CH1": ("cli", {"changes": CH1}),
    "cli-changes:CH2": ("cli", {"changes": CH2}),
}
PIPE_OF = {"dry:C2": "content:C2", "dry:CH1": "changes:CH1", "dry:normalize": "normalize", "dry:CH2": "changes:CH2",
           "dry:CH1+M1": "changes:CH1+M1"}
MODE_OF = {"content": "content", "changes": "changes", "normalize": "normalize", "dry": None, "atomic": "atomic"}
EXTS = {
    "ext:noncanon": (NONCANON, 0o644), "ext:broken": (BROKEN_FILE, 0o640), "ext:front": (FRONT, 0o600),
    "ext:C1": (C1, 0o664), "ext:empty": ("", 0o644), "ext:delete": None,
}
BASES = ("none", "current", "stale", "future")
BASES5 = BASES + ("garbage",)
CLI_OPS = ("cli-content:C1", "cli-content:C2", "cli-changes:CH1", "cli-changes:CH2")
META_ERRNOS = c16.META_ERRNOS


def model_mode(opkey):
    k = opkey.split(":")[0]
    if k == "dry":
        return PIPE_OF[opkey].split(":")[0]
    return k


# =================================================================================================
# child side
# =================================================================================================
CHILD_NOFORK = ("c17_init",)
_G = {"future": {}}


def _job_init(fi, job):
    _G["future"] = job["future"]


def _snap(root):
    return c16.snapshot(root)


def _diff(a, b):
    out = []
    for k in sorted(set(a) | set(b)):
        if a.get(k) != b.get(k):
            out.append([k, None if a.get(k) is None else a[k][0], None if b.get(k) is None else b[k][0]])
    return out


def _job_hist(fi, job):
    """A SESSION: one or more histories (each in its own sandbox) run one after the other.  job["instance"]:
    "fresh"   -- a new WriteTool for every call,
    "history" -- one WriteTool per history,
    "session" -- ONE WriteTool for all histories of the session (what a long-lived MCP server process keeps)."""
    from octave_mcp.mcp.write import WriteTool
    mode = job.get("instance", "history")
    holder = {"tool": WriteTool() if mode == "session" else None}
    out = []
    for h in job["histories"]:
        if mode == "history":
            holder["tool"] = WriteTool()
        out.append(_run_history(fi, holder, mode, h["root"], h["target"], h["steps"]))
    with open(job["res"], "w") as f:
        json.dump({"histories": out}, f)


def _run_history(fi, holder, mode, root, target, steps_in):
    rel = os.path.relpath(target, root)
    plan = fi.Plan(root, target)
    plan.enabled = False
    fi.set_plan(plan)
    from octave_mcp.core.file_ops import atomic_write_octave
    from octave_mcp.mcp.write import WriteTool
    import asyncio
    texts = []

    def tid(v):
        if v is None:
            return None
        t = v[1].decode("utf-8", "surrogateescape")
        if t not in texts:
            texts.append(t)
        return texts.index(t)
    seen = []
    steps = []
    last_base = None
    for st in steps_in:
        before = _snap(root)
        cur = before.get(rel)
        cur_text = None if cur is None or cur[0] != "F" else cur[1].decode("utf-8", "surrogateescape")
        if cur_text is not None and (not seen or seen[-1] != cur_text):
            seen.append(cur_text)
        rec = {"op": st["op"], "cur": tid(cur) if cur and cur[0] == "F" else None, "cur_mode": cur[2] if cur and cur[0] == "F" else None}
        if st["op"].startswith("ext:"):
            e = EXTS[st["op"]]
            if e is None:
                if os.path.lexists(target):
                    fi._real["unlink"](target)
            else:
                os.makedirs(os.path.dirname(target), exist_ok=True)
                with fi._real["open"](target, "w", encoding="utf-8", newline="") as f:
                    f.write(e[0])
                os.chmod(target, e[1])
            rec["env"] = {"status": "ext"}
            rec["base"] = None
        else:
            api, kw = CALLS[st["op"]]
            kw = dict(kw)
            base = None
            bk = st["base"]
            if bk == "current":
                base = sha(cur_text) if cur_text is not None else sha(OLD)
            elif bk == "stale":
                older = [t for t in seen if t != cur_text]
                base = sha(older[-1]) if older else sha("a content this file never had")
            elif bk == "future":
                fut = _G["future"].get(PIPE_OF.get(st["op"], st["op"]), {})
                base = fut.get("absent" if cur_text is None else sha(cur_text)) or sha("no future content")
            elif bk == "garbage":
                base = "not-a-sha256-" + "0" * 20
            elif bk == "same":
                base = last_base
            last_base = base
            if base is not None:
                kw["base_hash"] = base
            rec["base"] = base
            plan.trace = []
            plan.k = 0
            plan.name_count = {}
            plan.fail_named = {}
            if st.get("fault"):
                plan.fail_named = {(st["fault"]["name"], int(st["fault"]["occ"])): int(st["fault"]["errno"])}
            try:
                plan.enabled = True
                try:
                    if api == "atomic":
                        r = atomic_write_octave(target, kw["content"], kw.get("base_hash"))
                    elif api == "cli":
                        r = c16._call_cli(target, kw)
                    else:
                        tool = WriteTool() if mode == "fresh" else holder["tool"]
                        r = asyncio.run(tool.execute(target_path=target, **kw))
                finally:
                    plan.enabled = False
                rec["env"] = c16.canon_envelope(api, r)
            except BaseException as e:  # noqa: BLE001
                rec["env"] = {"status": "raised", "code": type(e).__name__, "hash": ""}
            rec["unexpected"] = [n for n, _ in plan.trace if n.startswith("UNEXPECTED")]
            cnt = {}
            rec["meta_ops"] = []
            for n, _ in plan.trace:
                if c16.is_meta_op(n):
                    rec["meta_ops"].append([n, cnt.get(n, 0)])
                    cnt[n] = cnt.get(n, 0) + 1
        after = _snap(root)
        a = after.get(rel)
        rec["after"] = tid(a) if a and a[0] == "F" else None
        rec["after_mode"] = a[2] if a and a[0] == "F" else None
        rec["same"] = before == after
        if not rec["same"]:
            rec["diff"] = _diff(before, after)[:8]
        steps.append(rec)
    return {"steps": steps, "texts": texts}


def _is_install(name):
    """the op that installs the new content over the target, however it is spelled"""
    return name is not None and (name == "replace" or name.startswith("UNEXPECTED:replace") or name.startswith("UNEXPECTED:rename")
                                 or name.startswith("UNEXPECTED:shutil.move"))


def _drive(ctl, bits):
    """Advance the two writers along a merge of their 6-step sequences (False = A moves).
    step 0 read (all file ops before the WRITE FILE block), 1 compare (no file op), 2 write temp (mkdir .. close),
    3 re-read (open/read/close of the target), 4 compare (no file op unless it fails: unlink temp, return),
    5 replace."""
    pc = {"A": 0, "B": 0}
    log = []

    def finish(who):
        while ctl.pending(who) is not None:
            log.append(who + ":" + ctl.pending(who))
            ctl.grant(who)
    for b in bits:
        who = "B" if b else "A"
        k = pc[who]
        pc[who] += 1
        if ctl.pending(who) is None:
            continue
        if k == 0:
            while ctl.pending(who) not in (None, "mkdir"):
                log.append(who + ":" + ctl.pending(who))
                ctl.grant(who)
        elif k == 2:
            while ctl.pending(who) not in (None, "open_read:target") and not _is_install(ctl.pending(who)):
                log.append(who + ":" + ctl.pending(who))
                ctl.grant(who)
        elif k == 3:
            while ctl.pending(who) in ("open_read:target", "read", "close_read"):
                log.append(who + ":" + ctl.pending(who))
                ctl.grant(who)
        elif k == 4:
            if not _is_install(ctl.pending(who)):
                finish(who)
        elif k == 5:
            finish(who)
    finish("A")
    finish("B")
    return log


class _ThreadCtl:
    def __init__(self, sched):
        self.s = sched

    def pending(self, who):
        return self.s.peek(who)

    def grant(self, who):
        self.s.step(who)


class _ProcCtl:
    def __init__(self, chans):
        self.ch = chans            # who -> (reader file, grant fd)
        self.pend = {w: None for w in chans}
        self.done = {w: None for w in chans}

    def pending(self, who):
        if self.done[who] is not None:
            return None
        if self.pend[who] is None:
            line = self.ch[who][0].readline()
            if not line:
                self.done[who] = {"raised": {"type": "WriterDied", "errno": None}}
                return None
            line = line.rstrip("\n")
            if line.startswith("DONE "):
                self.done[who] = json.loads(line[5:])
                return None
            self.pend[who] = line
        return self.pend[who]

    def grant(self, who):
        self.pend[who] = None
        os.write(self.ch[who][1], b"g")
        self.pending(who)


def _writer_result(api, fn):
    try:
        return {"env": c16.canon_envelope(api, fn())}
    except BaseException as e:  # noqa: BLE001
        return {"raised": {"type": type(e).__name__, "errno": getattr(e, "errno", None)}}


def _job_sched(fi, job):
    root, target = job["root"], job["target"]
    bits = [c == "1" for c in job["bits"]]
    writers = job["writers"]          # {"A": {"api":..,"args":..}, "B": ..}
    results = {}
    if job.get("procs"):
        chans = {}
        pids = []
        for who in ("A", "B"):
            g_r, g_w = os.pipe()
            r_r, r_w = os.pipe()
            pid = os.fork()
            if pid == 0:
                try:
                    os.close(g_w)
                    os.close(r_r)
                    plan = fi.Plan(root, target, scheduler=fi.PipeScheduler(who, g_r, r_w))
                    plan.tls.who = who
                    fi.set_plan(plan)
                    w = writers[who]
                    res = _writer_result(w["api"], lambda: c16._call(w["api"], target, w["args"]))
                    plan.enabled = False
                    os.write(r_w, ("DONE " + json.dumps(res) + "\n").encode())
                finally:
                    os._exit(0)
            os.close(g_r)
            os.close(r_w)
            chans[who] = (os.fdopen(r_r, "r"), g_w)
            pids.append(pid)
        ctl = _ProcCtl(chans)
        log = _drive(ctl, bits)
        for p in pids:
            os.waitpid(p, 0)
        results = ctl.done
    else:
        sched = fi.Scheduler(["A", "B"])
        plan = fi.Plan(root, target, scheduler=sched)
        fi.set_plan(plan)

        def body(who):
            plan.tls.who = who
            w = writers[who]
            try:
                results[who] = _writer_result(w["api"], lambda: c16._call(w["api"], target, w["args"]))
            finally:
                sched.finish(who)
        ths = [threading.Thread(target=body, args=(w,), daemon=True) for w in ("A", "B")]
        for t in ths:
            t.start()
        log = _drive(_ThreadCtl(sched), bits)
        for t in ths:
            t.join(30)
        plan.enabled = False
    with open(job["res"], "w") as f:
        json.dump({"results": results, "log": log}, f)


def child_handlers():
    return {"c17_init": _job_init, "hist": _job_hist, "sched": _job_sched}


# =================================================================================================
# supervisor side
# =================================================================================================
INITS = {
    "existing": {"target": "d/f.oct.md", "fs": [("d", "D", "", 0), ("d/f.oct.md", "F", OLD, 0o644)]},
    "absent": {"target": "d/f.oct.md", "fs": [("d", "D", "", 0)]},
    "noparent": {"target": "n/e/f.oct.md", "fs": []},
    "noncanon": {"target": "d/f.oct.md", "fs": [("d", "D", "", 0), ("d/f.oct.md", "F", NONCANON, 0o600)]},
}
BYST = [("d/other.txt", "F", c16.BYSTANDER, 0o644), ("z", "D", "", 0), ("z/keep.oct.md", "F", OLD, 0o600)]

_PIPE = {}        # opkey -> {state text | None: canonical | None}
_MISSING = object()
_INIT_SENT = False


def _server():
    global _INIT_SENT
    s = c16.server()
    if not _INIT_SENT:
        fut = {}
        for opk, tab in _PIPE.items():
            fut[opk] = {("absent" if st is None else sha(st)): (None if c is None else sha(c)) for st, c in tab.items()}
        s.run({"kind": "c17_init", "future": fut})
        _INIT_SENT = True
    return s


def _run_job(kind, init, payload):
    jd = tempfile.mkdtemp(prefix="job", dir=c16._SCRATCH)
    try:
        root = os.path.join(jd, "sb")
        c16.build_fs(root, init["fs"] + BYST)
        target = os.path.join(root, init["target"])
        job = {"kind": kind, "root": root, "target": target, "res": os.path.join(jd, "res.json")}
        job.update(payload)
        code = _server().run(job)
        res = None
        if os.path.exists(job["res"]):
            with open(job["res"]) as f:
                res = json.load(f)
        err = None
        if os.path.exists(job["res"] + ".err"):
            with open(job["res"] + ".err") as f:
                err = f.read()
        return code, res, err, c16.snapshot(root)
    finally:
        shutil.rmtree(jd, ignore_errors=True)


def _run_session(hists, instance):
    """hists = [(init dict, steps)]; every history gets its own fresh sandbox; returns (exit, [rec per history] | None, err)"""
    jd = tempfile.mkdtemp(prefix="job", dir=c16._SCRATCH)
    try:
        hs = []
        for i, (init, steps) in enumerate(hists):
            root = os.path.join(jd, f"h{i}", "sb")
            c16.build_fs(root, init["fs"] + BYST)
            hs.append({"root": root, "target": os.path.join(root, init["target"]), "steps": steps})
        job = {"kind": "hist", "histories": hs, "instance": instance, "res": os.path.join(jd, "res.json")}
        code = _server().run(job)
        res = None
        if os.path.exists(job["res"]):
            with open(job["res"]) as f:
                res = json.load(f)["histories"]
        err = None
        if os.path.exists(job["res"] + ".err"):
            with open(job["res"] + ".err") as f:
                err = f.read()
        return code, res, err
    finally:
        shutil.rmtree(jd, ignore_errors=True)


# ---- histories -----------------------------------------------------------------------------------------
def hist_model_line(init, steps, rec):
    from lib.model import enc_str
    texts = rec["texts"]
    used = set(["", OLD])
    ops = []
    kept = []
    for si, (st, r) in enumerate(zip(steps, rec["steps"])):
        cur = None if r["cur"] is None else texts[r["cur"]]
        if cur is not None:
            used.add(cur)
        if st.get("fault") and r["env"]["status"] != "success":
            continue      # a call that FAILED under an injected fault is a no-op of the register (the judge checks that it is)
        kept.append(si)
        if st["op"].startswith("ext:"):
            e = EXTS[st["op"]]
            if e is None:
                ops.append("E:~:_")
            else:
                used.add(e[0])
                ops.append(f"E:{enc_str(e[0])}:{e[1]}")
            continue
        base = r["base"]
        btok = enc_str(base) if base else "~"
        api, kw = CALLS[st["op"]]
        if api == "atomic":
            used.add(kw["content"])
            ops.append(f"A:{enc_str(kw['content'])}:{btok}")
            continue
        if api == "cli":
            # the CLI is its pre-phase (pin_cli_sites: exists / read_text / parse / apply, BEFORE any hash check) followed by
            # atomic_write_octave(file, canonical, base_hash)
            canon = _PIPE[st["op"]].get(cur, None)
            if "changes" in kw and cur is None:
                ops.append("X:changes:~=~:~:0")                       # E_FILE
            elif canon is None:
                ops.append(f"X:changes:{'~' if cur is None else enc_str(cur)}=~:~:0")     # the pipeline refuses first: E_PIPE
            else:
                used.add(canon)
                ops.append(f"A:{enc_str(canon)}:{btok}")
            continue
        pk = PIPE_OF.get(st["op"], st["op"])
        canon = _PIPE[pk].get(cur, None)
        if canon is not None:
            used.add(canon)
        pt = ("~" if cur is None else enc_str(cur)) + "=" + ("~" if canon is None else enc_str(canon))
        ops.append(f"X:{model_mode(st['op'])}:{pt}:{btok}:{'1' if kw.get('corrections_only') else '0'}")
    fs = []
    for rel, kind, data, mode in init["fs"]:
        fs.append(enc_str("/s/" + rel) + ("|D" if kind == "D" else "|F|" + enc_str(data) + "|" + str(mode)))
        if kind != "D":
            used.add(data)
    par = os.path.dirname(init["target"])
    parts = par.split("/")
    chain = ["/s/" + "/".join(parts[: i + 1]) for i in range(len(parts))]
    ht = ",".join(enc_str(x) + "=" + enc_str(sha(x)) for x in sorted(used))
    return " ".join(["hist", enc_str("/s/" + init["target"]), enc_str("/s/" + par), ",".join(enc_str(c) for c in chain),
                     enc_str("/s/" + par + "/TMPFILE.tmp"), "4", ht, ";".join(fs) or "-"] + ops), kept


def parse_hist(out):
    from lib.model import dec_str
    f = [x.strip() for x in out.split("#")]
    if len(f) != 4:
        return None

    def res(t):
        o = []
        for x in t.split():
            if x == "ext":
                o.append(("ext", ""))
            elif x.startswith("ok:"):
                o.append(("success", dec_str(x[3:])))
            else:
                o.append(("error", x[4:]))
        return o
    node = None
    if f[1] == "D":
        node = ("D",)
    elif f[1] != "~":
        p = f[1].split("|")
        node = ("F", dec_str(p[1]), int(p[2]))
    return {"impl": res(f[0]), "node": node, "spec": res(f[2]), "spec_content": None if f[3] == "~" else dec_str(f[3])}


def env_tuple(e):
    if e["status"] == "ext":
        return ("ext", "")
    if e["status"] == "success":
        return ("success", e["hash"])
    if e["status"] == "error":
        return ("error", e["code"])
    return (e["status"], e.get("code", ""))


def only_new_parent_dirs(diff, target_rel):
    """the classifier of C17-error-after-mkdir-leaves-dirs: every difference is a NEW DIRECTORY that is a proper
    ancestor of the target (i.e. the parent chain did not exist before the call and mkdir(parents=True) created it)"""
    if not diff:
        return False
    anc = set()
    parts = os.path.dirname(target_rel).split("/")
    for i in range(len(parts)):
        anc.add("/".join(parts[: i + 1]))
    return all(b is None and a == "D" and rel in anc for rel, b, a in diff)


def non_altering(st, r):
    """a call that must not change anything: corrections_only, or status=error"""
    return (not st["op"].startswith("ext:")) and (st["op"].startswith("dry:") or r["env"]["status"] in ("error", "raised"))


def judge_hist(init, steps, rec, prior=()):
    """([(what, finding)], [what]) -- the C17 statement evaluated directly on the recorded history (property failures), and
    effect mismatches that cannot be tied to a dry / failed call (reported as correspondence failures).
    `prior`: descriptions of dry / failed calls made EARLIER IN THE SAME PROCESS (previous histories of the session)."""
    out = []
    loose = []
    texts = rec["texts"]
    earlier = list(prior)
    for i, (st, r) in enumerate(zip(steps, rec["steps"])):
        if st["op"].startswith("ext:"):
            continue
        env = r["env"]
        cur = None if r["cur"] is None else texts[r["cur"]]
        aft = None if r["after"] is None else texts[r["after"]]
        dry = st["op"].startswith("dry:")
        # (c) over a history: what a SUCCESSFUL write installs is exactly (content before) (+) THIS request -- nothing of an
        # earlier corrections_only / failed call may land on disk later.  Expected text: the pipeline oracle (fresh process,
        # fresh tool, same file content, same request).
        if env["status"] == "success" and not dry:
            api, kw = CALLS[st["op"]]
            pk = PIPE_OF.get(st["op"], st["op"])
            exp = kw["content"] if api == "atomic" else _PIPE.get(pk, {}).get(cur, _MISSING)
            if exp is not _MISSING and exp is not None and (aft != exp or env["hash"] != sha(exp)):
                what = (f"request-mix: step {i} ({st['op']}, status=success) installed a text that is not (content before (+) this request)"
                        f" [file hash {sha(aft)[:12] if aft is not None else None}, envelope {env['hash'][:12]}, expected {sha(exp)[:12]}]")
                if earlier:
                    out.append((what + f"; earlier calls that had to leave no trace: {earlier[-3:]}", None))
                else:
                    loose.append(what)
        if non_altering(st, r):
            earlier.append(f"step {i} {st['op']} -> {env['status']} {env.get('code', '')}".strip())
        if r.get("unexpected"):
            loose.append(f"step {i} used an operation outside the modelled protocol: {r['unexpected']}")
        # (a) compare-and-swap
        if r["base"] and cur is not None and sha(cur) != r["base"]:
            if env["status"] == "success":
                out.append((f"cas-stale-accepted: step {i} ({st['op']}, base={st['base']}) base_hash does not match the file's content "
                            f"but status=success" + ("" if dry else " and the file was " + ("changed" if aft != cur else "rewritten")), None))
            elif aft != cur:
                out.append((f"cas-stale-changed: step {i} ({st['op']}) base_hash mismatch, status={env['status']} but the file bytes changed", None))
            elif env["status"] == "error" and env["code"] != "E_HASH" and not st.get("fault"):
                # (under an injected failure another error class may legitimately come first)
                pk = PIPE_OF.get(st["op"], st["op"])
                if pk.startswith("atomic") or _PIPE[pk].get(cur) is not None:     # (CLI: parse/apply precede the hash check)
                    out.append((f"cas-stale-code: step {i} ({st['op']}) base_hash mismatch reported as {env['code']} instead of E_HASH", None))
        # (a') the writer's retry: its previous call (same op, same base_hash) returned an error under an injected metadata
        # failure, so the file must be as it was and a base_hash that matched then still matches: the retry is not E_HASH
        if st.get("base") == "same" and i > 0 and steps[i - 1].get("fault"):
            p = rec["steps"][i - 1]
            pcur = None if p["cur"] is None else texts[p["cur"]]
            matched = (not p["base"]) or pcur is None or sha(pcur) == p["base"]
            if p["env"]["status"] == "error" and matched and env["status"] == "error" and env["code"] == "E_HASH":
                out.append((f"retry-rejected: step {i - 1} ({st['op']}) returned status=error {p['env']['code']}, the retry with the same base_hash "
                            f"is refused with E_HASH (the failed call had already installed its content)", None))
        # (b) dry calls and error returns leave the whole sandbox exactly as it was
        if (dry or env["status"] == "error") and not r["same"]:
            fid = None
            if env["status"] == "error" and env["code"] == "E_WRITE" and only_new_parent_dirs(r.get("diff"), init["target"]):
                fid = FINDING_MKDIR
            kind = "dry-changed" if dry and env["status"] != "error" else "error-changed"
            out.append((f"{kind}: step {i} ({st['op']}, status={env['status']} {env.get('code', '')}) changed the file system: {r.get('diff')}", fid))
    return out, loose


def _session_fails(sess, instance, key):
    """does the session still produce an unattributed property failure of class `key`?  -> (bool, observed of the last history)"""
    inits = [INITS[n] if isinstance(n, str) else n for n, _ in sess]
    code, recs, err = _run_session([(ini, st) for ini, (_, st) in zip(inits, sess)], instance)
    if recs is None:
        return False, None
    prior = []
    hit = False
    for (n, steps), init, rec in zip(sess, inits, recs):
        props, _ = judge_hist(init, steps, rec, prior)
        hit = hit or any(f is None and w.split(":")[0] == key for w, f in props)
        for k, (st, r) in enumerate(zip(steps, rec["steps"])):
            if non_altering(st, r):
                prior.append(f"step {k} {st['op']} -> {r['env']['status']}")
    return hit, [{"env": r["env"], "base": r["base"], "same": r["same"]} for r in recs[-1]["steps"]]


def judge_hist_of(sess, instance):
    """[(what, finding)] of the LAST history of a (re-run) session"""
    inits = [INITS[n] if isinstance(n, str) else n for n, _ in sess]
    code, recs, err = _run_session([(ini, st) for ini, (_, st) in zip(inits, sess)], instance)
    if recs is None:
        return []
    prior = []
    props = []
    for (n, steps), init, rec in zip(sess, inits, recs):
        props, _ = judge_hist(init, steps, rec, prior)
        for k, (st, r) in enumerate(zip(steps, rec["steps"])):
            if non_altering(st, r):
                prior.append(f"step {k} {st['op']} -> {r['env']['status']} {r['env'].get('code', '')}".strip())
    return props


def _shrink(sess, instance, key, budget=60):
    """greedy structural shrinking of a failing session: drop whole histories, then single steps (re-running the real
    implementation each time); base kinds are symbolic (current/stale/..), so a shortened history stays meaningful"""
    cur = [(n, list(st)) for n, st in sess]
    runs = 0
    changed = True
    while changed and runs < budget:
        changed = False
        for i in range(len(cur) - 1):            # never drop the failing (last) history as a whole
            cand = cur[:i] + cur[i + 1:]
            runs += 1
            if _session_fails(cand, instance, key)[0]:
                cur, changed = cand, True
                break
        if changed:
            continue
        for hi in range(len(cur)):
            for si in range(len(cur[hi][1])):
                if len(cur[hi][1]) == 1 and hi == len(cur) - 1:
                    continue
                st = cur[hi][1][:si] + cur[hi][1][si + 1:]
                cand = cur[:hi] + ([(cur[hi][0], st)] if st else []) + cur[hi + 1:]
                if not cand:
                    continue
                runs += 1
                if _session_fails(cand, instance, key)[0]:
                    cur, changed = cand, True
                    break
                if runs >= budget:
                    break
            if changed or runs >= budget:
                break
    ok, obs = _session_fails(cur, instance, key)
    return (cur, obs) if ok else (None, None)


def _hist_chunk(task):
    """worker: run a chunk of SESSIONS (a session = list of histories run in one child process, see _job_hist), compare every
    history with the model, judge.  task = (sessions, have_model, instance).  Returns a compact summary."""
    sessions, have_model, instance = task
    from lib.model import run_driver
    summ = {"steps": 0, "hist": 0, "prop": [], "corr": [], "h": {}, "keys": [], "samples": [], "meta": []}

    def h(name, b, n=1):
        summ["h"].setdefault(name, {})
        summ["h"][name][b] = summ["h"][name].get(b, 0) + n
    lines, metas = [], []
    for sess in sessions:
        inits = [INITS[n] if isinstance(n, str) else n for n, _ in sess]
        code, recs, err = _run_session([(ini, st) for ini, (_, st) in zip(inits, sess)], instance)
        if recs is None:
            summ["corr"].append(({"instance": instance, "session": [{"init": n, "steps": st} for n, st in sess]},
                                 f"harness: child exit {code}: {str(err)[-400:]}"))
            continue
        prior = []
        for hi, ((init_name, steps), init, rec) in enumerate(zip(sess, inits, recs)):
            # the replay of a failure is the session up to and including this history, on the same kind of instance
            case = {"instance": instance, "session": [{"init": n, "steps": st} for n, st in sess[: hi + 1]]}
            case["observed"] = [{"env": r["env"], "base": r["base"], "same": r["same"]} for r in rec["steps"]]
            if rec["steps"] and rec["steps"][0].get("meta_ops") and len(steps) == 1 and isinstance(init_name, str):
                summ["meta"].append((init_name, steps[0], rec["steps"][0]["meta_ops"]))
            summ["hist"] += 1
            summ["steps"] += len(steps)
            summ["keys"].append(hashlib.blake2b(json.dumps([instance, init_name, steps] + ([sess[:hi]] if instance == "session" else []),
                                                           sort_keys=True, default=str).encode(), digest_size=10).hexdigest())
            h("length", len(steps))
            h("init", init_name if isinstance(init_name, str) else "custom")
            h("instance", instance)
            for st, r in zip(steps, rec["steps"]):
                h("op", st["op"])
                if st.get("fault"):
                    h("fault", st["fault"]["name"] + ":" + c16.ALL_ERRNO_NAMES.get(st["fault"]["errno"], str(st["fault"]["errno"])))
                if not st["op"].startswith("ext:"):
                    h("base", st["base"])
                    h("result", r["env"]["status"] + (":" + r["env"]["code"] if r["env"]["status"] == "error" else ""))
                    if r["base"] and r["cur"] is not None:
                        h("cas_case", "match" if sha(rec["texts"][r["cur"]]) == r["base"] else "mismatch")
            props, loose = judge_hist(init, steps, rec, prior)
            for what, fid in props:
                if fid is None and summ.get("shrunk", 0) < 2:
                    # minimise the replay (at most two per chunk): the case reported is the shrunk session
                    summ["shrunk"] = summ.get("shrunk", 0) + 1
                    small, obs = _shrink(sess[: hi + 1], instance, what.split(":")[0])
                    if small is not None:
                        scase = {"instance": instance, "session": [{"init": n, "steps": st} for n, st in small], "observed": obs,
                                 "shrunk_from_histories": hi + 1}
                        w2 = [w for w, f in judge_hist_of(small, instance) if f is None and w.split(":")[0] == what.split(":")[0]]
                        summ["prop"].append((scase, w2[0] if w2 else what, fid))
                        continue
                summ["prop"].append((case, what, fid))
            for what in loose:
                summ["corr"].append((case, what))
            for k, (st, r) in enumerate(zip(steps, rec["steps"])):
                if non_altering(st, r):
                    prior.append(f"history {hi} step {k} {st['op']} -> {r['env']['status']} {r['env'].get('code', '')}".strip())
                    h("non_altering_then", "followed" if (k + 1 < len(steps) or hi + 1 < len(sess)) else "last")
            if len(summ["samples"]) < 2:
                summ["samples"].append({"instance": instance,
                                        "init": init_name if isinstance(init_name, str) else "custom target " + init["target"][:12] + "...(%d chars)" % len(init["target"]),
                                        "steps": [s_["op"] + "/" + str(s_.get("base")) for s_ in steps],
                                        "results": [list(env_tuple(r["env"]))[:1] + [env_tuple(r["env"])[1][:12]] for r in rec["steps"]]})
            if have_model and isinstance(init_name, str):
                line, kept = hist_model_line(init, steps, rec)
                if kept:
                    lines.append(line)
                    metas.append((case, init, steps, rec, kept))
    if lines:
        outs = run_driver("fsw", lines)
        for o, (case, init, steps, rec, kept) in zip(outs, metas):
            m = parse_hist(o)
            if m is None:
                summ["corr"].append((case, f"model driver answered {o[:200]}"))
                continue
            real = [env_tuple(rec["steps"][i]["env"]) for i in kept]
            bad = []
            if real != m["impl"]:
                bad.append(f"envelopes: impl {real} protocol-model {m['impl']}")
            if real != m["spec"]:
                bad.append(f"envelopes: impl {real} register-spec {m['spec']}")
            last = rec["steps"][-1]
            fin = None if last["after"] is None else ("F", rec["texts"][last["after"]], last["after_mode"])
            if fin != m["node"]:
                bad.append(f"final file: impl {fin} protocol-model {m['node']}")
            if (fin[1] if fin else None) != m["spec_content"]:
                bad.append(f"final content: impl {(fin[1] if fin else None)!r} register-spec {m['spec_content']!r}")
            if bad:
                summ["corr"].append((case, "; ".join(bad)[:1500]))
    return summ


def pack(hs, instance, have_model, per_session, per_chunk):
    """[(init, steps)] -> chunk tasks of sessions"""
    sessions = [hs[i:i + per_session] for i in range(0, len(hs), per_session)]
    return [(sessions[i:i + per_chunk], have_model, instance) for i in range(0, len(sessions), per_chunk)]


# ---- two writers ---------------------------------------------------------------------------------------------
def in_window(bits):
    """each writer's re-read (its step 3) precedes the other's replace (its step 5) -- Interleave.in_window"""
    def pos(who, k):
        n = -1
        for i, b in enumerate(bits):
            if b == who:
                n += 1
                if n == k:
                    return i
        return len(bits)
    return pos(False, 3) < pos(True, 5) and pos(True, 3) < pos(False, 5)


def all_merges(n=6, m=6):
    out = []
    for pos in itertools.combinations(range(n + m), m):
        b = [False] * (n + m)
        for p in pos:
            b[p] = True
        out.append(b)
    return out


WRITER_CONFIGS = {
    "content/content": ({"api": "execute", "args": {"content": WA}}, {"api": "execute", "args": {"content": WB}}),
    "changes/content": ({"api": "execute", "args": {"changes": {"W": "writer A"}}}, {"api": "execute", "args": {"content": WB}}),
    "atomic/atomic": ({"api": "atomic", "args": {"content": WA}}, {"api": "atomic", "args": {"content": WB}}),
    "normalize/atomic": ({"api": "execute", "args": {}}, {"api": "atomic", "args": {"content": WB}}),
    # two `octave write` processes (the click runner swaps sys.stdout, so this configuration is run with PROCESSES only)
    "cli/cli": ({"api": "cli", "args": {"content": WA}}, {"api": "cli", "args": {"changes": {"W": "writer B"}}}),
}
THREAD_CONFIGS = ("content/content", "changes/content", "atomic/atomic", "normalize/atomic")
SCHED_INIT = {"target": "d/f.oct.md", "fs": [("d", "D", "", 0), ("d/f.oct.md", "F", NONCANON, 0o640)]}


def _sched_task(task):
    cfg, bits, procs = task
    a, b = WRITER_CONFIGS[cfg]
    base = sha(NONCANON)
    wa = {"api": a["api"], "args": dict(a["args"], base_hash=base)}
    wb = {"api": b["api"], "args": dict(b["args"], base_hash=base)}
    bs = "".join("1" if x else "0" for x in bits)
    code, rec, err, snap = _run_job("sched", SCHED_INIT, {"bits": bs, "writers": {"A": wa, "B": wb}, "procs": procs})
    if rec is None:
        return {"cfg": cfg, "bits": bs, "procs": procs, "harness": f"child exit {code}: {str(err)[-400:]}"}
    t = snap.get(SCHED_INIT["target"])
    listing = sorted(k for k in snap if os.path.dirname(k) == "d")
    return {"cfg": cfg, "bits": bs, "procs": procs, "results": rec["results"], "log": rec["log"],
            "final": None if t is None else t[1].decode("utf-8", "replace"), "final_mode": None if t is None else t[2],
            "listing": listing}


# ---- generation -------------------------------------------------------------------------------------------------
POOL_EXH = ([(k, b) for k in ("content:C1", "changes:CH1", "normalize", "dry:C2") for b in BASES]
            + [("ext:noncanon", None), ("ext:C1", None)])
POOL_RND = ([(k, b) for k in CALLS for b in BASES5] + [(k, None) for k in EXTS])


def mkstep(p):
    return {"op": p[0], "base": p[1]}


def oracle_closure(ctx):
    """PIPE[opkey][state] = canonical text (None = pipeline refuses), over the closure of reachable file contents.
    Each entry is one fault-free run of the real implementation in a scratch sandbox (no base_hash, not dry)."""
    pipe_keys = ["content:C1", "content:C2", "changes:CH1", "changes:CH2", "normalize", "changes:CH1+M1", "changes:CH2+M2",
                 "content:C1+M1", "content:C2+M2"] + list(CLI_OPS)
    states = [None, OLD, NONCANON, BROKEN_FILE, FRONT, C1, C2, ""]
    for k in pipe_keys:
        _PIPE[k] = {}
    _PIPE["atomic:C2"] = {}
    _PIPE["atomic:RAW"] = {}
    i = 0
    runs = 0
    while i < len(states):
        st = states[i]
        i += 1
        for k in pipe_keys:
            api, kw = CALLS[k]
            fs = [("d", "D", "", 0)] + ([("d/f.oct.md", "F", st, 0o644)] if st is not None else [])
            sc = {"api": api, "target": "d/f.oct.md", "fs": fs, "args": dict(kw)}
            rec = c16.run_case(sc)
            runs += 1
            oc = c16.outcome_of(rec)
            text = None
            if oc[0] == "success":
                text = rec["after"]["d/f.oct.md"][1].decode("utf-8")
                if text not in states:
                    states.append(text)
            _PIPE[k][st] = text
        _PIPE["atomic:C2"][st] = C2
        _PIPE["atomic:RAW"][st] = NONCANON
        if len(states) > 400:
            raise RuntimeError("oracle closure does not converge")
    return len(states), runs


def run(ctx):
    t0 = time.time()
    scratch = tempfile.mkdtemp(prefix="c17_")
    c16._SCRATCH = scratch
    c16._SERVER_ARGS = ("--c17",)
    pool = None
    try:
        nstates, nruns = oracle_closure(ctx)
        ctx.extra["oracle"] = {"reachable_contents": nstates, "pipeline_oracle_runs": nruns}
        if c16._SERVER is not None:      # the main process' server was only needed for the oracle
            c16._SERVER.close()
            c16._SERVER = None
        pool = mp.get_context("fork").Pool(16, initializer=c16._worker_init, initargs=(scratch,))
        _run(ctx, pool)
    finally:
        if pool is not None:
            pool.terminate()
            pool.join()
        if c16._SERVER is not None:
            c16._SERVER.close()
            c16._SERVER = None
        shutil.rmtree(scratch, ignore_errors=True)
    ctx.extra["c17_wall_s"] = round(time.time() - t0, 1)


def _merge(ctx, summ, corpus_case=None):
    ctx.count(summ["steps"])
    for k in summ["keys"]:
        ctx.nontrivial(k)
    for name, d in summ["h"].items():
        for b, n in d.items():
            ctx.hist(name, b, n)
    for case, what, fid in summ["prop"]:
        ctx.property_failure(case, what, finding=fid)
    for case, what in summ["corr"]:
        ctx.correspondence_failure(case, what)
    for s in summ["samples"]:
        ctx.sample(s, cap=8)


def _run(ctx, pool):
    from lib.core import VERIF
    from lib.model import run_driver
    have_model = bool(ctx.build_status.get("drivers", {}).get("fsw"))
    ctx.trusted_base += [
        "harness/lib/fsinterpose.py cooperative scheduler: interleavings are at FILE-OPERATION granularity (one wrapped call is "
        "released at a time; pure code between two calls runs with the preceding call); preemption inside a call is not explored",
        "SHA-256 and the parse/emit pipeline are oracles of the register model (computed by the real implementation in separate fault-free runs)",
    ]
    ctx.assumptions += [
        "rename(2)/os.replace is atomic; operations of one process take effect in program order",
        "base_hash on an ABSENT file is not a guard (the tool documents 'when file exists'); the register spec says the same",
    ]

    # ---- corpus / finding witnesses --------------------------------------------------------------------------
    cdir = VERIF / "corpus" / "C17"
    corpus = []
    if cdir.is_dir():
        for p in sorted(cdir.glob("*.json")):
            corpus.append((p.name, json.loads(p.read_text())))
    hist_corpus = [(n, c) for n, c in corpus if c.get("kind") == "hist"]
    sched_corpus = [(n, c) for n, c in corpus if c.get("kind") == "sched"]
    witness_fail = {}
    for n, c in hist_corpus:
        init = c["init"] if isinstance(c["init"], str) else {"target": c["init"]["target"], "fs": [tuple(x) for x in c["init"]["fs"]]}
        summ = _hist_chunk(([[(init, c["steps"])]], have_model, c.get("instance", "history")))
        if c.get("finding"):
            witness_fail[c["finding"]] = witness_fail.get(c["finding"], False) or any(f == c["finding"] for _, _, f in summ["prop"])
        _merge(ctx, summ)

    # ---- histories ----------------------------------------------------------------------------------------------
    hs = []
    hs_rand = []
    rng = ctx.rng
    if not ctx.quick():
        for L in range(1, 5):
            for combo in itertools.product(POOL_EXH, repeat=L):
                hs.append(("existing", [mkstep(p) for p in combo]))
        ctx.extra["exhaustive_histories_le4"] = len(hs)
    n_rand = ctx.scale(3000, 50000)
    inits = ["existing"] * 5 + ["absent"] * 2 + ["noparent"] * 2 + ["noncanon"] * 2
    for _ in range(n_rand):
        L = 5 if not ctx.quick() else rng.choice([1, 2, 3, 4, 5, 5, 5])
        steps = []
        for _j in range(L):
            r = rng.random()
            if r < 0.16:
                steps.append(mkstep((rng.choice(list(EXTS)), None)))
            elif r < 0.60:
                steps.append(mkstep(rng.choice(POOL_EXH[:16])))
            else:
                steps.append(mkstep((rng.choice(list(CALLS)), rng.choice(BASES5))))
        hs_rand.append((rng.choice(inits), steps))
    # CLI matrix (both tiers): every (CLI mode, hash kind) after every kind of prefix, from every initial state
    prefixes = [[], [("content:C1", "none")], [("ext:noncanon", None)], [("ext:delete", None)], [("changes:CH2", "current")]]
    n_cli = 0
    for init in INITS:
        for pre in prefixes:
            for op in CLI_OPS:
                for b in BASES5:
                    hs.append((init, [mkstep(p) for p in pre] + [mkstep((op, b))]))
                    n_cli += 1
    # seeds of the metadata-fault stream: one call from every initial state, every API / mode, with and without base_hash
    seed_ops = ["content:C1", "content:C2", "changes:CH1", "normalize", "atomic:C2", "cli-content:C1", "cli-changes:CH1"]
    for init in INITS:
        for op in seed_ops:
            for b in ("none", "current"):
                hs.append((init, [mkstep((op, b))]))
    # leak stream (both tiers): a call that must leave no trace -- corrections_only, or a call that FAILS (injected failure of
    # os.replace / of the data write, or a refused base_hash) -- FOLLOWED by a successful call with a DIFFERENT request on the
    # same unchanged content; all modes, with/without base_hash, with/without mutations.  Run on a fresh tool per call, on one
    # tool per history, on one long-lived tool per session, and (session) with the two calls in different sandboxes.
    firsts = [{"op": op, "base": b} for op in ("dry:CH1", "dry:CH2", "dry:C2", "dry:normalize", "dry:CH1+M1") for b in ("none", "current")]
    for op in ("changes:CH1", "changes:CH1+M1", "content:C1", "content:C1+M1", "normalize"):
        for b in ("none", "current"):
            firsts.append({"op": op, "base": b, "fault": {"name": "replace", "occ": 0, "errno": c16.ERRNOS["EIO"]}})
            firsts.append({"op": op, "base": b, "fault": {"name": "write", "occ": 0, "errno": c16.ERRNOS["ENOSPC"]}})
    firsts.append({"op": "changes:CH1", "base": "garbage"})
    seconds = [{"op": op, "base": b} for op in ("changes:CH2", "changes:CH2+M2", "changes:CH1", "content:C2", "content:C2+M2", "normalize")
               for b in ("none", "current")]
    leak_same, leak_cross = [], []
    for init in ("existing", "noncanon"):
        for f1 in firsts:
            for s2 in seconds:
                if f1["op"].replace("dry:", "changes:") == s2["op"]:
                    continue
                leak_same.append((init, [f1, s2]))
                leak_cross += [(init, [f1]), (init, [s2])]
    ps, pc = 6, (7 if ctx.quick() else 40)
    chunks = pack(hs, "history", have_model, ps, pc)
    modes = ("fresh", "history", "session")
    third = (len(hs_rand) + 2) // 3
    for mi, mode in enumerate(modes):
        chunks += pack(hs_rand[mi * third:(mi + 1) * third], mode, have_model, ps, pc)
        chunks += pack(leak_same, mode, have_model, ps, pc)
    chunks += pack(leak_cross, "session", have_model, 2, pc * 3)
    ctx.extra["leak_stream"] = {"two_call_histories_per_instance_mode": len(leak_same), "cross_sandbox_sessions": len(leak_cross) // 2,
                                "non_altering_first_calls": len(firsts), "second_calls": len(seconds)}
    hs = hs + hs_rand + leak_same * 3 + leak_cross
    meta_seeds = {}
    for summ in pool.imap_unordered(_hist_chunk, chunks):
        _merge(ctx, summ)
        for init_name, st, mops in summ["meta"]:
            meta_seeds[(init_name, st["op"], st["base"])] = mops
    # metadata-fault stream: every occurrence of a chmod/fchmod/lchmod/utime/chown-like call of such a call fails with
    # EPERM / EACCES / EROFS / ENOENT; the call is followed by the writer's RETRY with the very same base_hash.
    # error => whole sandbox (bytes AND modes) unchanged; the retry must then behave as the register says (not E_HASH against
    # the writer's own content)
    fh = []
    for (init_name, op, b), mops in sorted(meta_seeds.items()):
        for name, occ in mops:
            for e in META_ERRNOS.values():
                first = {"op": op, "base": b, "fault": {"name": name, "occ": occ, "errno": e}}
                fh.append((init_name, [first, {"op": op, "base": "same"}]))
                fh.append((init_name, [{"op": "ext:C1", "base": None}, first, {"op": op, "base": "same"}]))
    for summ in pool.imap_unordered(_hist_chunk, pack(fh, "history", have_model, ps, pc)):
        _merge(ctx, summ)
    ctx.extra["histories"] = len(hs) + len(fh)
    ctx.extra["cli_matrix_histories"] = n_cli
    ctx.extra["metadata_fault_histories"] = {"seed_calls_with_a_metadata_op": len(meta_seeds), "faulted_histories": len(fh),
                                             "metadata_ops_seen": sorted({n for m in meta_seeds.values() for n, _ in m})}

    # ---- two writers --------------------------------------------------------------------------------------------------
    merges = all_merges()
    witness = None
    model_sched = {}
    if have_model:
        mlist = run_driver("fsw", ["merges", "witness"])
        mm = mlist[0].split(",")
        witness = mlist[1]
        if sorted(mm) != sorted("".join("1" if x else "0" for x in b) for b in merges):
            ctx.correspondence_failure({"merges": len(mm)}, "the model's merges 6 6 differ from the harness' enumeration")
        outs = run_driver("fsw", ["sched " + b for b in mm])
        for b, o in zip(mm, outs):
            f = o.split()
            model_sched[b] = {"both": f[0] == "1", "window": f[1] == "1", "file": f[2]}
            if (f[1] == "1") != in_window([c == "1" for c in b]):
                ctx.correspondence_failure({"bits": b}, "in_window: harness and model disagree")
    if witness is None:
        witness = "000011110011"
    stasks = []
    for n, c in sched_corpus:
        stasks.append((c.get("config", "content/content"), [x == "1" for x in c["bits"]], bool(c.get("procs"))))
    n_corpus_sched = len(stasks)
    cfgs = list(THREAD_CONFIGS)
    if ctx.quick():
        inw = [m for m in merges if in_window(m)]
        outw = [m for m in merges if not in_window(m)]
        sel = rng.sample(inw, 30) + rng.sample(outw, 30)
        wbits = [c == "1" for c in witness]
        serial = [[False] * 6 + [True] * 6, [True] * 6 + [False] * 6]
        for i, m in enumerate(sel + [wbits] + serial):
            stasks.append((cfgs[i % len(cfgs)], m, False))
        for cfg in cfgs:
            stasks.append((cfg, wbits, False))
        for m in rng.sample(outw, 6) + [wbits]:
            stasks.append(("content/content", m, True))
        for m in rng.sample(inw, 8) + rng.sample(outw, 4) + [wbits]:
            stasks.append(("cli/cli", m, True))
    else:
        for cfg in cfgs:
            for m in merges:
                stasks.append((cfg, m, False))
        for m in merges:
            stasks.append(("content/content", m, True))
            stasks.append(("atomic/atomic", m, True))
            stasks.append(("cli/cli", m, True))
    sres = pool.map(_sched_task, stasks, chunksize=4)
    canon_of = {"content/content": (WA, WB), "atomic/atomic": (WA, WB)}
    n_both = n_sched = 0
    both_outside = 0
    for i, r in enumerate(sres):
        case = {"kind": "sched", "config": r["cfg"], "bits": r["bits"], "procs": r["procs"]}
        if "harness" in r:
            ctx.correspondence_failure(case, "harness: " + r["harness"])
            continue
        n_sched += 1
        ctx.count()
        ctx.nontrivial(("sched", r["cfg"], r["bits"], r["procs"]))
        bits = [c == "1" for c in r["bits"]]
        win = in_window(bits)
        ra, rb = r["results"].get("A") or {}, r["results"].get("B") or {}
        case["results"] = {"A": ra, "B": rb}
        case["log"] = r["log"]

        def ok(x):
            return "env" in x and x["env"]["status"] == "success"
        both = ok(ra) and ok(rb)
        ctx.hist("sched_config", r["cfg"] + ("/procs" if r["procs"] else "/threads"))
        ctx.hist("sched_window", "in_window" if win else "outside")
        ctx.hist("sched_outcome", "both" if both else ("one" if ok(ra) or ok(rb) else "none"))
        if both:
            n_both += 1
            fid = FINDING_WINDOW if win else None
            if not win:
                both_outside += 1
            ctx.property_failure(case, "two-writers-both-succeed: two writers holding the same base_hash both returned success"
                                 + (" (schedule in the re-read->replace window)" if win else " OUTSIDE the re-read->replace window"), finding=fid)
            if i < n_corpus_sched or r["bits"] == witness:
                witness_fail[FINDING_WINDOW] = True
        # each loser must be a clean E_HASH, nothing left behind
        for who, x in (("A", ra), ("B", rb)):
            if not ok(x):
                if "env" not in x or x["env"].get("code") != "E_HASH":
                    ctx.correspondence_failure(case, f"writer {who} failed with {x} (model: E_HASH)")
        # whatever the interleaving: the file holds the text of a writer that reported success (its canonical_hash), or, when
        # nobody succeeded, the old bytes -- never the text of a writer that returned an error, never a mixture
        fhash = None if r["final"] is None else sha(r["final"])
        okh = [x["env"]["hash"] for x in (ra, rb) if ok(x)]
        if (okh and fhash not in okh) or (not okh and fhash != sha(NONCANON)):
            ctx.property_failure(case, f"two-writers-foreign-content: after both writers finished the file hashes to {str(fhash)[:12]}, "
                                       f"successful writers returned {[h_[:12] for h_ in okh]} (results A={ra.get('env')}, B={rb.get('env')}): "
                                       "a writer that returned an error changed the file, or a success did not install its own text")
        if r["listing"] != ["d/f.oct.md", "d/other.txt"]:
            ctx.property_failure(case, f"error-changed: after both writers finished the directory holds {r['listing']} (a failed writer left a file behind)")
        m = model_sched.get(r["bits"])
        if m is not None:
            if m["both"] != both:
                ctx.correspondence_failure(case, f"both_succeed: impl {both} model {m['both']} (in_window {m['window']})")
            # final content: 97 = writer A's text, 98 = writer B's, 111 = the old file
            fh = None if r["final"] is None else sha(r["final"])
            if m["file"] == "111":
                if ok(ra) or ok(rb) or fh != sha(NONCANON):
                    ctx.correspondence_failure(case, "final content: model says nobody wrote, impl differs")
            else:
                wres = ra if m["file"] == "97" else rb
                if not ok(wres) or fh != wres["env"]["hash"]:
                    ctx.correspondence_failure(case, f"final content: model says writer {'A' if m['file'] == '97' else 'B'} wrote last; "
                                                     f"impl result {wres}, file hash {fh}")
    ctx.extra["two_writers"] = {"schedules_run": n_sched, "both_succeed": n_both, "both_succeed_outside_window": both_outside,
                                "model_merges": len(model_sched), "model_window": sum(1 for v in model_sched.values() if v["window"])}

    for fid in ctx.known:
        ctx.finding_witness(fid, bool(witness_fail.get(fid)))
    if os.environ.get("VERIF_DEBUG_DUMP"):
        with open(os.environ["VERIF_DEBUG_DUMP"], "w") as f:
            json.dump({"corr": ctx.corr_failures, "prop": ctx.prop_failures}, f, default=str)
    ctx.extra["rule"] = (
        "one evaluation = one step of a history (a real call or an external modification, followed by envelope + file + full-"
        "snapshot comparison) or one two-writer schedule; distinct = distinct (initial state, history) / (writer config, schedule, "
        "threads|processes). Histories: "
        + ("3000 random, length 1..5" if ctx.quick() else "exhaustive length<=4 over 18 ops (4 call kinds x 4 base kinds + 2 external) from "
           "an existing file, + 50000 random of length 5")
        + " over 4 initial states (existing / absent / missing parent / non-canonical), op pool = 14 call kinds (execute x 3 modes, dry, "
          "atomic_write_octave, CLI --content / --changes) x {none,current,stale,future,garbage} + 6 external modifications; + CLI matrix (4 "
          "inits x 5 prefixes x 4 CLI ops x 5 hash kinds); + metadata-fault stream (every chmod-like call occurrence of 56 seed calls x "
          "{EPERM,EACCES,EROFS,ENOENT}, followed by the retry with the same base_hash); + leak stream (31 non-altering first calls [dry / "
          "failed under an injected failure / refused hash] x 12 different successful second calls x 2 initial contents, on a fresh tool per "
          "call, one tool per history, one long-lived tool per session, and across two sandboxes). Random histories are split over the three "
          "tool-instance modes; histories are run 6 per child process (a failure's replay is the session prefix). Schedules: " + ("30 in-window + 30 outside sampled merges + model witness + 2 serial, 4 writer configs, threads; 7 with processes"
                                                   if ctx.quick() else "all 924 merges x 4 writer configs (threads) + 924 x 2 configs (processes)"))


def replay(ctx, case):
    c = case.get("case", case)
    scratch = tempfile.mkdtemp(prefix="c17r_")
    c16._SCRATCH = scratch
    c16._SERVER_ARGS = ("--c17",)
    try:
        oracle_closure(ctx)
        if c.get("kind") == "sched":
            r = _sched_task((c["config"], [x == "1" for x in c["bits"]], bool(c.get("procs"))))
            print(json.dumps(r, indent=1, default=str))
            both = all("env" in r["results"].get(w, {}) and r["results"][w]["env"]["status"] == "success" for w in ("A", "B"))
            return 1 if both else 0
        def ini(x):
            return x if isinstance(x, str) else {"target": x["target"], "fs": [tuple(y) for y in x["fs"]]}
        if "session" in c:
            sess = [(ini(h["init"]), h["steps"]) for h in c["session"]]
        else:
            sess = [(ini(c["init"]), c["steps"])]
        summ = _hist_chunk(([sess], False, c.get("instance", "history")))
        print(json.dumps({"violations": [(w, f) for _, w, f in summ["prop"]], "other": [w for _, w in summ["corr"]]}, indent=1))
        return 1 if summ["prop"] else 0
    finally:
        if c16._SERVER is not None:
            c16._SERVER.close()
            c16._SERVER = None
        shutil.rmtree(scratch, ignore_errors=True)
