"""C06 -- results depend only on the input: same bytes in, same bytes out, everywhere.

Coq side (Properties/C06.v): no mutable module state, no unordered iteration, no ambient inputs over the generated
inventory; server state machine with history/interleaving independence; permutation invariance of the sorted
reports; schema lookup vs cwd (restricted + refuted).

This module carries the RUNTIME clause (processes, hash seeds, cwd, locale, history, asyncio scheduling): the same
generated tool calls are executed by worker processes of the real implementation under every configuration and the
JSON-serialised envelopes are compared byte for byte (only routing timestamps masked, temp dir prefix normalised).

The worker is this same file run as a script (`python c06.py --worker job.json out.json`) with PYTHONPATH=/repo/src
only; the top of the file therefore imports nothing but the standard library.
"""
from __future__ import annotations

import hashlib
import json
import random
import os
import re
import shutil
import subprocess
import sys
import tempfile
import time

LEVEL = "proof"
DRIVERS = []

PY = "/venv/bin/python"
REPO_SRC = os.path.join(os.environ.get("VERIF_REPO", "/repo"), "src")   # the tree under test (the check's VERIF_REPO)
TMP_TOKEN = "<TMP>"
ADDR_RE = re.compile(r"0x[0-9a-fA-F]{6,16}")

# =====================================================================================================================
# WORKER (runs with PYTHONPATH=/repo/src; no harness imports)
# =====================================================================================================================

def _subst(obj, tmp):
    if isinstance(obj, str):
        return obj.replace(TMP_TOKEN, tmp)
    if isinstance(obj, list):
        return [_subst(x, tmp) for x in obj]
    if isinstance(obj, dict):
        return {k: _subst(v, tmp) for k, v in obj.items()}
    return obj


def _mask_ts(env):
    """The ONLY masked fields: routing_log[*].timestamp (core/routing.py RoutingLog.add: datetime.now)."""
    if isinstance(env, dict) and isinstance(env.get("routing_log"), list):
        for e in env["routing_log"]:
            if isinstance(e, dict) and "timestamp" in e:
                e["timestamp"] = "<TS>"
    return env


_SELFTEST_COUNTER = [0]


def _worker_main(jobfile, outfile):
    import asyncio
    job = json.loads(open(jobfile, encoding="utf-8").read())
    tmp = job["tmp"]
    selftest = os.environ.get("C06_SELFTEST", "")
    from octave_mcp.mcp.compile_grammar import CompileGrammarTool
    from octave_mcp.mcp.eject import EjectTool
    from octave_mcp.mcp.validate import ValidateTool
    from octave_mcp.mcp.write import WriteTool
    # long-lived tool objects, as in server.create_server()
    tools = {"validate": ValidateTool(), "write": WriteTool(), "eject": EjectTool(), "compile_grammar": CompileGrammarTool()}

    def prepare(call):
        for rel, content in (call.get("pre") or {}).items():
            p = rel.replace(TMP_TOKEN, tmp)
            os.makedirs(os.path.dirname(p), exist_ok=True)
            with open(p, "w", encoding="utf-8", newline="") as f:
                f.write(content)

    async def one(call):
        try:
            env = await tools[call["tool"]].execute(**_subst(call["args"], tmp))
        except BaseException as e:  # raising is C20's concern; the TYPE must still be the same everywhere
            if isinstance(e, (KeyboardInterrupt, SystemExit)):
                raise
            return "EXC:" + type(e).__name__
        try:
            env = _mask_ts(env)
            if selftest == "1":      # hash-seed dependent output (iteration order of a set of strings)
                env["_selftest"] = ",".join({"alpha", "beta", "gamma", "delta", "epsilon", "zeta"})
            elif selftest == "2":    # history dependent output (module-level counter)
                _SELFTEST_COUNTER[0] += 1
                env["_selftest"] = _SELFTEST_COUNTER[0]
            elif selftest == "3":    # cwd dependent output
                env["_selftest"] = os.getcwd() == "/"
            s = json.dumps(env, sort_keys=True, ensure_ascii=True)
        except Exception as e:
            return "EXC-SERIALISE:" + type(e).__name__
        return s.replace(tmp, TMP_TOKEN)

    async def main():
        out = {}
        for call in job.get("history", []):
            prepare(call)
            await one(call)
        calls = job["calls"]
        order = job["order"]
        if job["sched"] == "gather":
            for i in range(0, len(order), 8):
                grp = order[i:i + 8]
                for k in grp:
                    prepare(calls[k])
                res = await asyncio.gather(*[one(calls[k]) for k in grp])
                for k, r in zip(grp, res):
                    out[str(calls[k]["id"])] = r
        else:
            for k in order:
                prepare(calls[k])
                out[str(calls[k]["id"])] = await one(calls[k])
        return out

    out = asyncio.run(main())
    meta = {"hashseed_env": os.environ.get("PYTHONHASHSEED"), "cwd": os.getcwd(), "lang": os.environ.get("LANG"),
            "lc_all": os.environ.get("LC_ALL"), "utf8_mode": sys.flags.utf8_mode,
            "preferred_encoding": __import__("locale").getpreferredencoding(False), "hash_abc": hash("abc")}
    with open(outfile, "w", encoding="utf-8") as f:
        json.dump({"results": out, "meta": meta}, f)


if __name__ == "__main__" and len(sys.argv) == 4 and sys.argv[1] == "--worker":
    _worker_main(sys.argv[2], sys.argv[3])
    sys.exit(0)

# =====================================================================================================================
# GENERATORS (ctx.rng is the only source of randomness)
# =====================================================================================================================
SCHEMAS = ["META", "SKILL", "TEST_HOLOGRAPHIC", "DEBATE_TRANSCRIPT"]
SCHEMA_BLOCK = {"TEST_HOLOGRAPHIC": "TEST_HOLOGRAPHIC", "DEBATE_TRANSCRIPT": "DEBATE_TRANSCRIPT", "SKILL": "SKILL_SCHEMA",
                "META": "META_SCHEMA"}
WORDS = ["alpha", "beta", "Gamma", "delta_1", "x", "ACTIVE", "active", "DRAFT", "fixed", "mediated", "Wind", "Wall", "Door",
         "caf\u00e9", "na\u00efve", "\u65e5\u672c", "a-b", "v1.2", "true", "null", "42", "-7", "3.14", "1e3"]
HOLOS = ['["x"\u2227REQ\u2192\u00a7SELF]', '["ACTIVE"\u2227REQ\u2227ENUM[DRAFT,ACTIVE]]', '["v"\u2227OPT]',
         '["id-1"\u2227REQ\u2227REGEX["^[a-z]+$"]\u2192\u00a7INDEXER]', '[4\u2227OPT\u2227TYPE[NUMBER]\u2192\u00a7SELF]']


def g_scalar(r):
    k = r.random()
    if k < 0.30:
        return r.choice(WORDS)
    if k < 0.50:
        return '"' + " ".join(r.choice(WORDS) for _ in range(r.randint(1, 4))) + '"'
    if k < 0.62:
        return str(r.randint(-1000, 10**r.randint(1, 12)))
    if k < 0.70:
        return repr(round(r.uniform(-1e3, 1e3), r.randint(1, 6)))
    if k < 0.78:
        return r.choice(["true", "false", "null"])
    if k < 0.88:
        return "[" + ",".join(r.choice(WORDS) for _ in range(r.randint(0, 5))) + "]"
    if k < 0.93:
        return "[" + ",".join(f"K{i}::{r.choice(WORDS)}" for i in range(r.randint(1, 3))) + "]"
    if k < 0.97:
        return r.choice(WORDS) + r.choice(["\u2192", "->", "\u2295", "+", "\u21cc", " vs "]) + r.choice(WORDS)
    return '"esc \\"q\\" \\\\ \\n tab\\t"'


def g_fields(r, indent, feats, holo_p):
    lines = []
    n = r.randint(0, 6)
    keys = r.sample(["ALPHA", "BETA", "STATUS", "RISKS", "DECISIONS", "TESTS", "CI", "DEPS", "NAME", "ID", "Z_LAST", "A_FIRST",
                     "TOPIC", "MODE", "OPTIONAL_FIELD", "TYPE", "VERSION"], n)
    for k in keys:
        if r.random() < holo_p:
            feats.add("holographic")
            h = r.choice(HOLOS)
            k3 = r.random()
            if k3 < 0.6:
                lines.append(f"{indent}{k}::{h}")
            elif k3 < 0.8:
                feats.add("holographic_in_list")
                lines.append(f"{indent}{k}::[{r.choice(WORDS[:13])},{h}]")
            else:
                feats.add("holographic_in_list")
                lines.append(f"{indent}{k}::[[{h}],[K0::{h}]]")
        elif r.random() < 0.06:
            feats.add("literal_zone")
            tag = r.choice(["", "python", "json"])
            lines += [f"{indent}{k}::", f"{indent}```{tag}", f"{indent}raw \u2192 text {r.randint(0, 9)}", f"{indent}```"]
        else:
            lines.append(f"{indent}{k}::{g_scalar(r)}")
        if r.random() < 0.08:
            feats.add("comment")
            lines.append(f"{indent}// note {r.randint(0, 99)}")
    return lines


def g_schema_block(r, schema, feats):
    """A block named like the schema's own name so that section validation / routing really runs."""
    name = SCHEMA_BLOCK[schema]
    feats.add("schema_block:" + schema)
    fields = []
    if schema == "TEST_HOLOGRAPHIC":
        fields = [("NAME", r.choice(['"n1"', "nm", "12"])), ("STATUS", r.choice(["ACTIVE", "DRAFT", "active", "BOGUS"])),
                  ("OPTIONAL_FIELD", r.choice(['"o"', "null", "[a,b]"]))]
    elif schema == "DEBATE_TRANSCRIPT":
        fields = [("THREAD_ID", r.choice(['"t-1"', "t2"])), ("TOPIC", r.choice(['"the topic"', "topic", HOLOS[0]])),
                  ("MODE", r.choice(["fixed", "mediated", "Fixed", "other"])), ("STATUS", r.choice(["active", "closed", "ACTIVE"])),
                  ("PARTICIPANTS", r.choice(["[Wind,Wall,Door]", "[Wind]", "Wind"])), ("TURNS", r.choice(["[t1,t2]", "[]", "3"])),
                  ("SYNTHESIS", '"s"'), ("MAX_ROUNDS", r.choice(["4", '"4"', "four"])), ("MAX_TURNS", r.choice(["12", "1.5"]))]
    elif schema == "SKILL":
        fields = [("TYPE", r.choice(["SKILL", "skill", "OTHER"])), ("VERSION", r.choice(['"1.0"', "1.0"])),
                  ("STATUS", r.choice(["ACTIVE", "draft", "X"]))]
    else:
        fields = [("TYPE", r.choice(['"T"', "T"])), ("VERSION", '"1"'), ("STATUS", r.choice(["ACTIVE", "NOPE"]))]
    fields = [f for f in fields if r.random() < 0.85]
    if any(v == HOLOS[0] for _, v in fields):
        feats.add("holographic")
    # unknown fields, several, in random order (the validator reports them from a set difference)
    for u in r.sample(["ZETA", "EXTRA_B", "EXTRA_A", "MU", "AA", "Q9", "OMEGA", "B_2"], r.randint(0, 5)):
        feats.add("unknown_fields")
        fields.append((u, g_scalar(r)))
    r.shuffle(fields)
    return [f"{name}:"] + [f"  {k}::{v}" for k, v in fields]


def g_doc(r, feats, schema=None, holo_p=0.05):
    """-> text of a (mostly well-formed) OCTAVE document."""
    lines = []
    if r.random() < 0.10:
        feats.add("frontmatter")
        lines += ["---", f"name: skill-{r.randint(0, 9)}", "description: d", "allowed-tools: [a, b]", "---"]
    if r.random() < 0.15:
        feats.add("grammar_sentinel")
        lines.append("OCTAVE::5.1.0")
    lines.append(f"==={r.choice(['DOC', 'D', 'MY_DOC', 'SESSION_1'])}===")
    if r.random() < 0.7:
        feats.add("meta")
        lines.append("META:")
        metas = []
        if r.random() < 0.85:
            metas.append(("TYPE", r.choice(['"SESSION"', "LOG", "SKILL", '"T"', "7"])))
        if r.random() < 0.85:
            metas.append(("VERSION", r.choice(['"1.0"', '"2"', "1.0", "3"])))
        if r.random() < 0.5:
            metas.append(("STATUS", r.choice(["ACTIVE", "DRAFT", "active", "Draft", "BOGUS", "7"])))
        if r.random() < 0.25:
            metas.append((r.choice(["OWNER", "EXTRA", "ZED", "ABC"]), g_scalar(r)))
        if r.random() < 0.06:
            feats.add("contract")
            metas.append(("CONTRACT", r.choice(['[FIELD[NAME]::REQ,FIELD[STATUS]::REQ\u2227ENUM[A,B]]', '[FIELD[A_B]::OPT]'])))
        if r.random() < holo_p * 2:
            feats.add("holographic")
            feats.add("holographic_meta_value")
            metas.append((r.choice(["PATTERN", "SHAPE"]), r.choice([r.choice(HOLOS), "[" + r.choice(HOLOS) + ",a]", "[a,[" + r.choice(HOLOS) + "]]"])))
        r.shuffle(metas)
        lines += [f"  {k}::{v}" for k, v in metas]
        if r.random() < 0.18:
            # nested META block (parse_meta_block -> plain dict) with lists / lists of maps / holographic values / scalars
            feats.add("nested_meta")
            for nk in r.sample(["N", "NOTES", "N2"], r.randint(1, 2)):
                lines.append(f"  {nk}:")
                for fk in r.sample(["L", "H", "S", "M", "E", "I"], r.randint(1, 4)):
                    k2 = r.random()
                    if k2 < 0.35:
                        items = [r.choice(WORDS[:13]) for _ in range(r.randint(0, 3))]
                        if r.random() < holo_p * 4:
                            feats.add("holographic")
                            items.insert(r.randint(0, len(items)), r.choice(HOLOS))
                        lines.append(f"    {fk}::[{','.join(items)}]")
                    elif k2 < 0.5:
                        feats.add("holographic")
                        lines.append(f"    {fk}::{r.choice(HOLOS)}")
                    elif k2 < 0.6:
                        lines.append(f"    {fk}::[[k::{r.choice(WORDS[:13])}],{r.choice(WORDS[:13])}]")
                    else:
                        lines.append(f"    {fk}::{g_scalar(r)}")
    if r.random() < 0.2:
        feats.add("separator")
        lines.append("---")
    nsec = r.randint(0, 4)
    for i in range(nsec):
        k = r.random()
        if schema in SCHEMA_BLOCK and k < 0.45:
            lines += g_schema_block(r, schema, feats)
        elif k < 0.55:
            lines += g_fields(r, "", feats, holo_p)
        elif k < 0.80:
            feats.add("block")
            lines.append(r.choice(["CONFIG", "STATUS", "RISKS", "TESTS", "DEPS", "DETAILS", "POLICY", "FIELDS"]) + ":")
            sub = g_fields(r, "  ", feats, holo_p * 2)
            lines += sub if sub else ["  K::1"]
            if r.random() < 0.3:
                lines.append("  NESTED:")
                lines += g_fields(r, "    ", feats, holo_p) or ["    K::2"]
        else:
            feats.add("section")
            sid = r.choice(["1", "2", "2b", "10", "CONTEXT"])
            lines.append(f"\u00a7{sid}::{r.choice(['INTRO', 'LOCAL', 'BODY'])}")
            lines += g_fields(r, "  ", feats, holo_p) or ["  K::3"]
    if r.random() < 0.9:
        lines.append("===END===")
    return "\n".join(lines) + ("\n" if r.random() < 0.9 else "")


def g_lenient_doc(r, feats):
    feats.add("lenient_spelling")
    t = g_doc(r, feats)
    t = t.replace("\u2192", "->").replace("\u2295", "+").replace("::", r.choice(["::", " :: ", ":: "]))
    if r.random() < 0.3:
        t = "```octave\n" + t + "```\n"
    if r.random() < 0.2:
        t = t.replace("===END===", "")
    return t


def g_broken_doc(r, feats):
    feats.add("unparseable")
    return r.choice([
        "===D===\n\tTAB::1\n===END===\n", "===D===\nA::[1,2\n===END===\n", "===D===\nA::]\n===END===\n", "A: b c : d ::\n:::\n",
        "===D===\nA:1\n===END===\n", "\x00\x01", "===D===\nA::\"unterminated\n===END===\n", "plain prose without structure.",
        "===D===\nK::v\n===END===\n===E===\nK::w\n===END===\n", "", "   \n\n", "===D===\n  K::1\n K::2\n   K::3\n===END===\n",
        "===D===\nA::{x}\nB::FOO{bar}\n===END===\n", "===D===\n" + "X:\n" * 3 + "===END===\n",
        "===D===\nA::```\nfence\n```\n===END===\n", "===D===\nA::\n```\nnever closed\n===END===\n"])


def g_any_doc(r, feats, schema=None, holo_p=0.05):
    k = r.random()
    if k < 0.78:
        return g_doc(r, feats, schema, holo_p)
    if k < 0.90:
        return g_lenient_doc(r, feats)
    return g_broken_doc(r, feats)


def g_schema_name(r):
    k = r.random()
    if k < 0.85:
        return r.choice(SCHEMAS)
    return r.choice(["NOPE", "UNKNOWN_SCHEMA", "meta", "../x", "", "A B", "SESSION_LOG"])


def g_call(r, cid):
    """-> call dict {id, tool, args, pre, feats}.  Paths are under <TMP>/ and unique per call id."""
    feats = set()
    tool = r.choice(["validate", "validate", "write", "write", "eject", "eject", "compile_grammar"])
    args, pre = {}, {}
    if tool == "validate":
        schema = g_schema_name(r)
        args["schema"] = schema
        doc = g_any_doc(r, feats, schema if schema in SCHEMAS else None)
        k = r.random()
        if k < 0.75:
            args["content"] = doc
        elif k < 0.93:
            p = f"{TMP_TOKEN}/v{cid}/doc{r.choice(['.oct.md', '.octave', '.md', '.txt'])}"
            args["file_path"] = p
            if r.random() < 0.9:
                pre[p] = doc
        elif k < 0.97:
            args["content"] = doc
            args["file_path"] = f"{TMP_TOKEN}/v{cid}/x.oct.md"
        for flag in ("fix", "debug_grammar", "grammar_hint", "diff_only", "compact"):
            if r.random() < 0.3:
                args[flag] = r.random() < 0.8
        if r.random() < 0.6:
            args["profile"] = r.choice(["STRICT", "STANDARD", "LENIENT", "ULTRA", "strict", "lenient", "BOGUS", ""])
    elif tool == "write":
        p = f"{TMP_TOKEN}/w{cid}/{r.choice(['out', 'sub/dir/out', 'o-1'])}{r.choice(['.oct.md', '.oct.md', '.octave', '.md', '.json'])}"
        args["target_path"] = p
        mode = r.choice(["content", "content", "content", "changes", "normalize", "both"])
        feats.add("write_mode:" + mode)
        schema = g_schema_name(r) if r.random() < 0.55 else None
        if schema is not None:
            args["schema"] = schema
        existing = g_doc(r, feats, schema if schema in SCHEMAS else None, holo_p=0.02)
        if mode in ("content", "both"):
            args["content"] = g_any_doc(r, feats, schema if schema in SCHEMAS else None)
            if r.random() < 0.4:
                pre[p] = existing
        if mode in ("changes", "both"):
            ch = {}
            for _ in range(r.randint(1, 3)):
                key = r.choice(["ALPHA", "STATUS", "META.STATUS", "META.VERSION", "NEWKEY", "CONFIG"])
                ch[key] = r.choice(["v", 3, 2.5, True, None, ["a", "b"], {"$op": "DELETE"}, "multi word value"])
            args["changes"] = ch
            if r.random() < 0.9:
                pre[p] = existing
        if mode == "normalize" and r.random() < 0.9:
            pre[p] = r.choice([existing, g_lenient_doc(r, feats)])
        if r.random() < 0.25:
            args["mutations"] = {r.choice(["STATUS", "OWNER", "VERSION"]): r.choice(["ACTIVE", "me", "9"])}
        if p in pre and r.random() < 0.35:
            good = hashlib.sha256(pre[p].encode("utf-8")).hexdigest()
            args["base_hash"] = good if r.random() < 0.6 else "0" * 64
        for flag in ("lenient", "corrections_only", "debug_grammar", "grammar_hint"):
            if r.random() < 0.35:
                args[flag] = r.random() < 0.85
        if r.random() < 0.3:
            args["parse_error_policy"] = r.choice(["error", "salvage", "salvage", "bogus"])
    elif tool == "eject":
        args["schema"] = g_schema_name(r)
        if r.random() < 0.93:
            args["content"] = g_any_doc(r, feats, None, holo_p=0.10)
        else:
            args["content"] = None
        if r.random() < 0.85:
            args["mode"] = r.choice(["canonical", "authoring", "executive", "developer", "bogus"])
        if r.random() < 0.9:
            args["format"] = r.choice(["octave", "json", "yaml", "markdown", "gbnf", "octave", "markdown", "bogus"])
    else:
        k = r.random()
        if k < 0.45:
            args["schema"] = g_schema_name(r)
        elif k < 0.92:
            feats.add("inline_schema")
            if r.random() < 0.5:
                args["content"] = ("===S===\nMETA:\n  TYPE::" + r.choice(["SESSION", "X_Y"]) + "\n  VERSION::\"1.0\"\n  CONTRACT::" +
                                   r.choice(['[FIELD[NAME]::REQ,FIELD[STATUS]::REQ\u2227ENUM[A,B]]', '[FIELD[N]::OPT\u2227TYPE[NUMBER]]',
                                             '[FIELD[D]::REQ\u2227DATE]']) + "\n===END===\n")
            else:
                flds = r.sample(["NAME", "STATUS", "COUNT", "A_B", "WHEN", "TAGS", "CODE"], r.randint(1, 5))
                body = "\n".join(f"  {f}::" + r.choice(HOLOS + ['["d"\u2227REQ\u2227DATE]', '["a"\u2227OPT\u2227MAX_LENGTH[5]]',
                                                                   '[1\u2227REQ\u2227RANGE[1,10]]', '["c"\u2227CONST["c"]]'])
                                 for f in flds)
                args["content"] = "===MY_SCHEMA===\nPOLICY:\n  VERSION::\"1.0\"\n  UNKNOWN_FIELDS::" + r.choice(["REJECT", "WARN", "IGNORE"]) + \
                                  "\nFIELDS:\n" + body + "\n===END===\n"
        elif k < 0.96:
            args["content"] = g_broken_doc(r, feats)
        if r.random() < 0.05:
            args["schema"] = "META"
            args["content"] = "===D===\nK::1\n===END===\n"
        if r.random() < 0.8:
            args["format"] = r.choice(["gbnf", "json_schema", "gbnf", "bogus"])
    return {"id": cid, "tool": tool, "args": args, "pre": pre, "feats": sorted(feats)}


# =====================================================================================================================
# ORCHESTRATION
# =====================================================================================================================
SHADOW_META = ("===META===\nMETA:\n  TYPE::PROTOCOL_DEFINITION\n  VERSION::\"9.9.9\"\n\nPOLICY:\n  VERSION::\"1.0\"\n"
               "  UNKNOWN_FIELDS::REJECT\n\nFIELDS:\n  DECOY::[\"x\"\u2227REQ\u2192\u00a7SELF]\n===END===\n")


def make_cwds(root):
    """-> {'root': '/', 'empty': dir, 'decoy': dir, 'shadow': dir}"""
    empty = os.path.join(root, "cwd_empty")
    decoy = os.path.join(root, "cwd_decoy")
    shadow = os.path.join(root, "cwd_shadow")
    os.makedirs(empty)
    # decoy: unrelated specs/ and schemas/ trees with .oct.md files; none of them is a file the search order can reach
    # under a builtin schema name (specs/schemas/ holds only a schema no generated call names, except corpus witnesses)
    for rel, text in {
        "specs/notes.oct.md": "===NOTES===\nA::1\n===END===\n",
        "specs/other/meta.oct.md": SHADOW_META,
        "specs/schemas/decoy_only.oct.md": SHADOW_META.replace("===META===", "===DECOY_ONLY==="),
        "specs/schemas/readme.md": "not a schema\n",
        "schemas/meta.oct.md": SHADOW_META,
        "schemas/builtin/skill.oct.md": SHADOW_META,
        "resources/specs/schemas/test_holographic.oct.md": SHADOW_META,
        "meta.oct.md": SHADOW_META,
    }.items():
        p = os.path.join(decoy, rel)
        os.makedirs(os.path.dirname(p), exist_ok=True)
        open(p, "w", encoding="utf-8").write(text)
    # shadow: the witness of finding C06-cwd-schema-shadow (a cwd-relative search directory that DOES hold meta.oct.md)
    p = os.path.join(shadow, "specs", "schemas", "meta.oct.md")
    os.makedirs(os.path.dirname(p))
    open(p, "w", encoding="utf-8").write(SHADOW_META)
    return {"root": "/", "empty": empty, "decoy": decoy, "shadow": shadow}


def available_locales():
    try:
        out = subprocess.run(["locale", "-a"], stdout=subprocess.PIPE, text=True, timeout=20).stdout.split()
    except Exception:
        out = []
    norm = {x.lower().replace("-", "") for x in out}
    langs = ["C"]
    if "c.utf8" in norm:
        langs.append("C.UTF-8")
    if "en_us.utf8" in norm:
        langs.append("en_US.UTF-8")
    return langs


class Job:
    def __init__(self, name, cfg, calls, order, history, root):
        self.name, self.cfg, self.calls, self.order, self.history = name, cfg, calls, order, history
        self.dir = tempfile.mkdtemp(prefix="job_", dir=root)
        self.tmp = os.path.join(self.dir, "t")
        os.makedirs(self.tmp)
        self.home = os.path.join(self.dir, "home")
        os.makedirs(self.home)
        self.jobfile = os.path.join(self.dir, "job.json")
        self.outfile = os.path.join(self.dir, "out.json")
        self.proc = None

    def start(self):
        # only the calls this worker executes are shipped (results are keyed by call id)
        sub = [self.calls[k] for k in self.order]
        with open(self.jobfile, "w", encoding="utf-8") as f:
            json.dump({"tmp": self.tmp, "calls": sub, "order": list(range(len(sub))), "history": self.history,
                       "sched": self.cfg["sched"]}, f)
        env = {"PATH": "/usr/bin:/bin", "PYTHONPATH": REPO_SRC, "PYTHONDONTWRITEBYTECODE": "1",
               "PYTHONHASHSEED": str(self.cfg["seed"]), "LANG": self.cfg["lang"], "LC_ALL": self.cfg["lang"],
               "HOME": self.home, "OCTAVE_MCP_SKIP_SYNC": "1"}
        if os.environ.get("C06_SELFTEST"):
            env["C06_SELFTEST"] = os.environ["C06_SELFTEST"]
        self.errfile = os.path.join(self.dir, "stderr.txt")
        with open(self.errfile, "wb") as ef:
            self.proc = subprocess.Popen([PY, os.path.abspath(__file__), "--worker", self.jobfile, self.outfile],
                                         cwd=self.cfg["cwd"], env=env, stdout=subprocess.DEVNULL, stderr=ef)

    def finish(self):
        try:
            self.proc.wait(timeout=1500)
        except subprocess.TimeoutExpired:
            self.proc.kill()
            self.proc.wait()
            raise RuntimeError(f"worker {self.name} timed out")
        if self.proc.returncode != 0 or not os.path.exists(self.outfile):
            se = open(self.errfile, "rb").read().decode("utf-8", "replace")
            raise RuntimeError(f"worker {self.name} failed rc={self.proc.returncode}: {se[-800:]}")
        with open(self.outfile, encoding="utf-8") as f:
            d = json.load(f)
        return d["results"], d["meta"]


def run_jobs(jobs, par=16):
    """Start at most `par` workers at a time; -> {job.name: (results, meta)}"""
    out = {}
    pending = list(jobs)
    running = []
    while pending or running:
        while pending and len(running) < par:
            j = pending.pop(0)
            j.start()
            running.append(j)
        done = [j for j in running if j.proc.poll() is not None]
        if not done:
            time.sleep(0.02)
            continue
        for j in done:
            running.remove(j)
            out[j.name] = j.finish()
            shutil.rmtree(j.dir, ignore_errors=True)
    return out


# ---- classification of a difference ------------------------------------------------------------------------------------
def doc_of_call(call):
    a = call["args"]
    if isinstance(a.get("content"), str):
        return a["content"]
    fp = a.get("file_path") or a.get("target_path")
    if fp and fp in (call.get("pre") or {}):
        return call["pre"][fp]
    return None


def holo_info(call):
    """-> (has_holographic_value, set of field keys whose value contains one) using the real parser (lenient)."""
    texts = [t for t in [doc_of_call(call)] + list((call.get("pre") or {}).values()) if isinstance(t, str)]
    keys = set()
    try:
        from octave_mcp.core.ast_nodes import HolographicValue, InlineMap, ListValue
        from octave_mcp.core.parser import parse_with_warnings
    except Exception:
        return False, keys

    def has(v):
        if isinstance(v, HolographicValue):
            return True
        if isinstance(v, ListValue):
            return any(has(x) for x in v.items)
        if isinstance(v, InlineMap):
            return any(has(x) for x in v.pairs.values())
        if isinstance(v, dict):          # nested META block
            return any(has(x) for x in v.values())
        return False

    def walk(nodes):
        for n in nodes:
            if hasattr(n, "value") and has(n.value):
                keys.add(n.key)
            if hasattr(n, "children"):
                walk(n.children)

    for t in texts:
        try:
            doc, _ = parse_with_warnings(t)
            walk(doc.sections)
            for k, v in (doc.meta or {}).items():
                if has(v):
                    keys.add(k)
        except Exception:
            # unparseable as given: WriteTool may still salvage / unwrap it; fall back to a syntactic test
            if "\u2227" in t and "[" in t:
                keys.add("<syntactic>")
    return bool(keys), keys


def _mask_routing_hashes(s, keys):
    try:
        env = json.loads(s)
    except Exception:
        return s, False
    changed = False
    if isinstance(env, dict) and isinstance(env.get("routing_log"), list):
        for e in env["routing_log"]:
            if isinstance(e, dict) and str(e.get("source_path", "")).split(".")[-1] in keys:
                e["value_hash"] = "<HASH-OF-OBJECT-REPR>"
                changed = True
    return json.dumps(env, sort_keys=True, ensure_ascii=True), changed


def schema_shadowed(call, cwd_a, cwd_b):
    """The call names a schema for which a cwd-relative search directory of either cwd holds a file (loader.py order:
    <cwd>/src/octave_mcp/resources/specs/schemas, <cwd>/specs/schemas are searched before the package's schemas/builtin)
    and the package's resources/specs/schemas (searched first) does not."""
    name = call["args"].get("schema")
    if not isinstance(name, str) or not re.match(r"^[A-Z][A-Z0-9_]*$", name):
        return False
    fns = [name.lower() + ".oct.md", name + ".oct.md"]
    pkg_first = os.path.join(REPO_SRC, "octave_mcp", "resources", "specs", "schemas")
    if any(os.path.exists(os.path.join(pkg_first, f)) for f in fns):
        return False
    for cwd in (cwd_a, cwd_b):
        for sub in (("src", "octave_mcp", "resources", "specs", "schemas"), ("specs", "schemas")):
            if any(os.path.exists(os.path.join(cwd, *sub, f)) for f in fns):
                return True
    return False


def classify(call, a, b, cfg_a, cfg_b):
    """-> list of known-finding ids that TOGETHER explain the difference between envelopes a and b, or [] (unexplained)."""
    if a == b:
        return []
    if cfg_a["cwd"] != cfg_b["cwd"] and schema_shadowed(call, cfg_a["cwd"], cfg_b["cwd"]):
        return ["C06-cwd-schema-shadow"]
    has, keys = holo_info(call)
    if not has:
        return []
    ids = []
    a1, b1 = ADDR_RE.sub("0xADDR", a), ADDR_RE.sub("0xADDR", b)
    addr_needed = (a1 != a or b1 != b)
    a2, ch_a = _mask_routing_hashes(a1, keys)
    b2, ch_b = _mask_routing_hashes(b1, keys)
    if a1.startswith("EXC") or b1.startswith("EXC"):
        a2, b2 = a1, b1
    if a2 != b2:
        return []
    if a1 != b1 and (ch_a or ch_b):
        ids.append("C06-routing-hash-object-repr")
    if addr_needed and a != b and (a1 == b1 or ids):
        if ADDR_RE.search(a) or ADDR_RE.search(b):
            if call["tool"] == "eject":
                # octave_eject has NO listed object-repr finding any more (C06-eject-markdown-object-repr was repaired
                # by 88905cd: holographic values are shown as their pattern text): a memory address in an eject
                # envelope is an unexplained difference
                return []
            ids.append("C06-message-object-repr")
    return ids


def outcome_of(s):
    if s.startswith("EXC"):
        return s
    try:
        e = json.loads(s)
    except Exception:
        return "unparsed"
    st = e.get("status", "ok" if "output" in e else "?")
    vs = e.get("validation_status", "-")
    codes = ",".join(sorted({str(x.get("code")) for x in e.get("errors", []) if isinstance(x, dict)}))
    return f"{st}/{vs}" + (f"/{codes}" if codes else "")


TRIVIAL_CODES = {"E_INPUT", "E_PROFILE", "E_FORMAT"}


def load_corpus():
    from lib.core import VERIF
    out = []
    d = VERIF / "corpus" / "C06"
    if d.exists():
        for p in sorted(d.glob("*.json")):
            rec = json.loads(p.read_text(encoding="utf-8"))
            rec["_file"] = p.name
            out.append(rec)
    return out


def build_configs(ctx, cwds, langs):
    """The configuration matrix.  quick: 12 configurations covering every value of every axis; thorough: 36."""
    seeds = [0, 1, 4242, "random"]
    cw = ["root", "empty", "decoy"]
    full = []
    for s in seeds:
        for c in cw:
            for l in langs:
                for hist in ("fresh", "history"):
                    for sched in ("seq", "gather"):
                        full.append({"seed": s, "cwdname": c, "cwd": cwds[c], "lang": l, "hist": hist, "sched": sched})
    want = ctx.scale(12, 36)
    ref = {"seed": 0, "cwdname": "root", "cwd": cwds["root"], "lang": "C.UTF-8" if "C.UTF-8" in langs else langs[0],
           "hist": "fresh", "sched": "seq"}
    rest = [c for c in full if c != ref]
    ctx.rng.shuffle(rest)
    chosen = [ref]
    # greedy cover: prefer configurations that add unseen axis values / unseen pairs
    seen_pairs = set()

    def pairs(c):
        items = [("seed", c["seed"]), ("cwd", c["cwdname"]), ("lang", c["lang"]), ("hist", c["hist"]), ("sched", c["sched"])]
        return {(x, y) for i, x in enumerate(items) for y in items[i + 1:]} | {(x,) for x in items}

    seen_pairs |= pairs(ref)
    while len(chosen) < min(want, len(full)):
        best = max(rest, key=lambda c: len(pairs(c) - seen_pairs))
        rest.remove(best)
        chosen.append(best)
        seen_pairs |= pairs(best)
    return chosen



def shared_file_gather(ctx, root):
    """Task interleavings on ONE file: calls gathered on one event loop must give the results (and leave the bytes) that
    the same calls give when awaited one after the other -- execute() bodies have no suspension point, so calls served
    by one loop are serial in submission order."""
    import asyncio
    from octave_mcp.mcp.write import WriteTool
    base = "===D===\nSTATUS::DRAFT\nA::1\nB::2\n===END===\n"
    pool = [dict(changes={"STATUS": "ACTIVE"}), dict(changes={"A": 5}), dict(changes={"B": {"$op": "DELETE"}}), dict(changes={"C": [1, 2]}),
            dict(), dict(content="===D===\nSTATUS::DONE\nZ::9\n===END===\n"), dict(changes={"A": None}), dict(corrections_only=True, changes={"A": 7})]
    tool = WriteTool()

    async def run(calls, path, gathered):
        cs = [tool.execute(target_path=path, **c) for c in calls]
        if gathered:
            return await asyncio.gather(*cs, return_exceptions=True)
        out = []
        for c in cs:
            try:
                out.append(await c)
            except Exception as e:  # noqa
                out.append(e)
        return out

    def norm(envs, path):
        out = []
        for e in envs:
            if isinstance(e, BaseException):
                out.append("EXC:" + type(e).__name__)
            else:
                out.append(json.dumps(_mask_ts(e), sort_keys=True, default=str).replace(path, "<F>"))
        return out

    for t in range(ctx.scale(40, 600)):
        r = random.Random(ctx.rng.random())
        calls = [r.choice(pool) for _ in range(r.choice([2, 2, 3, 4]))]
        res = {}
        for mode in ("seq", "gather"):
            pth = os.path.join(root, f"shared_{t}_{mode}.oct.md")
            with open(pth, "w", encoding="utf-8", newline="") as f:
                f.write(base)
            envs = asyncio.run(run(calls, pth, mode == "gather"))
            with open(pth, encoding="utf-8", newline="") as f:
                res[mode] = (norm(envs, pth), f.read())
        ctx.count()
        ctx.nontrivial(("shared-file", json.dumps(calls, sort_keys=True)))
        if res["seq"] != res["gather"]:
            ctx.property_failure({"stream": "shared-file gather", "base": base, "calls": calls, "sequential": res["seq"], "gathered": res["gather"]},
                                 "octave_write calls gathered on one event loop against one file differ from the same calls awaited in order")


def run(ctx):
    t_start = time.time()
    root = tempfile.mkdtemp(prefix="c06_")
    try:
        _run(ctx, root)
        shared_file_gather(ctx, root)
    finally:
        shutil.rmtree(root, ignore_errors=True)
    ctx.extra["harness_wall_s"] = round(time.time() - t_start, 1)


def _run(ctx, root):
    r = ctx.rng
    cwds = make_cwds(root)
    langs = available_locales()
    ctx.extra["locales_available"] = langs
    if "en_US.UTF-8" not in langs:
        ctx.assumptions.append("en_US.UTF-8 is not installed in this sandbox (locale -a): the LANG/LC_ALL axis is {C, C.UTF-8} only")
    ncalls = ctx.scale(400, 5000)
    nhist = 50

    # ---- 1. corpus first (replayed in every configuration, at the head of the call list) ----
    corpus = load_corpus()
    calls = []
    for rec in corpus:
        c = dict(rec["call"])
        c["id"] = len(calls)
        c.setdefault("pre", {})
        c.setdefault("feats", ["corpus:" + rec["_file"]])
        calls.append(c)
    ncorpus = len(calls)
    # ---- 2. generated calls ----
    while len(calls) < ncorpus + ncalls:
        calls.append(g_call(r, len(calls)))
    history_pool = [g_call(r, 10**6 + i) for i in range(nhist * 3)]
    for c in calls:
        ctx.hist("tool", c["tool"])
        for f in c["feats"]:
            ctx.hist("doc_feature", f.split(":")[0] if f.startswith("corpus") else f)
        a = c["args"]
        if c["tool"] == "eject":
            ctx.hist("eject_format/mode", f"{a.get('format', '-')}/{a.get('mode', '-')}")
        if c["tool"] == "compile_grammar":
            ctx.hist("grammar_format", a.get("format", "-"))
        if c["tool"] == "validate":
            ctx.hist("validate_flags", ",".join(k for k in ("fix", "debug_grammar", "grammar_hint", "diff_only", "compact") if a.get(k)) or "-")
            ctx.hist("validate_profile", str(a.get("profile", "-")))
        if c["tool"] == "write":
            ctx.hist("write_flags", ",".join(k for k in ("lenient", "corrections_only", "debug_grammar", "grammar_hint", "base_hash",
                                                           "mutations", "schema") if a.get(k)) or "-")
        if "schema" in a:
            ctx.hist("schema", str(a["schema"])[:20])

    configs = build_configs(ctx, cwds, langs)
    ctx.extra["configurations"] = [{k: c[k] for k in ("seed", "cwdname", "lang", "hist", "sched")} for c in configs]
    idx = list(range(len(calls)))
    jobs = []
    chunk = ctx.scale(25, 100)
    for ci, cfg in enumerate(configs):
        if cfg["hist"] == "fresh":
            # new process per chunk: the first call of every chunk is served by a process that served nothing before
            # (chunk boundaries are rotated per configuration so that different calls come first)
            off = (ci * 7) % chunk
            bounds = [0] + list(range(off if off else chunk, len(idx), chunk)) + [len(idx)]
            for bi in range(len(bounds) - 1):
                part = idx[bounds[bi]:bounds[bi + 1]]
                if part:
                    jobs.append(Job(f"cfg{ci}/chunk{bi}", cfg, calls, part, [], root))
        else:
            order = idx[:]
            r.shuffle(order)
            hist = r.sample(history_pool, nhist)
            jobs.append(Job(f"cfg{ci}/long", cfg, calls, order, hist, root))
    # a sample of calls each in a brand-new process of the reference configuration (nothing at all served before)
    solo = r.sample(idx, min(len(idx), ctx.scale(24, 200)))
    for k in solo:
        jobs.append(Job(f"solo/{k}", configs[0], calls, [k], [], root))
    # ---- known-finding witnesses: dedicated replays ----
    witness_jobs = {}
    for fid, f in ctx.known.items():
        w = f["witness"]
        wc = dict(w["call"])
        wc.setdefault("pre", {})
        wc["id"] = 0
        a_cfg = dict(configs[0])
        b_cfg = dict(configs[0])
        if w.get("vary") == "cwd":
            b_cfg.update(cwdname="shadow", cwd=cwds["shadow"])
            hist_b = []
        else:
            b_cfg.update(seed=4242, hist="history")
            hist_b = history_pool[:nhist]
        ja = Job(f"witness/{fid}/a", a_cfg, [wc], [0], [], root)
        jb = Job(f"witness/{fid}/b", b_cfg, [wc], [0], hist_b, root)
        jobs += [ja, jb]
        witness_jobs[fid] = (ja.name, jb.name, wc, a_cfg, b_cfg)
    t0 = time.time()
    res = run_jobs(jobs, par=16)
    ctx.extra["worker_processes"] = len(jobs)
    ctx.extra["workers_wall_s"] = round(time.time() - t0, 1)

    # ---- witnesses ----
    for fid, (na, nb, wc, a_cfg, b_cfg) in witness_jobs.items():
        a, b = res[na][0]["0"], res[nb][0]["0"]
        still = a != b
        ids = classify(wc, a, b, a_cfg, b_cfg) if still else []
        ctx.finding_witness(fid, still and fid in ids)
        ctx.count(2)

    # ---- collect per configuration ----
    per_cfg = []
    metas = []
    for ci, cfg in enumerate(configs):
        merged = {}
        meta = None
        for name, (rs, m) in res.items():
            if name.startswith(f"cfg{ci}/"):
                merged.update(rs)
                meta = m
        per_cfg.append(merged)
        metas.append(meta)
    ctx.extra["worker_meta_sample"] = metas[:4]
    distinct_hash_abc = {m["hash_abc"] for m in metas if m}
    ctx.extra["distinct_str_hash_values_across_configs"] = len(distinct_hash_abc)
    encs = sorted({(m["lang"], m["preferred_encoding"], m["utf8_mode"]) for m in metas if m})
    ctx.extra["locale_encodings_seen"] = encs
    ref = per_cfg[0]
    missing = [c["id"] for c in calls if str(c["id"]) not in ref]
    if missing:
        raise RuntimeError(f"reference configuration returned no result for calls {missing[:5]}")

    # ---- compare ----
    ndiff = 0
    for c in calls:
        key = str(c["id"])
        a = ref[key]
        oc = outcome_of(a)
        ctx.hist("outcome(reference)", oc)
        trivial = any(code in oc for code in TRIVIAL_CODES)
        if not trivial:
            ctx.nontrivial(hashlib.sha256(json.dumps([c["tool"], c["args"], c["pre"]], sort_keys=True).encode()).hexdigest())
        others = [(ci, per_cfg[ci].get(key)) for ci in range(1, len(configs))]
        if c["id"] in solo:
            others.append(("solo", res[f"solo/{c['id']}"][0][key]))
        for ci, b in others:
            ctx.count()
            cfg_b = configs[0] if ci == "solo" else configs[ci]
            if b is None:
                ctx.correspondence_failure({"call": c, "config": cfg_b}, "worker returned no result for a call")
                continue
            if a == b:
                continue
            ndiff += 1
            ids = classify(c, a, b, configs[0], cfg_b)
            case = {"call": {k: c[k] for k in ("tool", "args", "pre")},
                    "config_a": {k: configs[0][k] for k in ("seed", "cwdname", "lang", "hist", "sched")},
                    "config_b": {k: cfg_b[k] for k in ("seed", "cwdname", "lang", "hist", "sched")} if ci != "solo" else "reference configuration, brand-new process for this single call",
                    "output_a": a[:6000], "output_b": b[:6000], "first_difference_at": next((i for i, (x, y) in enumerate(zip(a, b)) if x != y), min(len(a), len(b)))}
            what = f"{c['tool']} envelope differs between configurations"
            if ids:
                for fid in ids:
                    ctx.hist("difference_attributed_to", fid)
                    ctx.property_failure(case, what, finding=fid)
            else:
                ctx.hist("difference_attributed_to", "unattributed")
                ctx.property_failure(case, what)
    # ---- regressions of repaired findings (corpus records with `expect_absent` / `expect_present`): evaluated on the
    #      output of EVERY configuration; equality across configurations was checked above like for any call ----
    for rec, c in zip(corpus, calls[:ncorpus]):
        if not (rec.get("expect_absent") or rec.get("expect_present") or rec.get("expect_json_output")):
            continue
        key = str(c["id"])
        for ci in range(len(configs)):
            out = per_cfg[ci].get(key)
            if out is None:
                continue
            ctx.count()
            case = {"regression": rec["_file"], "fixed": rec.get("fixed"), "call": {k: c[k] for k in ("tool", "args", "pre")},
                    "config": {k: configs[ci][k] for k in ("seed", "cwdname", "lang", "hist", "sched")}, "output": out[:4000]}
            problems = []
            if out.startswith("EXC"):
                problems.append("the call raised: " + out[:80])
            try:
                view = json.loads(out).get("output", "") if not out.startswith("EXC") else ""
            except Exception:  # noqa
                view = out
            problems += ["output contains %r" % m for m in rec.get("expect_absent", []) if m in out or m in view]
            problems += ["output lacks %r" % m for m in rec.get("expect_present", []) if m not in view]
            if rec.get("expect_json_output") and not out.startswith("EXC"):
                try:
                    json.loads(view)
                except Exception as e:  # noqa
                    problems.append("json view does not parse: " + type(e).__name__)
            if rec.get("expect_yaml_output") and not out.startswith("EXC"):
                try:
                    import yaml
                    yaml.safe_load(view)
                except Exception as e:  # noqa
                    problems.append("yaml view is not safe_load-able: " + type(e).__name__)
            for pr in problems[:2]:
                ctx.property_failure(case, "regression %s: %s" % (rec.get("fixed", rec["_file"]), pr))
        ctx.hist("corpus_regression_of_repaired_finding", rec["_file"])
    ctx.extra["differences_seen"] = ndiff
    ctx.extra["calls"] = len(calls)
    ctx.extra["corpus_calls"] = ncorpus
    # samples
    for c in calls[ncorpus:ncorpus + 200]:
        if len(ctx.samples) >= 6:
            break
        if c["tool"] not in {s["tool"] for s in ctx.samples}:
            ctx.sample({"tool": c["tool"], "args": c["args"], "pre_files": sorted(c["pre"]), "reference_outcome": outcome_of(ref[str(c["id"])]),
                        "reference_envelope_prefix": ref[str(c["id"])][:300]})
    ctx.extra["rule"] = (
        f"{len(calls)} tool calls ({ncorpus} from corpus/C06, the rest generated from ctx.rng: documents with META/blocks/sections/"
        "lists/inline maps/holographic values/literal zones/frontmatter/unknown fields in shuffled order/lenient spellings/"
        "unparseable texts; ValidateTool, WriteTool (content/changes/normalize, per-worker temp dir), EjectTool (4 modes x 5 "
        "formats + invalid), CompileGrammarTool (builtin names, inline FIELDS/CONTRACT, both formats), every flag) x "
        f"{len(configs)} configurations (PYTHONHASHSEED in 0/1/4242/random x cwd in //empty/decoy-specs x LANG=LC_ALL in "
        f"{langs} x fresh-process-per-chunk vs long-lived process after {nhist} shuffled other calls and in shuffled order x "
        "sequential vs asyncio.gather of 8) + a sample of calls each in a brand-new process; evaluation = one byte comparison "
        "of the JSON envelope (sort_keys, routing timestamps masked, temp dir prefix normalised) against the reference "
        "configuration; non-trivial = distinct call whose reference outcome is not an argument-validation error "
        "(E_INPUT/E_PROFILE/E_FORMAT)")
    ctx.assumptions += [
        "the cross-process / hash-seed / locale / cwd clause of C06 is carried ONLY by this byte comparison of the real "
        "implementation across configurations (level for that clause: partial); the kernel checks the state / iteration / "
        "ambient-input / lookup / scheduling logic over the generated inventory",
        "OS threads are not exercised (the server is asyncio-only); asyncio.gather is the concurrency that is run and modelled",
        "HOME is a fresh empty directory per worker (octave_write schema names `latest` / `frozen@..` resolve under ~/.octave)",
        "the inventory is syntactic: implicit formatting of an object without __repr__ (str(obj), f-strings) is outside its reach; "
        "that channel is covered by the comparison only (three known findings were found by it)",
    ]
    ctx.trusted_base.append("harness/props/c06.py worker protocol (subprocess of /venv/bin/python, PYTHONPATH=/repo/src, clean environment)")
    ctx.explanation = (
        "C06 quantifies over OS-level configurations that a Gallina model cannot exhibit. Proved in Coq over the inventory "
        "regenerated from /repo on every run: no run-time mutation of module/class state except the unobservable Absent "
        "singleton cell; no order-revealing iteration over a set outside sorted(); no hash/id/random/time/environ/locale "
        "input in tool-reachable code (whitelisted: routing timestamps, cwd in the schema search path = a finding); tool "
        "objects have no instance fields and no await points, hence history- and interleaving-independence of the server "
        "state machine; sorted reports are permutation invariant; schema lookup is independent of cwd only under the "
        "stated hypotheses (full statement refuted, finding C06-cwd-schema-shadow). The runtime clause is evidence by "
        "differential execution, not proof.")


def replay(ctx, case):
    """./check C06 --replay file : re-run one recorded case in its two configurations; exit 1 if still different."""
    root = tempfile.mkdtemp(prefix="c06r_")
    try:
        cwds = make_cwds(root)
        c = dict(case["case"]["call"])
        c["id"] = 0
        c.setdefault("pre", {})
        outs = []
        for key in ("config_a", "config_b"):
            cf = case["case"][key]
            if not isinstance(cf, dict):
                cf = case["case"]["config_a"]
            cfg = {"seed": cf["seed"], "cwd": cwds[cf["cwdname"]], "lang": cf["lang"], "sched": cf["sched"]}
            hist = [g_call(ctx.rng, 10**6 + i) for i in range(50)] if cf["hist"] == "history" else []
            j = Job(key, cfg, [c], [0], hist, root)
            j.start()
            outs.append(j.finish()[0]["0"])
        print("SAME" if outs[0] == outs[1] else "DIFFERENT")
        return 0 if outs[0] == outs[1] else 1
    finally:
        shutil.rmtree(root, ignore_errors=True)
