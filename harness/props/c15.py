"""C15 -- a seal verifies on the sealed content and on nothing else.

Subjects: content-model documents (docgen) on which the C01/C02 round trip holds (no wf clause falsified, read-back
content = generator content).  For each: seal/verify in memory, after emit+parse, after file write+read, re-seal,
unsealed -> NO_SEAL, every single-site mutation of the sealed document / sealed text, cosmetic respellings (render sigma).
Every observed status is compared with the extracted model (driver `seal`, SHA-256 digests supplied as a per-case table
for the texts THE MODEL asks for) and the property is evaluated directly on the implementation.
"""
from __future__ import annotations

import hashlib
import json
import unicodedata
import multiprocessing
import os
import random
import shutil
import subprocess
import sys
import tempfile
from collections import Counter
from pathlib import Path

from lib import astcodec, doccases, docgen, docprops, render
from lib.model import dec_str, enc_str, run_driver

LEVEL = "proof"
DRIVERS = ["seal", "syn"]
COQ_TARGETS = ["theories/Seal/Pins_Seal.vo"]
PFX = "C15-"
F_SECOND = PFX + "seal-named-section"
F_META = PFX + "meta-as-block"
SEAL = "SEAL"
HEX = "0123456789abcdef"


# ------------------------------------------------------------------------------------------------------------
# content forms
def is_seal(n):
    return n[0] == "s" and n[2] == SEAL


def _c_node(n):
    """content of a node as the property lists it: keys, values (with type), order, nesting -- no comments,
    no block target / section annotation"""
    k = n[0]
    if k == "a":
        return ("a", n[1], _freeze(n[2]))
    if k == "b":
        return ("b", n[1], tuple(_c_node(c) for c in n[3] if c[0] != "c"))
    if k == "s":
        return ("s", n[1], n[2], tuple(_c_node(c) for c in n[4] if c[0] != "c"))
    return None


def _freeze(x):
    if isinstance(x, (list, tuple)):
        return tuple(_freeze(y) for y in x)
    return x


def content_key(d, nodes):
    """(envelope name, frontmatter, META, body nodes) -- what the property says a seal must protect"""
    return (d["name"], d["front"], _freeze(d["meta"]), tuple(_c_node(n) for n in nodes if n[0] != "c"))


def hash_vals(sec):
    """HASH values of a SEAL section; a str is taken modulo surrounding double quotes (the section format shows the digest
    quoted and verify_seal strips them: `"<digest>"` and `<digest>` are the same stored hash, see C15_hash_any_change_refuted)"""
    return [(("str", c[2][1].strip('"')) if c[2][0] == "str" else _freeze(c[2])) for c in sec[4] if c[0] == "a" and c[1] == "HASH"]


class Orig:
    """the read-back sealed document with its content key, computed once per subject"""

    def __init__(self, orig):
        self.doc = orig
        oi = [i for i, n in enumerate(orig["sections"]) if is_seal(n)]
        obody = [n for i, n in enumerate(orig["sections"]) if i not in oi]
        self.key = content_key(orig, obody)
        self.hashes = set(hash_vals(orig["sections"][oi[0]]))
        self.frozen = _freeze(orig)


def expectation(orig, mut):
    """-> (expected status | None, class).  orig: neutral parsed sealed document (one SEAL-keyed section) or its Orig;
    mut: neutral parsed mutated document.  None = the property text demands nothing for this edit;
    'NOT_VERIFIED' = NO_SEAL or INVALID (a SEAL section that carries no HASH at all)."""
    o = orig if isinstance(orig, Orig) else Orig(orig)
    seals = [i for i, n in enumerate(mut["sections"]) if is_seal(n)]
    if not seals:
        return "NO_SEAL", "no-seal-section"
    if all(not hash_vals(mut["sections"][i]) for i in seals):
        return "NOT_VERIFIED", "seal-without-hash"
    for i in seals:
        body = mut["sections"][:i] + mut["sections"][i + 1:]
        if content_key(mut, body) == o.key:
            hv = set(hash_vals(mut["sections"][i]))
            if hv == o.hashes:
                if _freeze(mut) == o.frozen:
                    return "VERIFIED", "identical-content"
                return None, "not-demanded"          # comments, target/annotation, grammar, separator, other seal fields
            if len(hv) != 1:
                return None, "hash-ambiguous"
            return "INVALID", "hash-changed"
    return "INVALID", "content-changed" if len(seals) == 1 else "content-changed-multi-seal"


def meta_as_block(orig, mut):
    """classifier of finding C15-meta-as-block: the mutant has an empty META dict and a top-level Block keyed META in
    first position, and turning that block back into the META dict gives the original's content"""
    od = orig.doc if isinstance(orig, Orig) else orig
    if mut["meta"] or not od["meta"] or not mut["sections"]:
        return False
    b = mut["sections"][0]
    if b[0] != "b" or b[1] != "META":
        return False
    meta = []
    for c in b[3]:
        if c[0] == "a":
            meta.append((c[1], ("v", c[2])))
        elif c[0] == "b" and all(x[0] == "a" for x in c[3]):
            meta.append((c[1], ("d", [(x[1], x[2]) for x in c[3]])))
        elif c[0] != "c":
            return False
    e = dict(mut)
    e["meta"] = meta
    e["sections"] = mut["sections"][1:]
    exp, klass = expectation(orig, e)
    return klass in ("identical-content", "not-demanded")


def attribute(orig, mut, exp, status):
    """finding id for a failed expectation, by the precise clause the mutant falsifies (else None)"""
    nseal = sum(1 for q in mut["sections"] if is_seal(q))
    if nseal >= 2 and exp == "INVALID":
        return F_SECOND
    if exp == "INVALID" and status == "VERIFIED" and meta_as_block(orig, mut):
        return F_META
    return None


def meets(exp, status):
    return exp is None or status == exp or (exp == "NOT_VERIFIED" and status in ("NO_SEAL", "INVALID"))


# ------------------------------------------------------------------------------------------------------------
# single-site mutations of a neutral document
def _other_scalar(v):
    k = v[0]
    if k == "str":
        return ("str", "zz9" if v[1] != "zz9" else "zz8")
    if k == "int":
        return ("int", "7" if v[1] != "7" else "8")
    if k == "float":
        return ("float", "2.5" if v[1] != "2.5" else "3.5")
    if k == "bool":
        return ("bool", not v[1])
    return ("str", "x")


def _type_change(v):
    k = v[0]
    if k == "int" or k == "float":
        return ("str", v[1])                 # 1 -> "1"
    if k == "bool":
        return ("str", "true" if v[1] else "false")
    if k == "null":
        return ("str", "null")
    if k == "str":
        s = v[1]
        try:
            int(s)
            if str(int(s)) == s:
                return ("int", s)            # "42" -> 42
        except ValueError:
            pass
        if s in ("true", "false"):
            return ("bool", s == "true")
        if s == "null":
            return ("null",)
        return ("list", [v])                 # x -> [x]
    return None


def value_muts(v, depth=0):
    k = v[0]
    if k in ("str", "int", "float", "bool", "null"):
        yield "replace-value", _other_scalar(v)
        t = _type_change(v)
        if t is not None:
            yield "change-type", t
    elif k == "list":
        items = v[1]
        for i, it in enumerate(items):
            yield "delete-item", ("list", items[:i] + items[i + 1:])
            if it[0] == "map":
                (kk, vv), = it[1] if len(it[1]) == 1 else (it[1][0],)
                yield "rename-key", ("list", items[:i] + [("map", [(kk + "Q", vv)] + list(it[1][1:]))] + items[i + 1:])
                for kind, v2 in value_muts(vv, depth + 1):
                    yield kind, ("list", items[:i] + [("map", [(kk, v2)] + list(it[1][1:]))] + items[i + 1:])
            else:
                for kind, v2 in value_muts(it, depth + 1):
                    yield kind, ("list", items[:i] + [v2] + items[i + 1:])
            if i + 1 < len(items) and items[i] != items[i + 1]:
                yield "reorder", ("list", items[:i] + [items[i + 1], items[i]] + items[i + 2:])
        for i in range(len(items) + 1):
            yield "insert-item", ("list", items[:i] + [("str", "ins")] + items[i:])
        if len(items) == 1 and items[0][0] in ("str", "int", "float", "bool", "null"):
            yield "change-nesting", items[0]          # [x] -> x
        yield "change-type", ("str", "lst")
    elif k == "zone":
        yield "replace-value", ("zone", (v[1] + "\n" if v[1] else "") + "added line", v[2], v[3])
        # zone content is verbatim (C05): a canonically equivalent respelling of ONE line (NFC <-> NFD) and a trailing blank on ONE line
        # are changes of the sealed value.  Their expectation is taken from the content model, not from what the reader makes of the
        # edited text (a reader that normalises such a line would otherwise hide the edit from the oracle; seed r7-C15-a)
        zl = v[1].split("\n") if v[1] else []
        for i, l in enumerate(zl):
            for form in ("NFC", "NFD"):
                l2 = unicodedata.normalize(form, l)
                if l2 != l:
                    yield "zone-line-respell", ("zone", "\n".join(zl[:i] + [l2] + zl[i + 1:]), v[2], v[3])
                    break
            yield "zone-line-trailing-blank", ("zone", "\n".join(zl[:i] + [l + " "] + zl[i + 1:]), v[2], v[3])
        yield "change-type", ("str", v[1] or "z")
    elif k == "holo":
        yield "replace-value", ("holo", '["other"∧REQ]' if v[1] != '["other"∧REQ]' else '["x"∧REQ]')
        yield "change-type", ("str", "holo")


NEW_LEAF = ("a", "NEWKEY", ("str", "newvalue"), [], None)


def node_muts(n):
    """yields (kind, replacement nodes for this position)"""
    k = n[0]
    if k == "a":
        if n[1] != "":
            yield "rename-key", [("a", n[1] + "Q", n[2], n[3], n[4])]
        for kind, v2 in value_muts(n[2]):
            yield kind, [("a", n[1], v2, n[3], n[4])]
        if n[1] != "" and n[2][0] != "zone":
            yield "change-nesting", [("b", n[1], None, [("a", "V", n[2], [], None)], n[3])]   # K::v -> K: V::v
    elif k == "b":
        yield "rename-key", [("b", n[1] + "Q", n[2], n[3], n[4])]
        yield "change-nesting", [c for c in n[3]]                                                # hoist the children
        yield "block-target", [("b", n[1], "OTHER" if n[2] != "OTHER" else None, n[3], n[4])]
        for kind, chs in body_muts(n[3]):
            yield kind, [("b", n[1], n[2], chs, n[4])]
    elif k == "s":
        yield "rename-key", [("s", n[1], n[2] + "Q", n[3], n[4], n[5])]
        yield "rename-key", [("s", n[1] + "9", n[2], n[3], n[4], n[5])]
        yield "change-nesting", [c for c in n[4]]
        yield "section-annotation", [("s", n[1], n[2], "ann" if n[3] != "ann" else None, n[4], n[5])]
        for kind, chs in body_muts(n[4]):
            yield kind, [("s", n[1], n[2], n[3], chs, n[5])]


def body_muts(nodes):
    nodes = list(nodes)
    for i, n in enumerate(nodes):
        if n[0] == "c":
            yield "comment", nodes[:i] + nodes[i + 1:]
            continue
        yield "delete-node", nodes[:i] + nodes[i + 1:]
        for kind, repl in node_muts(n):
            yield kind, nodes[:i] + list(repl) + nodes[i + 1:]
        if i + 1 < len(nodes) and nodes[i + 1][0] != "c" and nodes[i] != nodes[i + 1]:
            yield "reorder", nodes[:i] + [nodes[i + 1], n] + nodes[i + 2:]
            nx = nodes[i + 1]
            if nx[0] == "b":
                yield "change-nesting", nodes[:i] + [("b", nx[1], nx[2], [n] + list(nx[3]), nx[4])] + nodes[i + 2:]
            elif nx[0] == "s":
                yield "change-nesting", nodes[:i] + [("s", nx[1], nx[2], nx[3], [n] + list(nx[4]), nx[5])] + nodes[i + 2:]
        if len(nodes) > 2 and i + 2 < len(nodes):
            yield "move-node", nodes[:i] + nodes[i + 1:] + [n]                     # to the end of the body
        if n[0] == "a" and n[3]:
            yield "comment", nodes[:i] + [("a", n[1], n[2], [], n[4])] + nodes[i + 1:]
    real = [j for j, n in enumerate(nodes) if n[0] != "c"]
    for i in ([0] + [j + 1 for j in real]):
        yield "insert-node", nodes[:i] + [NEW_LEAF] + nodes[i:]


def doc_muts(s):
    """every single-site mutation of the neutral sealed document s -> (kind, mutated doc)"""
    si = [i for i, n in enumerate(s["sections"]) if is_seal(n)][-1]
    body, seal, after = s["sections"][:si], s["sections"][si], s["sections"][si + 1:]

    def with_(**kw):
        e = dict(s)
        e.update(kw)
        return e
    for kind, nodes in body_muts(body):
        yield kind, with_(sections=list(nodes) + [seal] + after)
    # envelope / frontmatter / grammar / separator
    yield "envelope-name", with_(name=s["name"] + "X")
    if s["front"] is None:
        if not s["grammar"]:
            yield "frontmatter", with_(front="added: 1")
    else:
        yield "frontmatter", with_(front=s["front"] + "\nmore: 2")
        yield "frontmatter", with_(front=None)
    yield "grammar-version", with_(grammar=None if s["grammar"] else "5.1.0")
    yield "separator", with_(sep=not s["sep"])
    # META
    meta = s["meta"]
    for i, (k, mv) in enumerate(meta):
        yield "meta-delete", with_(meta=meta[:i] + meta[i + 1:])
        yield "meta-rename", with_(meta=meta[:i] + [(k + "Q", mv)] + meta[i + 1:])
        if mv[0] == "v":
            for kind, v2 in value_muts(mv[1]):
                yield "meta-" + kind, with_(meta=meta[:i] + [(k, ("v", v2))] + meta[i + 1:])
        else:
            ps = mv[1]
            for j, (k2, v2) in enumerate(ps):
                yield "meta-delete", with_(meta=meta[:i] + [(k, ("d", ps[:j] + ps[j + 1:]))] + meta[i + 1:])
                yield "meta-rename", with_(meta=meta[:i] + [(k, ("d", ps[:j] + [(k2 + "Q", v2)] + ps[j + 1:]))] + meta[i + 1:])
                for kind, v3 in value_muts(v2):
                    yield "meta-" + kind, with_(meta=meta[:i] + [(k, ("d", ps[:j] + [(k2, v3)] + ps[j + 1:]))] + meta[i + 1:])
        if i + 1 < len(meta):
            yield "meta-reorder", with_(meta=meta[:i] + [meta[i + 1], meta[i]] + meta[i + 2:])
    yield "meta-insert", with_(meta=meta + [("ADDED", ("v", ("str", "field")))])
    # the SEAL section itself
    ch = list(seal[4])
    for i, c in enumerate(ch):
        if c[0] == "a" and c[1] != "HASH":
            yield "seal-field", with_(sections=body + [("s", seal[1], seal[2], seal[3], ch[:i] + [("a", c[1], ("str", "changed"), [], None)] + ch[i + 1:], seal[5])] + after)
        if c[0] == "a" and c[1] == "HASH":
            yield "seal-hash-removed", with_(sections=body + [("s", seal[1], seal[2], seal[3], ch[:i] + ch[i + 1:], seal[5])] + after)
            if c[2][0] == "str" and len(c[2][1]) == 64:
                h = c[2][1]
                yield "hash-replaced", with_(sections=body + [("s", seal[1], seal[2], seal[3], ch[:i] + [("a", "HASH", ("str", hashlib.sha256(h.encode()).hexdigest()), [], None)] + ch[i + 1:], seal[5])] + after)
                yield "hash-not-string", with_(sections=body + [("s", seal[1], seal[2], seal[3], ch[:i] + [("a", "HASH", ("int", "12345"), [], None)] + ch[i + 1:], seal[5])] + after)
    payload = [("a", "EVIL", ("str", "payload"), [], None)]
    yield "seal-extra-child", with_(sections=body + [("s", seal[1], seal[2], seal[3], ch + payload, seal[5])] + after)
    yield "seal-extra-block", with_(sections=body + [("s", seal[1], seal[2], seal[3], ch + [("b", "HIDDEN", None, payload, [])], seal[5])] + after)
    yield "second-seal-after", with_(sections=body + [seal] + after + [("s", "9", SEAL, None, payload, [])])
    yield "second-seal-before", with_(sections=body + [("s", "9", SEAL, None, payload, []), seal] + after)
    yield "second-seal-before-noassign", with_(sections=body + [("s", "9", SEAL, None, [("b", "HIDDEN", None, payload, [])], []), seal] + after)
    yield "seal-renamed", with_(sections=body + [("s", seal[1], "SEALX", seal[3], ch, seal[5])] + after)
    yield "seal-id-renamed", with_(sections=body + [("s", "7", seal[2], seal[3], ch, seal[5])] + after)
    yield "seal-removed", with_(sections=body + after)


def text_muts(t, all_hash_positions):
    """raw single-site edits of the emitted sealed text -> (kind, text)"""
    lines = t.split("\n")
    if lines and lines[-1] == "":
        lines = lines[:-1]
    for i, l in enumerate(lines):
        j = l.find("HASH::")
        if j >= 0 and l.strip().startswith("HASH::"):
            val = l[j + 6:]
            q = 1 if val.startswith('"') else 0
            digits = val[q:q + 64]
            if len(digits) == 64 and all(c in HEX for c in digits):
                for p in (range(64) if all_hash_positions else (0, 1, 31, 63)):
                    new = HEX[(HEX.index(digits[p]) + 1 + (p % 14)) % 16]
                    if new == digits[p]:
                        new = HEX[(HEX.index(new) + 1) % 16]
                    yield "hash-flip", "\n".join(lines[:i] + [l[:j + 6 + q + p] + new + l[j + 6 + q + p + 1:]] + lines[i + 1:]) + "\n"
                yield "hash-uppercase", "\n".join(lines[:i] + [l[:j + 6] + val.upper()] + lines[i + 1:]) + "\n"
                yield "hash-truncate", "\n".join(lines[:i] + [l[:j + 6 + q + 63] + l[j + 6 + q + 64:]] + lines[i + 1:]) + "\n"
                yield "hash-extend", "\n".join(lines[:i] + [l[:j + 6 + q + 64] + "0" + l[j + 6 + q + 64:]] + lines[i + 1:]) + "\n"
    for i, l in enumerate(lines):
        yield "line-delete", "\n".join(lines[:i] + lines[i + 1:]) + "\n"
        yield "line-duplicate", "\n".join(lines[:i + 1] + lines[i:]) + "\n"
        if i + 1 < len(lines) and lines[i] != lines[i + 1]:
            yield "line-swap", "\n".join(lines[:i] + [lines[i + 1], l] + lines[i + 2:]) + "\n"
        yield "line-indent", "\n".join(lines[:i] + ["  " + l] + lines[i + 1:]) + "\n"
        if l.startswith("  "):
            yield "line-dedent", "\n".join(lines[:i] + [l[2:]] + lines[i + 1:]) + "\n"
        yield "cosmetic-trailing-space", "\n".join(lines[:i] + [l + "  "] + lines[i + 1:]) + "\n"
        yield "cosmetic-blank-line", "\n".join(lines[:i + 1] + [""] + lines[i + 1:]) + "\n"


# ------------------------------------------------------------------------------------------------------------
# implementation side
def impl_parse(text):
    from octave_mcp.core.lexer import LexerError
    from octave_mcp.core.parser import ParserError, parse
    try:
        return parse(text), None
    except (LexerError, ParserError) as e:
        return None, f"{type(e).__name__}:{getattr(e, 'error_code', '')}"
    except RecursionError:
        return None, "RecursionError"


def impl_verify(doc):
    """(status name, actual_hash as reported)"""
    from octave_mcp.core.sealer import verify_seal
    try:
        r = verify_seal(doc)
    except Exception as e:  # noqa -- reported as a status: verification must not raise on a parsed document
        return "RAISED " + type(e).__name__, None
    return r.status.name, r.actual_hash


def neutral(doc):
    return astcodec.doc_to_neutral(doc)


def harness_body(n):
    """the document without SEAL-keyed sections and without trailing comments, built by the harness (not by sealer.py)"""
    e = dict(n)
    e["sections"] = [x for x in n["sections"] if not is_seal(x)]
    e["trailing"] = []
    return e


def spc_of(n):
    f = n["front"] or ""
    return enc_str("".join(sorted({c for c in f if ord(c) >= 128 and c.isspace()})))


class Out:
    """what a worker reports back"""

    def __init__(self):
        self.count = 0
        self.hist = Counter()
        self.prop_fail = []        # (case, what, finding)
        self.corr_fail = []
        self.nontrivial = []
        self.samples = []
        self.model_cases = []      # (tag, neutral doc, cmd 'seal'|'verify', impl observation, replay info)

    def h(self, name, bucket, n=1):
        self.hist[(name, str(bucket))] += n


def model_check(out, use_model):
    """run the extracted model on out.model_cases and diff with the implementation's observations"""
    cases = out.model_cases
    out.model_cases = []
    if not use_model or not cases:
        return
    encs = [(spc_of(n), astcodec.enc_doc(n)) for _, n, _, _, _ in cases]
    bodies = run_driver("seal", [f"body {sp} {e}" for sp, e in encs])
    lines, keep = [], []
    for (tag, n, cmd, obs, info), b, (sp, e) in zip(cases, bodies, encs):
        if b.startswith("!"):
            out.h("model", "driver:" + b[:20])
            continue
        text = dec_str(b)
        # is this a document on which the EMITTER model agrees with the implementation's emitter? (C01/C02's business)
        try:
            itext = doccases.impl_emit(harness_body(n))
        except Exception:  # noqa
            out.h("model", "impl-emit-raises")
            continue
        if itext != text:
            out.h("model", "emitter-model-differs(out-of-model)")
            continue
        dig = hashlib.sha256(text.encode("utf-8")).hexdigest()
        lines.append(f"{cmd} {sp} 1 {b} {enc_str(dig)} {e}")
        keep.append((tag, n, cmd, obs, info, dig))
    res = run_driver("seal", lines)
    for (tag, n, cmd, obs, info, dig), r in zip(keep, res):
        out.count += 1
        out.h("model", "compared:" + cmd)
        if r.startswith("!"):
            out.corr_fail.append(({"tag": tag, "doc": n, "model": r, "info": info}, "model driver error " + r))
            continue
        if cmd == "verify":
            st, stored, cnt = r.split(" ")
            istatus, iactual = obs
            if st != istatus:
                out.corr_fail.append(({"tag": tag, "doc": n, "impl_status": istatus, "model_status": st, "info": info},
                                      f"verify_seal status differs from the model ({tag}): impl {istatus}, model {st}"))
            elif st != "NO_SEAL":
                mstored = None if stored == "!nonstr" else dec_str(stored)
                if (iactual if isinstance(iactual, str) else None) != mstored:
                    out.corr_fail.append(({"tag": tag, "doc": n, "impl_actual_hash": repr(iactual), "model_stored": mstored, "info": info},
                                          "stored hash read by verify_seal differs from the model"))
        else:
            head, enc = r.split(" # ")
            st, idem, cnt = head.split(" ")
            isealed, istatus, iidem = obs
            if enc.strip() != astcodec.enc_doc(isealed):
                out.corr_fail.append(({"tag": tag, "doc": n, "impl_sealed": isealed, "model_sealed": astcodec.dec_doc(enc), "info": info},
                                      "seal_document(doc) differs from the model"))
            elif (st, idem == "1") != (istatus, iidem) or cnt != "1":
                out.corr_fail.append(({"tag": tag, "doc": n, "impl": [istatus, iidem], "model": head, "info": info},
                                      "verify(seal(doc)) / re-seal differs from the model"))


def family(kind):
    if kind.startswith("hash-"):
        return "hash"
    if kind.startswith("seal-") or kind.startswith("second-seal"):
        return "seal"
    if kind.startswith("line-") or kind.startswith("cosmetic-"):
        return "text"
    if kind in ("grammar-version", "separator", "block-target", "section-annotation", "comment"):
        return "other"
    return "body"


QUOTA = {"body": 16, "hash": 4, "seal": 3, "other": 2, "text": 5}     # per 30; scaled to the tier's edit budget


def pick(muts, k, rng):
    """k = None: all.  Otherwise a sample stratified by family (QUOTA, scaled to k) and, inside a family, round robin over kinds"""
    if k is None or len(muts) <= k:
        return muts
    fams = {}
    for m in muts:
        fams.setdefault(family(m[0]), {}).setdefault(m[0], []).append(m)
    out = []
    total = sum(QUOTA.values())
    for fam in sorted(fams):
        by = fams[fam]
        for v in by.values():
            rng.shuffle(v)
        kinds = sorted(by)
        rng.shuffle(kinds)
        want = max(1, round(QUOTA[fam] * k / total))
        got = 0
        while got < want and any(by[kd] for kd in kinds):
            for kd in kinds:
                if by[kd] and got < want:
                    out.append(by[kd].pop())
                    got += 1
    return out


def subject(d0, seed, cfg, out, tmpdir):
    """one document through the whole C15 protocol"""
    from octave_mcp.core.emitter import emit
    from octave_mcp.core.sealer import seal_document
    rng = random.Random(seed)
    x = doccases.impl_emit(d0)
    D, err = impl_parse(x)
    if err or docprops.first_diff(docprops.expected(d0), neutral(D)):
        out.h("skipped", "round trip of the unsealed document does not hold (C01/C02 domain)")
        return
    nD = neutral(D)
    if any(is_seal(n) for n in nD["sections"]):
        out.h("skipped", "generator produced a SEAL section")
        return
    replay = {"doc": d0, "text": x}
    # ---- unsealed -> NO_SEAL ----
    out.count += 1
    st, act = impl_verify(D)
    if st != "NO_SEAL":
        out.prop_fail.append((dict(replay, step="verify(unsealed)", status=st), f"an unsealed document reports {st}, not NO_SEAL", None))
    out.model_cases.append(("unsealed", nD, "verify", (st, act), {"text": x}))
    # ---- in memory ----
    S = seal_document(D)
    nS = neutral(S)
    stS, _ = impl_verify(S)
    out.count += 1
    if stS != "VERIFIED":
        out.prop_fail.append((dict(replay, step="verify(seal(doc)) in memory", status=stS), f"a freshly sealed document reports {stS} in memory", None))
    # the sealed document is the document plus one SEAL section (trailing document comments are not carried over)
    out.count += 1
    if harness_body(nS) != harness_body(nD) or sum(1 for q in nS["sections"] if is_seal(q)) != 1 or not is_seal(nS["sections"][-1]):
        out.prop_fail.append((dict(replay, step="seal(doc) vs doc", sealed=nS), "sealing changes the content it seals (body of seal(doc) differs from doc)", None))
    S2 = seal_document(S)
    nS2 = neutral(S2)
    out.count += 1
    if nS2 != nS:
        out.prop_fail.append((dict(replay, step="seal(seal(doc))", first=nS, second=nS2), "sealing twice does not give the same seal", None))
    out.model_cases.append(("seal", nD, "seal", (nS, stS, nS2 == nS), {"text": x}))
    t = emit(S)
    replay["sealed_text"] = t
    hs = hash_vals(nS["sections"][-1])
    if len(hs) != 1 or hs[0][0] != "str" or len(hs[0][1]) != 64 or any(c not in HEX for c in hs[0][1]):
        out.prop_fail.append((dict(replay, step="HASH field"), "the SEAL section does not carry one 64-hex-digit HASH string", None))
        return
    if nD["trailing"]:
        out.h("note", "subject has trailing document comments (outside the hashed text, dropped by seal_document)")
    # ---- after emit + parse ----
    D2, err = impl_parse(t)
    out.count += 1
    if err:
        out.prop_fail.append((dict(replay, step="parse(emit(seal(doc)))", error=err), "the emitted sealed document cannot be read back", None))
        return
    n2 = neutral(D2)
    st2, act2 = impl_verify(D2)
    same = docprops.first_diff(docprops.expected(nS), n2) is None
    if st2 != "VERIFIED":
        out.prop_fail.append((dict(replay, step="verify(parse(emit(seal(doc))))", status=st2, sealed_content_survives=same),
                              f"the sealed document reports {st2} after being written out and read back", None))
    out.model_cases.append(("after-text", n2, "verify", (st2, act2), {"text": t}))
    if not same:
        out.h("note", "sealed document content changes on emit/parse (seal section or neighbour)")
    out.count += 1
    t2 = emit(seal_document(D2))
    if t2 != t:
        out.prop_fail.append((dict(replay, step="emit(seal(parse(sealed text)))", resealed_text=t2), "re-sealing the read-back document gives a different seal/text", None))
    # ---- file write + read ----
    p = os.path.join(tmpdir, "s.oct.md")
    with open(p, "w", encoding="utf-8", newline="") as f:
        f.write(t)
    with open(p, encoding="utf-8") as f:
        tf = f.read()
    D3, err = impl_parse(tf)
    out.count += 1
    st3 = impl_verify(D3)[0] if D3 is not None else "ERR " + str(err)
    if st3 != "VERIFIED":
        if tf != t and "\r" in t:
            out.h("note", "CR translated by text-mode file read (C05 finding), seal " + st3)
        else:
            out.prop_fail.append((dict(replay, step="file write + read + verify", status=st3), f"the sealed document reports {st3} after file write and read back", None))
    if len(nD["sections"]) + len(nD["meta"]) >= 2:
        out.nontrivial.append(hashlib.blake2b(t.encode(), digest_size=12).hexdigest())
    out.h("top_level_nodes", len(nD["sections"]))
    out.h("sealed_text_lines", min(len(t.split("\n")) // 10 * 10, 100))
    out.h("features", "frontmatter" if nD["front"] else "no-frontmatter")
    out.h("features", "grammar" if nD["grammar"] else "no-grammar")
    out.h("features", "meta" if nD["meta"] else "no-meta")
    if not same:
        return
    # ---- single-site mutations ----
    o2 = Orig(n2)
    muts = []
    for kind, m in doc_muts(n2):
        muts.append((kind, "ast", m))
    for kind, tx in text_muts(t, cfg["all_hash"]):
        muts.append((kind, "text", tx))
    out.h("mutation_sites_per_doc", min(len(muts) // 50 * 50, 1000))
    chosen = pick(muts, cfg["edits"], rng)
    for kind, how, m in chosen:
        if how == "ast":
            try:
                tx = doccases.impl_emit(m)
            except Exception as e:  # noqa
                out.h("mutation_outcome", "emit-raises")
                continue
        else:
            tx = m
        out.count += 1
        Dm, err = impl_parse(tx)
        if err:
            out.h("mutation_outcome", "unparseable")
            out.h("unparseable_by_kind", kind)
            continue
        try:
            nm = neutral(Dm)
        except TypeError:
            out.h("mutation_outcome", "outside-neutral-form")
            continue
        stm, actm = impl_verify(Dm)
        exp, klass = expectation(o2, nm)
        if kind in ("zone-line-respell", "zone-line-trailing-blank") and how == "ast":
            exp, klass = "INVALID", "zone-content-changed (by the content model)"
        out.h("mutation_kind", kind)
        out.h("mutation_class", klass)
        out.h("mutation_status", f"{klass}->{stm}")
        out.model_cases.append(("mut:" + kind, nm, "verify", (stm, actm), {"sealed_text": t, "mutated_text": tx, "kind": kind}))
        if not meets(exp, stm):
            fid = attribute(o2, nm, exp, stm)
            what = (f"single-site edit ({kind}; {klass}) of a sealed document reports {stm}, expected {exp}")
            if fid is not None:
                out.h("attributed_to_finding", fid)
                if out.hist[("attributed_to_finding", fid)] > 3:
                    continue                      # keep a few replays per finding and worker, count the rest
            out.prop_fail.append(({"sealed_text": t, "mutated_text": tx, "kind": kind, "class": klass, "status": stm, "expected": exp},
                                  what, fid))
    # ---- cosmetic respellings ----
    exp_n = docprops.expected(nS)
    for r_i in range(cfg["respell"]):
        rr = random.Random(rng.random())
        if r_i == 0:
            rr.random = lambda: 0.0               # the corner where every freedom is taken
        try:
            tx, _, sites = render.render(nS, rr)
        except Exception as e:  # noqa
            out.h("respelling", "render-raises")
            continue
        out.count += 1
        Dr, err = impl_parse(tx)
        if err:
            from octave_mcp.core.parser import parse_with_warnings
            try:
                Dr = parse_with_warnings(tx)[0]
                out.h("respelling", "read leniently (strict parse refuses)")
            except Exception:  # noqa
                out.h("respelling", "unreadable (C03 domain)")
                continue
        nr = neutral(Dr)
        if docprops.first_diff(exp_n, nr):
            out.h("respelling", "content differs after read (C02/C03 domain)")
            continue
        str_, actr = impl_verify(Dr)
        out.h("respelling", f"sites>={min(sites // 20 * 20, 200)}")
        out.model_cases.append(("respelled", nr, "verify", (str_, actr), {"text": tx}))
        if str_ != "VERIFIED":
            out.prop_fail.append(({"sealed_text": t, "respelled_text": tx, "status": str_}, f"a cosmetic respelling of the sealed text reports {str_}", None))
    if not out.samples:
        out.samples.append({"unsealed_text": x, "sealed_text": t,
                            "example_mutation": next(({"kind": k, "text": (doccases.impl_emit(m) if how == "ast" else m)} for k, how, m in chosen
                                                      if k in ("change-type", "replace-value")), None)})


STALE_SEALS = [
    [("a", "HASH", ("str", "0" * 64), [], None)],
    [("a", "HASH", ("int", "12"), [], None)],
    [("a", "HASH", ("null",), [], None)],
    [("a", "HASH", ("list", [("str", "a")]), [], None)],
    [("a", "SCOPE", ("str", "LINES[1,2]"), [], None)],
    [("b", "HIDDEN", None, [("a", "HASH", ("str", "x"), [], None)], [])],
    [("c", "only a comment")],
    [],
    [("a", "HASH", ("str", "a"), [], None), ("a", "HASH", ("str", "b"), [], None)],
    [("a", "HASH", ("str", '"quoted"'), [], None)],
]


def wild_subject(d, seed, out):
    """arbitrary ASTs (not necessarily readable text): in-memory statements hold for EVERY document"""
    from octave_mcp.core.sealer import seal_document
    rng = random.Random(seed)
    d = dict(d)
    secs = list(d["sections"])
    x = rng.random()
    if x < 0.6:
        for _ in range(rng.choice([1, 1, 2])):
            sec = ("s", rng.choice(["SEAL", "1", "9b"]), SEAL, rng.choice([None, "a"]), list(rng.choice(STALE_SEALS)), [])
            secs.insert(rng.randint(0, len(secs)), sec)
    elif x < 0.7:
        secs.append(("b", SEAL, None, [("a", "HASH", ("str", "x"), [], None)], []))       # a BLOCK named SEAL is no seal
    elif x < 0.8:
        secs.append(("s", SEAL, "OTHER", None, [("a", "HASH", ("str", "x"), [], None)], []))  # id SEAL, key not
    d["sections"] = secs
    try:
        D = astcodec.doc_from_neutral(d)
        st, act = impl_verify(D)
        S = seal_document(D)
        nS = neutral(S)
        stS, _ = impl_verify(S)
        S2 = seal_document(S)
        nS2 = neutral(S2)
    except (ValueError, TypeError, AttributeError) as e:
        out.h("wild", "implementation raises " + type(e).__name__)
        return
    out.count += 3
    nseal = sum(1 for q in secs if is_seal(q))
    out.h("wild", f"seal-sections={nseal} -> {st}")
    case = {"doc": d}
    if nseal == 0 and st != "NO_SEAL":
        out.prop_fail.append((dict(case, status=st), f"a document without SEAL section reports {st}", None))
    if stS != "VERIFIED":
        out.prop_fail.append((dict(case, status=stS), f"a freshly sealed document (arbitrary AST) reports {stS} in memory", None))
    if nS2 != nS:
        out.prop_fail.append((dict(case), "sealing twice does not give the same seal (arbitrary AST)", None))
    if sum(1 for q in nS["sections"] if is_seal(q)) != 1:
        out.prop_fail.append((dict(case), "a sealed document does not carry exactly one SEAL section", None))
    try:
        nDw = neutral(D)
        if harness_body(nS) != harness_body(nDw):
            out.prop_fail.append((dict(case, sealed=nS), "sealing changes the content it seals (arbitrary AST)", None))
    except TypeError:
        pass
    out.model_cases.append(("wild-verify", d, "verify", (st, act), {}))
    out.model_cases.append(("wild-seal", d, "seal", (nS, stS, nS2 == nS), {}))


def _fast_codec():
    """memoise the code-point encoding of strings inside this process (keys and words repeat a lot)"""
    import functools
    from lib import model
    if not hasattr(astcodec.enc_str, "cache_info"):
        astcodec.enc_str = functools.lru_cache(maxsize=200000)(model.enc_str)


def worker(args):
    kind, chunk, cfg = args
    _fast_codec()
    out = Out()
    tmpdir = tempfile.mkdtemp(prefix="c15w")
    try:
        for d, seed in chunk:
            try:
                if kind == "wild":
                    wild_subject(d, seed, out)
                else:
                    subject(d, seed, cfg, out, tmpdir)
            except Exception as e:  # the harness must not hide a crash of the implementation
                import traceback
                out.prop_fail.append(({"doc": d, "exception": traceback.format_exc(limit=6)},
                                      f"seal/verify raised {type(e).__name__}", None))
            if len(out.model_cases) > 400:
                model_check(out, cfg["model"])
        model_check(out, cfg["model"])
    finally:
        shutil.rmtree(tmpdir, ignore_errors=True)
    return out


def merge(ctx, outs):
    for o in outs:
        ctx.count(o.count)
        for (name, b), n in o.hist.items():
            ctx.hist(name, b, n)
        for k in o.nontrivial:
            ctx.nontrivial(k)
        for s in o.samples:
            ctx.sample(s, cap=4)
        for case, what, fid in o.prop_fail:
            ctx.property_failure(case, what, finding=fid)
        for case, what in o.corr_fail:
            ctx.correspondence_failure(case, what)


# ------------------------------------------------------------------------------------------------------------
# fixed cases: finding witnesses, corpus
def replay_pair(sealed_text, mutated_text):
    """(status of the mutant, expectation, class, neutral docs) for a (sealed text, mutated text) pair"""
    D2, err = impl_parse(sealed_text)
    Dm, err2 = impl_parse(mutated_text)
    if err or err2:
        return None
    n2, nm = neutral(D2), neutral(Dm)
    st0, _ = impl_verify(D2)
    stm, actm = impl_verify(Dm)
    exp, klass = expectation(n2, nm)
    return st0, stm, actm, exp, klass, n2, nm


def run_fixed(ctx, use_model):
    out = Out()
    for fid, f in ctx.known.items():
        w = f["witness"]
        r = replay_pair(w["sealed_text"], w["mutated_text"])
        still = bool(r) and r[0] == "VERIFIED" and r[3] == "INVALID" and r[1] != "INVALID" and attribute(r[5], r[6], r[3], r[1]) == fid
        ctx.finding_witness(fid, still)
    cdir = Path(__file__).resolve().parents[2] / "corpus" / "C15"
    for cf in sorted(cdir.glob("*.json")):
        c = json.loads(cf.read_text())
        r = replay_pair(c["sealed_text"], c["mutated_text"])
        ctx.count()
        if r is None:
            ctx.hist("corpus", "unparseable")
            continue
        st0, stm, actm, exp, klass, n2, nm = r
        if st0 != "VERIFIED":
            ctx.hist("corpus", "recorded sealed text no longer verifies under this implementation (re-sealed below)")
            D0 = impl_parse(c["sealed_text"])[0]
            from octave_mcp.core.emitter import emit
            from octave_mcp.core.sealer import seal_document
            t_new = emit(seal_document(D0))
            oh, nh = hash_vals(n2["sections"][-1]), hash_vals(neutral(impl_parse(t_new)[0])["sections"][-1])
            if len(oh) == 1 and len(nh) == 1 and oh[0][0] == "str" and nh[0][0] == "str":
                r = replay_pair(t_new, c["mutated_text"].replace(oh[0][1], nh[0][1]))
                if r is None or r[0] != "VERIFIED":
                    continue
                st0, stm, actm, exp, klass, n2, nm = r
            else:
                continue
        ctx.hist("corpus", f"{klass}->{stm}")
        out.model_cases.append(("corpus:" + cf.name, nm, "verify", (stm, actm), {"corpus": cf.name}))
        if "impl_status" in c and c["impl_status"] != stm:
            ctx.hist("corpus", f"status changed since recorded: {cf.name}")
        if not meets(exp, stm):
            fid = attribute(n2, nm, exp, stm)
            ctx.property_failure({"corpus": cf.name, "sealed_text": c["sealed_text"], "mutated_text": c["mutated_text"], "status": stm,
                                  "expected": exp, "class": klass}, f"corpus {cf.name}: edit ({klass}) reports {stm}, expected {exp}", finding=fid)
    leaf_kind_grid(ctx)
    model_check(out, use_model)
    merge(ctx, [out])


def leaf_kind_grid(ctx):
    """Deterministic grid, run on every tier: a single leaf whose KIND changes while its spelling stays the same
    (404 <-> "404", true <-> "true", null <-> "null", 2.5 <-> "2.5") must invalidate the seal, at every position
    (body assignment, nested block child, META field, list item, inline-map value inside a list) and under plain and
    always-quoted keys (PATTERN, REGEX).  Checked in memory (seal d1, swap the leaf, verify) and after text."""
    from octave_mcp.core.ast_nodes import Assignment, Block, Document, InlineMap, ListValue
    from octave_mcp.core.emitter import emit
    from octave_mcp.core.parser import parse
    from octave_mcp.core.sealer import seal_document, verify_seal
    pairs = [(404, "404"), ("404", 404), (True, "true"), ("true", True), (False, "false"), (None, "null"), ("null", None),
             (2.5, "2.5"), ("2.5", 2.5), (1, 1.0), (1.0, 1), (0, False), (True, 1), ("x", ["x"]),
             # neighbouring doubles: the canonical text must tell apart any two distinct floats (repr is injective)
             (0.30000000000000004, 0.3000000000000001), (0.1 + 0.2, 0.3), (1234567890123456.0, 1234567890123459.0),
             (1e16, 1.0000000000000002e16), (2.0 ** 53, 2.0 ** 53 + 2), (5e-324, 1e-323), (1.7976931348623157e308, 1.7976931348623155e308),
             (-0.0, 0.0), (123456789012345678, 123456789012345679), (10 ** 30, 10 ** 30 + 1)]

    def build(pos, key, v):
        if pos == "assign":
            return Document(name="D", sections=[Assignment(key="A", value=1), Assignment(key=key, value=v)])
        if pos == "nested":
            return Document(name="D", sections=[Block(key="B", children=[Block(key="C", children=[Assignment(key=key, value=v)])])])
        if pos == "meta":
            return Document(name="D", meta={"TYPE": "T", key: v}, sections=[Assignment(key="A", value=1)])
        if pos == "list":
            return Document(name="D", sections=[Assignment(key=key, value=ListValue(items=["a", v, 2]))])
        if pos == "map":
            return Document(name="D", sections=[Assignment(key="L", value=ListValue(items=[InlineMap(pairs={key: v}), "z"]))])
        if pos == "map-multiline":
            return Document(name="D", sections=[Assignment(key="L", value=ListValue(items=[InlineMap(pairs={key: v}),
                                                                                      InlineMap(pairs={"Q": "a b"}), "z", "y"]))])
        raise ValueError(pos)

    def status(doc):
        r = verify_seal(doc)
        return getattr(getattr(r, "status", r), "name", str(getattr(r, "status", r)))

    for pos in ("assign", "nested", "meta", "list", "map", "map-multiline"):
        for key in ("K", "PATTERN", "REGEX"):
            for v1, v2 in pairs:
                if isinstance(v2, list):
                    v2 = ListValue(items=list(v2))
                    if pos in ("map", "map-multiline"):
                        continue
                ctx.count()
                ctx.nontrivial(("leafkind", pos, key, repr(v1), repr(v2)))
                case = {"stream": "leaf-kind-grid", "position": pos, "key": key, "sealed_value": repr(v1), "edited_value": repr(v2)}
                try:
                    d1 = seal_document(build(pos, key, v1))
                    if status(d1) != "VERIFIED":
                        ctx.property_failure(dict(case, status=status(d1)), "leaf-kind grid: a freshly sealed document does not verify")
                        continue
                    d2 = build(pos, key, v2)
                    d2.sections = list(d2.sections) + [d1.sections[-1]]          # the SEAL section of the sealed document
                    if d1.meta is not None and d2.meta is not None:
                        for mk, mv in d1.meta.items():                            # anything seal_document added to META
                            d2.meta.setdefault(mk, mv)
                    st_mem = status(d2)
                    t1, t2 = emit(d1), emit(d2)
                    st_txt = status(parse(t2))
                except Exception as e:  # noqa
                    ctx.property_failure(dict(case, error=f"{type(e).__name__}: {e}"[:200]), "leaf-kind grid: seal / verify raised")
                    continue
                ctx.hist("leaf_kind_grid", f"{pos}:{st_mem}/{st_txt}")
                if st_mem != "INVALID":
                    ctx.property_failure(dict(case, status_in_memory=st_mem, sealed_text=t1, edited_text=t2),
                                         f"leaf-kind grid: the kind or value of one leaf changed ({v1!r} -> {v2!r}) and the seal still reports {st_mem} in memory")
                elif t1 != t2 and st_txt != "INVALID":
                    ctx.property_failure(dict(case, status_after_text=st_txt, sealed_text=t1, edited_text=t2),
                                         f"leaf-kind grid: edited text differs from the sealed text and the seal reports {st_txt}")


# ------------------------------------------------------------------------------------------------------------
# CLI
def cli(args, cwd):
    env = dict(os.environ)
    p = subprocess.run([sys.executable, "-m", "octave_mcp.cli.main"] + args, cwd=cwd, env=env, stdout=subprocess.PIPE,
                       stderr=subprocess.PIPE, text=True, timeout=120)
    return p.returncode, p.stdout, p.stderr


def seal_line(stdout):
    for l in stdout.splitlines():
        if l.startswith("Seal: "):
            return "VERIFIED" if "VERIFIED" in l else "INVALID" if "INVALID" in l else "NO_SEAL"
    return None


def cli_subject(args):
    d0, seed, idx = args
    rng = random.Random(seed)
    res = {"fail": [], "count": 0, "obs": [], "hist": Counter()}
    tmp = tempfile.mkdtemp(prefix="c15cli")
    try:
        lenient = rng.random() < 0.5
        x = render.render(d0, rng)[0] if lenient else doccases.impl_emit(d0)
        src = os.path.join(tmp, "in.oct.md")
        Path(src).write_text(x, encoding="utf-8")
        sealed = os.path.join(tmp, "sealed.oct.md")
        rc, so, se = cli(["seal", "in.oct.md", "-o", "sealed.oct.md"], tmp)
        res["count"] += 1
        if rc != 0 or not os.path.exists(sealed):
            res["hist"]["cli seal refused the input (%s)" % ("lenient" if lenient else "canonical")] += 1
            return res
        t = Path(sealed).read_text(encoding="utf-8")
        base = {"input_text": x, "sealed_text": t}

        def check(name, file, require, want_status, want_rc, extra=None):
            a = ["validate", file, "--verify-seal"] + (["--require-seal"] if require else [])
            rc, so, se = cli(a, tmp)
            res["count"] += 1
            st = seal_line(so)
            res["obs"].append((st, require, rc))
            res["hist"][f"{name}: {st} rc={rc}"] += 1
            if want_status is not None and (st != want_status or rc != want_rc):
                res["fail"].append((dict(base, step=name, argv=a, rc=rc, seal_line=st, stderr=se[-300:], **(extra or {})),
                                    f"octave validate --verify-seal{' --require-seal' if require else ''} on {name}: {st}/exit {rc}, expected {want_status}/exit {want_rc}",
                                    (extra or {}).get("finding")))
        check("the sealed file", "sealed.oct.md", True, "VERIFIED", 0)
        check("the unsealed file (--require-seal)", "in.oct.md", True, "NO_SEAL", 1)
        check("the unsealed file", "in.oct.md", False, "NO_SEAL", 0)
        # seal again -> same bytes
        rc, so, se = cli(["seal", "sealed.oct.md", "-o", "sealed2.oct.md"], tmp)
        res["count"] += 1
        t2 = Path(os.path.join(tmp, "sealed2.oct.md")).read_text(encoding="utf-8") if rc == 0 else None
        if t2 != t:
            res["fail"].append((dict(base, step="seal the sealed file", resealed=t2, rc=rc), "octave seal of a sealed file does not reproduce the same file", None))
        # tampered / respelled
        D2, err = impl_parse(t)
        if err:
            return res
        n2 = neutral(D2)
        muts = [(k, "ast", m) for k, m in doc_muts(n2)] + [(k, "text", m) for k, m in text_muts(t, False)]
        for j, (kind, how, m) in enumerate(pick(muts, 4, rng)):
            try:
                tx = doccases.impl_emit(m) if how == "ast" else m
            except Exception:  # noqa
                continue
            Dm, err = impl_parse(tx)
            if err:
                continue
            nm = neutral(Dm)
            exp, klass = expectation(n2, nm)
            if exp is None or exp == "NOT_VERIFIED":
                continue
            fn = f"m{j}.oct.md"
            Path(os.path.join(tmp, fn)).write_text(tx, encoding="utf-8")
            fid = attribute(n2, nm, exp, impl_verify(Dm)[0])
            check(f"a mutated file ({kind}; {klass})", fn, True, exp, 0 if exp == "VERIFIED" else 1, {"mutated_text": tx, "finding": fid})
        nS = neutral(D2)
        if not docprops.first_diff(docprops.expected(nS), nS):
            tx = render.render(nS, random.Random(rng.random()))[0]
            Dr, err = impl_parse(tx)
            if not err and not docprops.first_diff(docprops.expected(nS), neutral(Dr)):
                Path(os.path.join(tmp, "r.oct.md")).write_text(tx, encoding="utf-8")
                check("a respelled sealed file", "r.oct.md", True, "VERIFIED", 0, {"respelled_text": tx})
    finally:
        shutil.rmtree(tmp, ignore_errors=True)
    return res


def replay(ctx, case):
    """./check C15 --replay <file>: re-evaluate a recorded failing input on the current tree"""
    c = case.get("case", case)
    if "sealed_text" in c and "mutated_text" in c:
        r = replay_pair(c["sealed_text"], c["mutated_text"])
        if r is None:
            print("replay: a text no longer parses")
            return 0
        st0, stm, actm, exp, klass, n2, nm = r
        print(f"sealed: {st0}; mutant ({klass}): {stm}; expected {exp}; finding={attribute(n2, nm, exp, stm)}")
        return 0 if meets(exp, stm) else 1
    if "text" in c:
        D, err = impl_parse(c["text"])
        if err:
            print("replay: text does not parse:", err)
            return 0
        from octave_mcp.core.emitter import emit
        from octave_mcp.core.sealer import seal_document
        S = seal_document(D)
        sts = [impl_verify(D)[0], impl_verify(S)[0], impl_verify(impl_parse(emit(S))[0])[0]]
        print("unsealed / sealed in memory / after text:", sts)
        return 0 if sts == ["NO_SEAL", "VERIFIED", "VERIFIED"] else 1
    print("replay: case shape not recognised")
    return 2


# ------------------------------------------------------------------------------------------------------------
def run(ctx):
    use_model = ctx.build_status["drivers"].get("seal", False)
    have_syn = doccases.have_model(ctx)
    edits = ctx.scale(30, 120)
    ctx.extra["rule"] = (
        "subjects = content-model documents (docgen: envelope, sentinel, frontmatter, META with one nested level, separator, "
        "assignments, blocks, section markers, lists, inline maps, zones, holographic values, comments; depth<=4) that falsify no wf "
        "clause and whose canonical text reads back to the generator's content (C01/C02 domain). Per subject: verify(unsealed)=NO_SEAL; "
        "verify(seal(d))=VERIFIED in memory; seal(seal(d))=seal(d); parse(emit(seal d)) verifies and re-seals to the same text; file "
        "write+read verifies; single-site mutations = every AST site of the read-back sealed document (replace/retype/insert/delete/"
        "move/reorder/renest one leaf or node, rename a key, META field edits, envelope name, frontmatter, grammar, separator, seal "
        "fields, extra/second SEAL sections) re-emitted, plus raw one-line edits of the sealed text (delete/duplicate/swap/indent/dedent "
        "a line, hash digit flips, cosmetic blanks) -- quick: 30 per subject, thorough: 120 per subject (all sites when the subject has fewer), stratified by edit family and kind, hash flips drawn from all 64 positions in thorough; a mutant is expected "
        "INVALID only if it parses and its (name, frontmatter, META, key/value/type/order/nesting of the body) or its HASH value differs "
        "from the original's, expected VERIFIED if its whole content is identical, NO_SEAL if no SEAL section is left, otherwise "
        "(comments, block target, annotation, grammar, separator, other seal fields) nothing is demanded; respellings = render(sigma) "
        "of the sealed content incl. the all-freedoms corner. Every status is also computed by the extracted model with hashlib "
        "digests of the texts the model asks for. Arbitrary (wild) ASTs with stale/odd SEAL sections exercise the in-memory "
        "statements and every branch of extract_seal/verify_seal. non-trivial = distinct subject with >= 2 top-level nodes/META fields")
    run_fixed(ctx, use_model)
    n = ctx.scale(1000, 20000)
    cases = doccases.gen_docs(ctx, int(n * 1.08), valid_fraction=1.0) if have_syn else \
        [(d, []) for d in (docgen.Gen(ctx.rng, wild=False, clean=True).doc() for _ in range(n)) if docprops.in_content_model(d)]
    subjects = []
    for d, cl in cases:
        if cl:
            ctx.hist("skipped", "falsifies a wf clause (C01/C02 finding classes): " + ",".join(str(c) for c in sorted(set(cl))))
            continue
        if len(subjects) < n:
            subjects.append((d, ctx.rng.random()))
    gw = docgen.Gen(ctx.rng, wild=True, max_depth=3)
    wild = [(gw.doc(), ctx.rng.random()) for _ in range(ctx.scale(1500, 30000))]
    cfg = {"edits": edits, "respell": ctx.scale(3, 8), "all_hash": not ctx.quick(), "model": use_model}
    nproc = min(16, os.cpu_count() or 4)
    size = max(1, len(subjects) // (nproc * 4))
    jobs = [("doc", subjects[i:i + size], cfg) for i in range(0, len(subjects), size)]
    wsize = max(1, len(wild) // (nproc * 2))
    jobs += [("wild", wild[i:i + wsize], cfg) for i in range(0, len(wild), wsize)]
    mp = multiprocessing.get_context("fork")
    with mp.Pool(nproc) as pool:
        outs = pool.map(worker, jobs, chunksize=1)
    merge(ctx, outs)
    ctx.extra["subjects"] = len(subjects)
    ctx.extra["wild_documents"] = len(wild)
    # ---- CLI ----
    ncli = ctx.scale(6, 240)
    cli_jobs = [(d, ctx.rng.random(), i) for i, (d, _) in enumerate(subjects[:ncli])]
    from concurrent.futures import ThreadPoolExecutor
    with ThreadPoolExecutor(max_workers=nproc) as ex:
        cres = list(ex.map(cli_subject, cli_jobs))
    obs = []
    for r in cres:
        ctx.count(r["count"])
        for k, v in r["hist"].items():
            ctx.hist("cli", k, v)
        for case, what, fid in r["fail"]:
            ctx.property_failure(case, what, finding=fid)
        obs += r["obs"]
    if use_model and obs:
        code = {"VERIFIED": 1, "INVALID": 2, "NO_SEAL": 3}
        o2 = [(st, req, rc) for st, req, rc in obs if st in code]
        res = run_driver("seal", [f"cliexit {code[st]} {1 if req else 0}" for st, req, rc in o2])
        for (st, req, rc), m in zip(o2, res):
            ctx.count()
            if str(rc) != m:
                ctx.correspondence_failure({"status": st, "require_seal": req, "impl_exit": rc, "model_exit": m},
                                           "exit status of validate --verify-seal differs from the CLI exit model")
    ctx.extra["cli_invocations"] = sum(r["count"] for r in cres)
    ctx.assumptions += [
        "SHA-256 is an oracle: digests are computed with hashlib for the texts the model emits; collision-freeness is a premise of "
        "C15_tamper_detected for the one pair of texts, not an axiom; every digest satisfies hexdigest_shape (checked by the driver)",
        "verification after a text round trip rests on the reader returning the sealed content (C01/C02/C03): explicit premise "
        "same_sealed of C15_verify_after_text / C15_verify_respelled; subjects are restricted to documents on which it holds",
        "comments, block targets, section annotations, grammar version and separator are not in the property's list of protected "
        "items: edits of those are run for correspondence only (trailing document comments are in fact outside the hash)",
    ]
    ctx.trusted_base.append("harness/translate/sealer_t.py exact statement templates for the five functions of sealer.py and the seal/validate CLI flow")
