"""Shared check machinery: context, outcome, decision logic, evidence writer.

Every property module (harness/props/cXX.py) exposes

    def run(ctx: Ctx) -> None

and reports through ctx:

    ctx.count(n)                    -- n evaluations were performed
    ctx.nontrivial(key)             -- a distinct non-trivial case (hashable key)
    ctx.sample(obj)                 -- a written-out case for the evidence
    ctx.hist(name, bucket)          -- input-distribution histogram
    ctx.property_failure(case, what, finding=None)
          -- the IMPLEMENTATION violates the property on `case` (a JSON-able
             replay).  `finding` is the id of a known_findings.jsonl entry when
             the module's classifier attributes it to one, else None.
    ctx.correspondence_failure(case, what)
          -- model and implementation disagree on `case`
    ctx.obligation_failure(name, what)
          -- a Coq obligation / pin did not check (normally reported by build)

The decision (exit code, VIOLATION / KNOWN-FINDING lines) is taken in
finish(), identically for every property.
"""
from __future__ import annotations

import hashlib
import json
import os
import random
import sys
import time
from collections import Counter, OrderedDict
from pathlib import Path

VERIF = Path(__file__).resolve().parents[2]
REPO = Path(os.environ.get("VERIF_REPO", "/repo"))
SRC = REPO / "src" / "octave_mcp"
BUILD = VERIF / "build"
EVIDENCE = VERIF / "evidence"
REPLAYS = VERIF / "replays"
FINDINGS_FILE = VERIF / "known_findings.jsonl"

TRUSTED_BASE_COMMON = [
    "Coq 8.16.1 kernel (coqc, full .vo build; vm_compute used, native_compute not used)",
    "harness/translate/*.py (fail-closed Python-ast translator: tables/structure of /repo -> coq/theories/Gen/*.v)",
    "Coq extraction with ExtrOcamlBasic directives only (bool, option, unit, list, prod, sumbool, sumor; andb/orb inlined) + OCaml 4.13.1 ocamlopt + ocaml/*_main.ml line-protocol drivers",
    "correspondence harness (generators, canonicalisation, /venv Python 3.12)",
]


def load_findings(prop: str):
    out = []
    files = [FINDINGS_FILE] + sorted((VERIF / "known_findings.d").glob("*.jsonl"))
    for ff in files:
        if not ff.exists():
            continue
        for line in ff.read_text().splitlines():
            line = line.strip()
            if not line or line.startswith("#"):
                continue
            if line.startswith("fixed:"):
                continue
            rec = json.loads(line)
            if rec.get("property") == prop:
                out.append(rec)
    return out


class Ctx:
    def __init__(self, prop: str, tier: str, seed: int):
        self.prop = prop
        self.tier = tier
        self.seed = seed
        self.rng = random.Random(seed * 1000003 + int(prop[1:]))
        self.t0 = time.time()
        self.evaluations = 0
        self._distinct = set()
        self.samples = []
        self.hists = {}
        self.prop_failures = []      # (case, what, finding)
        self.corr_failures = []      # (case, what)
        self.obl_failures = []       # (name, what)
        self.obligations = []        # [{name, kind, ok, assumptions}]
        self.extra = OrderedDict()
        self.assumptions = []
        self.trusted_base = list(TRUSTED_BASE_COMMON)
        self.findings = load_findings(prop)
        self.known = {f["id"]: f for f in self.findings if f.get("status") == "known"}
        self.finding_seen = OrderedDict()   # id -> what (first)
        self.finding_replayed = {}          # id -> bool (witness still fails)
        self.checker_cmd = ""
        self.level = "proof"
        self.exhaustive = False
        self.explanation = ""

    # ---- reporting ------------------------------------------------------
    def quick(self):
        return self.tier == "quick"

    def scale(self, quick, thorough):
        """Number of cases of a stream.  When a proof obligation or pin is already broken (the tie between model and
        source no longer checks) the quick tier searches harder for a failing input: 4x the quick volume, capped by
        the thorough volume."""
        if self.tier != "quick":
            return thorough
        if self.obl_failures or any(not o.get("ok", True) for o in self.obligations):
            try:
                return min(thorough, quick * 4)
            except TypeError:
                return quick
        return quick

    def count(self, n=1):
        self.evaluations += n

    def nontrivial(self, key):
        if not isinstance(key, (str, bytes, int, tuple)):
            key = json.dumps(key, sort_keys=True, default=str)
        self._distinct.add(hashlib.blake2b(repr(key).encode(), digest_size=12).digest())

    def sample(self, obj, cap=12):
        if len(self.samples) < cap:
            self.samples.append(obj)

    def hist(self, name, bucket, n=1):
        self.hists.setdefault(name, Counter())[str(bucket)] += n

    def property_failure(self, case, what, finding=None):
        if finding is not None and finding in self.known:
            if finding not in self.finding_seen:
                self.finding_seen[finding] = what
            return
        self.prop_failures.append((case, what, finding))

    def finding_witness(self, fid, still_fails, what=None):
        """Result of replaying the committed witness of finding `fid`."""
        self.finding_replayed[fid] = bool(still_fails)
        if still_fails and fid in self.known and fid not in self.finding_seen:
            self.finding_seen[fid] = what or self.known[fid].get("what", "")

    def correspondence_failure(self, case, what):
        self.corr_failures.append((case, what))

    def obligation_failure(self, name, what):
        self.obl_failures.append((name, what))

    # ---- decision ---------------------------------------------------------
    def _write_replay(self, payload):
        d = REPLAYS / self.prop
        d.mkdir(parents=True, exist_ok=True)
        blob = json.dumps(payload, indent=1, sort_keys=True, default=str, ensure_ascii=True)
        h = hashlib.sha256(blob.encode()).hexdigest()[:16]
        p = d / f"{h}.json"
        p.write_text(blob)
        return p

    def finish(self):
        lines = []
        violations = 0
        # known findings first (one line each)
        for fid, what in self.finding_seen.items():
            f = self.known[fid]
            lines.append(f"KNOWN-FINDING: property={self.prop} {fid}: {f.get('what', what)}")
        # concrete failing inputs not attributed to a known finding
        seen = set()
        for case, what, finding in self.prop_failures:
            key = what.split(":")[0]
            if key in seen and violations >= 3:
                continue
            seen.add(key)
            p = self._write_replay({"property": self.prop, "kind": "failing-input", "what": what,
                                     "attributed_to_fixed_or_unlisted_finding": finding,
                                     "seed": self.seed, "tier": self.tier, "case": case})
            lines.append(f"VIOLATION property={self.prop} replay={p}")
            violations += 1
            if violations >= 5:
                break
        if violations == 0 and (self.corr_failures or self.obl_failures):
            payload = {"property": self.prop, "kind": "no-failing-input-found", "seed": self.seed,
                       "tier": self.tier,
                       "broken_obligations": [{"name": n, "what": w} for n, w in self.obl_failures[:20]],
                       "broken_correspondence": [{"case": c, "what": w} for c, w in self.corr_failures[:20]]}
            p = self._write_replay(payload)
            lines.append(f"VIOLATION property={self.prop} replay={p} no-failing-input-found")
            violations += 1
        self.write_evidence(violations)
        for ln in lines:
            print(ln)
        sys.stdout.flush()
        return 1 if violations else 0

    # ---- evidence -----------------------------------------------------------
    def write_evidence(self, violations):
        EVIDENCE.mkdir(exist_ok=True)
        n_obl = len(self.obligations)
        n_ok = sum(1 for o in self.obligations if o.get("ok"))
        cov = OrderedDict()
        cov["obligations"] = n_obl
        cov["discharged"] = n_ok
        cov["checker_cmd"] = self.checker_cmd or "make -C coq (coq_makefile, full .vo) + coqc Print Assumptions per theorem"
        cov["trusted_base"] = self.trusted_base
        cov["evaluations"] = self.evaluations
        cov["distinct_nontrivial"] = len(self._distinct)
        cov["rule"] = self.extra.pop("rule", "")
        cov["samples"] = self.samples if self.samples else [{"note": "no case sampled"}]
        cov["exhaustive"] = bool(self.exhaustive)
        if self.explanation:
            cov["explanation"] = self.explanation
        cov["obligation_list"] = self.obligations
        cov["input_distribution"] = {k: dict(v.most_common(40)) for k, v in self.hists.items()}
        cov["known_findings_reported"] = list(self.finding_seen.keys())
        cov["known_finding_witness_still_fails"] = self.finding_replayed
        cov["correspondence_disagreements"] = len(self.corr_failures)
        cov["property_failures_unattributed"] = len(self.prop_failures)
        for k, v in self.extra.items():
            cov[k] = v
        ev = OrderedDict()
        ev["property_id"] = self.prop
        ev["tier"] = self.tier
        ev["seed"] = self.seed
        ev["level"] = self.level
        ev["coverage"] = cov
        ev["assumptions"] = self.assumptions
        ev["wall_s"] = round(time.time() - self.t0, 2)
        ev["violations"] = violations
        (EVIDENCE / f"{self.prop}.json").write_text(json.dumps(ev, indent=1, default=str) + "\n")
