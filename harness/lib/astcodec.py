"""Neutral AST form shared by the implementation side and the extracted model.

neutral value : ('null',) | ('bool', b) | ('int', text) | ('float', text) | ('str', s) | ('list', [v...])
              | ('map', [(k, v)...]) | ('holo', raw) | ('zone', content, tag|None, marker) | ('absent',)
neutral node  : ('a', key, value, [leading], trailing|None) | ('b', key, target|None, [children], [leading])
              | ('s', id, key, annot|None, [children], [leading]) | ('c', text)
neutral doc   : {'name','grammar','front','sep','meta':[(k, ('v', value) | ('d', [(k, value)]))],'sections','trailing'}
Line encoding: whitespace separated tokens, strings via enc_str, None as '~'.
"""
from __future__ import annotations

from .model import dec_str, enc_str


def _opt(s):
    return "~" if s is None else enc_str(s)


# ---------------- implementation objects -> neutral -----------------------------------------
def value_to_neutral(v):
    from octave_mcp.core.ast_nodes import Absent, HolographicValue, InlineMap, ListValue, LiteralZoneValue
    if isinstance(v, Absent):
        return ("absent",)
    if v is None:
        return ("null",)
    if isinstance(v, bool):
        return ("bool", v)
    if isinstance(v, int):
        return ("int", str(v))
    if isinstance(v, float):
        return ("float", str(v))
    if isinstance(v, str):
        return ("str", v)
    if isinstance(v, ListValue):
        return ("list", [value_to_neutral(x) for x in v.items])
    if isinstance(v, InlineMap):
        return ("map", [(k, value_to_neutral(x)) for k, x in v.pairs.items()])
    if isinstance(v, HolographicValue):
        return ("holo", v.raw_pattern)
    if isinstance(v, LiteralZoneValue):
        return ("zone", v.content, v.info_tag, v.fence_marker)
    if isinstance(v, dict):
        return ("dict", [(k, value_to_neutral(x)) for k, x in v.items()])
    raise TypeError(f"value kind outside the neutral form: {type(v).__name__}")


def node_to_neutral(n):
    from octave_mcp.core.ast_nodes import Assignment, Block, Comment, Section
    if isinstance(n, Assignment):
        return ("a", n.key, value_to_neutral(n.value), list(n.leading_comments or []), n.trailing_comment)
    if isinstance(n, Block):
        return ("b", n.key, n.target, [node_to_neutral(c) for c in n.children], list(n.leading_comments or []))
    if isinstance(n, Section):
        return ("s", n.section_id, n.key, n.annotation, [node_to_neutral(c) for c in n.children],
                list(n.leading_comments or []))
    if isinstance(n, Comment):
        return ("c", n.text)
    raise TypeError(f"node kind outside the neutral form: {type(n).__name__}")


def doc_to_neutral(d):
    meta = []
    for k, v in d.meta.items():
        if isinstance(v, dict):
            meta.append((k, ("d", [(k2, value_to_neutral(v2)) for k2, v2 in v.items()])))
        else:
            meta.append((k, ("v", value_to_neutral(v))))
    return {"name": d.name, "grammar": d.grammar_version, "front": d.raw_frontmatter, "sep": bool(d.has_separator),
            "meta": meta, "sections": [node_to_neutral(s) for s in d.sections],
            "trailing": list(d.trailing_comments or [])}


# ---------------- neutral -> implementation objects ------------------------------------------
def value_from_neutral(t):
    from octave_mcp.core.ast_nodes import Absent, HolographicValue, InlineMap, ListValue, LiteralZoneValue
    k = t[0]
    if k == "absent":
        return Absent()
    if k == "null":
        return None
    if k == "bool":
        return t[1]
    if k == "int":
        return int(t[1])
    if k == "float":
        return float(t[1])
    if k == "str":
        return t[1]
    if k == "list":
        return ListValue(items=[value_from_neutral(x) for x in t[1]])
    if k == "map":
        return InlineMap(pairs={kk: value_from_neutral(x) for kk, x in t[1]})
    if k == "holo":
        return HolographicValue(example=None, constraints=None, target=None, raw_pattern=t[1])
    if k == "zone":
        return LiteralZoneValue(content=t[1], info_tag=t[2], fence_marker=t[3])
    raise ValueError(k)


def node_from_neutral(t):
    from octave_mcp.core.ast_nodes import Assignment, Block, Comment, Section
    k = t[0]
    if k == "a":
        return Assignment(key=t[1], value=value_from_neutral(t[2]), leading_comments=list(t[3]), trailing_comment=t[4])
    if k == "b":
        return Block(key=t[1], target=t[2], children=[node_from_neutral(c) for c in t[3]], leading_comments=list(t[4]))
    if k == "s":
        return Section(section_id=t[1], key=t[2], annotation=t[3], children=[node_from_neutral(c) for c in t[4]],
                       leading_comments=list(t[5]))
    if k == "c":
        return Comment(text=t[1])
    raise ValueError(k)


def doc_from_neutral(d):
    from octave_mcp.core.ast_nodes import Document
    meta = {}
    for k, mv in d["meta"]:
        if mv[0] == "d":
            meta[k] = {k2: value_from_neutral(v2) for k2, v2 in mv[1]}
        else:
            meta[k] = value_from_neutral(mv[1])
    return Document(name=d["name"], meta=meta, sections=[node_from_neutral(s) for s in d["sections"]],
                    has_separator=d["sep"], raw_frontmatter=d["front"], trailing_comments=list(d["trailing"]),
                    grammar_version=d["grammar"])


# ---------------- neutral -> line tokens -----------------------------------------------------
def enc_value(t, out):
    k = t[0]
    if k == "null":
        out.append("N")
    elif k == "bool":
        out.append("T" if t[1] else "F")
    elif k == "int":
        out.append("I" + enc_str(t[1]))
    elif k == "float":
        out.append("D" + enc_str(t[1]))
    elif k == "str":
        out.append("S" + enc_str(t[1]))
    elif k == "list":
        out.append("L" + str(len(t[1])))
        for x in t[1]:
            enc_value(x, out)
    elif k == "map":
        out.append("M" + str(len(t[1])))
        for kk, x in t[1]:
            out.append(enc_str(kk))
            enc_value(x, out)
    elif k == "holo":
        out.append("H" + enc_str(t[1]))
    elif k == "zone":
        out.append("Z" + enc_str(t[1]))
        out.append(_opt(t[2]))
        out.append(enc_str(t[3]))
    elif k == "absent":
        out.append("A")
    else:
        raise ValueError(k)


def _enc_strs(xs, out):
    out.append(str(len(xs)))
    for x in xs:
        out.append(enc_str(x))


def enc_node(t, out):
    k = t[0]
    if k == "a":
        out.append("a")
        out.append(enc_str(t[1]))
        enc_value(t[2], out)
        _enc_strs(t[3], out)
        out.append(_opt(t[4]))
    elif k == "b":
        out.append("b")
        out.append(enc_str(t[1]))
        out.append(_opt(t[2]))
        out.append(str(len(t[3])))
        for c in t[3]:
            enc_node(c, out)
        _enc_strs(t[4], out)
    elif k == "s":
        out.append("s")
        out.append(enc_str(t[1]))
        out.append(enc_str(t[2]))
        out.append(_opt(t[3]))
        out.append(str(len(t[4])))
        for c in t[4]:
            enc_node(c, out)
        _enc_strs(t[5], out)
    elif k == "c":
        out.append("c")
        out.append(enc_str(t[1]))
    else:
        raise ValueError(k)


def enc_doc(d) -> str:
    out = [enc_str(d["name"]), _opt(d["grammar"]), _opt(d["front"]), "1" if d["sep"] else "0", str(len(d["meta"]))]
    for k, mv in d["meta"]:
        out.append(enc_str(k))
        if mv[0] == "d":
            out.append("d" + str(len(mv[1])))
            for k2, v2 in mv[1]:
                out.append(enc_str(k2))
                enc_value(v2, out)
        else:
            out.append("v")
            enc_value(mv[1], out)
    out.append(str(len(d["sections"])))
    for s in d["sections"]:
        enc_node(s, out)
    _enc_strs(d["trailing"], out)
    return " ".join(out)


# ---------------- line tokens -> neutral --------------------------------------------------------
class _Rd:
    def __init__(self, toks):
        self.t = toks
        self.i = 0

    def next(self):
        x = self.t[self.i]
        self.i += 1
        return x


def _dopt(x):
    return None if x == "~" else dec_str(x)


def dec_value(r):
    x = r.next()
    c, rest = x[0], x[1:]
    if c == "N":
        return ("null",)
    if c == "T":
        return ("bool", True)
    if c == "F":
        return ("bool", False)
    if c == "I":
        return ("int", dec_str(rest))
    if c == "D":
        return ("float", dec_str(rest))
    if c == "S":
        return ("str", dec_str(rest))
    if c == "L":
        return ("list", [dec_value(r) for _ in range(int(rest))])
    if c == "M":
        ps = []
        for _ in range(int(rest)):
            k = dec_str(r.next())
            ps.append((k, dec_value(r)))
        return ("map", ps)
    if c == "H":
        return ("holo", dec_str(rest))
    if c == "Z":
        content = dec_str(rest)
        tag = _dopt(r.next())
        return ("zone", content, tag, dec_str(r.next()))
    if c == "A":
        return ("absent",)
    raise ValueError(x)


def _dec_strs(r):
    return [dec_str(r.next()) for _ in range(int(r.next()))]


def dec_node(r):
    k = r.next()
    if k == "a":
        key = dec_str(r.next())
        v = dec_value(r)
        lead = _dec_strs(r)
        return ("a", key, v, lead, _dopt(r.next()))
    if k == "b":
        key = dec_str(r.next())
        target = _dopt(r.next())
        ch = [dec_node(r) for _ in range(int(r.next()))]
        return ("b", key, target, ch, _dec_strs(r))
    if k == "s":
        sid = dec_str(r.next())
        key = dec_str(r.next())
        annot = _dopt(r.next())
        ch = [dec_node(r) for _ in range(int(r.next()))]
        return ("s", sid, key, annot, ch, _dec_strs(r))
    if k == "c":
        return ("c", dec_str(r.next()))
    raise ValueError(k)


def dec_doc(line: str):
    r = _Rd(line.split())
    d = {"name": dec_str(r.next()), "grammar": _dopt(r.next()), "front": _dopt(r.next()), "sep": r.next() == "1"}
    meta = []
    for _ in range(int(r.next())):
        k = dec_str(r.next())
        x = r.next()
        if x[0] == "d":
            ps = []
            for _ in range(int(x[1:])):
                k2 = dec_str(r.next())
                ps.append((k2, dec_value(r)))
            meta.append((k, ("d", ps)))
        else:
            meta.append((k, ("v", dec_value(r))))
    d["meta"] = meta
    d["sections"] = [dec_node(r) for _ in range(int(r.next()))]
    d["trailing"] = _dec_strs(r)
    return d
