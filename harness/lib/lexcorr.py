"""Lexer correspondence: implementation tokenize() vs extracted model, canonical token rendering."""
from __future__ import annotations

import unicodedata

from .model import enc_str, run_driver

KIND_CODES = {
    "GRAMMAR_SENTINEL": 1, "VERSION": 2, "VARIABLE": 3, "ASSIGN": 4, "BLOCK": 5, "LIST_START": 6, "LIST_END": 7,
    "CONCAT": 8, "AT": 9, "SYNTHESIS": 10, "TENSION": 11, "CONSTRAINT": 12, "ALTERNATIVE": 13, "FLOW": 14,
    "SECTION": 15, "COMMENT": 16, "ENVELOPE_START": 17, "ENVELOPE_END": 18, "STRING": 19, "NUMBER": 20,
    "BOOLEAN": 21, "NULL": 22, "IDENTIFIER": 23, "COMMA": 24, "NEWLINE": 25, "INDENT": 26, "SEPARATOR": 27,
    "EOF": 28, "FENCE_OPEN": 29, "FENCE_CLOSE": 30, "LITERAL_CONTENT": 31,
}


def cls_flags(ch: str) -> int:
    """Oracle word for a NON-ASCII character (see Lex/Lexer.v header)."""
    cat = unicodedata.category(ch)
    f = 0
    if cat.startswith("L") or cat in ("So", "Sm", "No", "Sk", "Po"):
        f |= 1
    if cat.startswith("N") or cat.startswith("M"):
        f |= 2
    if ch.isalnum():
        f |= 4
    if cat == "Nd":
        f |= 8
    if ch.isalpha():
        f |= 16
    if ch.isspace():
        f |= 32
    return f


def in_model(text: str) -> bool:
    """Model scope of the lexer model: no surrogates; no character whose lower() changes length
    (U+0130) -- the vs-boundary warning indexes the lowered text."""
    for ch in text:
        o = ord(ch)
        if 0xD800 <= o <= 0xDFFF:
            return False
        if len(ch.lower()) != 1:
            return False
    return True


def model_line(text: str, lenient=False) -> str:
    chars = sorted({c for c in text + unicodedata.normalize("NFC", text) if ord(c) >= 128})
    cls = ",".join(f"{ord(c)}:{cls_flags(c)}" for c in chars) or "-"
    pairs = [enc_str(l) + "|" + enc_str(unicodedata.normalize("NFC", l)) for l in text.split("\n")]
    return f"lex {1 if lenient else 0} {cls} " + " ".join(pairs)


def _val(tok) -> str:
    k = tok.type.name
    v = tok.value
    if k == "NUMBER":
        return "n" + enc_str(tok.raw if tok.raw is not None else str(v))
    if k == "BOOLEAN":
        return "b1" if v else "b0"
    if k in ("NULL", "EOF"):
        return "z"
    if k == "INDENT":
        return "c" + str(v)
    if k == "FENCE_OPEN":
        tag = v.get("info_tag")
        return "f" + enc_str(v["fence_marker"]) + "/" + ("~" if tag is None else enc_str(tag))
    return "t" + enc_str(str(v))


def render_impl(text: str, lenient=False) -> str:
    from octave_mcp.core.lexer import LexerError, tokenize
    try:
        toks, reps = tokenize(text, lenient=lenient)
    except LexerError as e:
        return f"ERR {enc_str(e.error_code)} {e.line} {e.column}"
    except RecursionError:
        return "EXC RecursionError"
    except Exception as e:  # noqa
        return f"EXC {type(e).__name__}"
    ts = []
    for t in toks:
        norm = "~" if t.normalized_from is None else enc_str(t.normalized_from)
        ts.append(f"{KIND_CODES[t.type.name]}:{_val(t)}:{t.line}:{t.column}:{norm}")
    rs = []
    for r in reps:
        ty, sub = r.get("type"), r.get("subtype")
        if ty == "normalization":
            rs.append(f"0:{enc_str(r['original'])}:{enc_str(str(r['normalized']))}:{r['line']}:{r['column']}")
        elif ty == "spec_violation" and sub == "wrong_case":
            rs.append(f"1:{enc_str(r['original'])}:{enc_str(r['correct'])}:{r['line']}:{r['column']}")
        elif ty == "spec_violation" and sub == "boundary_missing":
            rs.append(f"2:{enc_str(r['original'])}:-:{r['line']}:{r['column']}")
        elif ty == "repair_candidate":
            rs.append(f"3:{enc_str(r['original'])}:{enc_str(r['repaired'])}:{r['line']}:{r['column']}")
        else:
            rs.append(f"9:{ty}:{sub}")
    return "OK " + ";".join(ts) + " # " + ";".join(rs)


def compare(texts, lenient=False):
    """Returns list of (text, impl, model) for disagreements; skips out-of-model inputs."""
    ins = [t for t in texts if in_model(t)]
    mod = run_driver("syn", [model_line(t, lenient) for t in ins])
    bad = []
    for t, m in zip(ins, mod):
        i = render_impl(t, lenient)
        if i != m:
            bad.append((t, i, m))
    return bad, len(ins)
