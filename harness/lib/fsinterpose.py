"""File-operation interposition for C16/C17 (no hook inside /repo).

install() must run in a (child) process BEFORE octave_mcp is imported.  It wraps
  pathlib.Path.exists / is_symlink / mkdir / read_text(via io.open), os.path.exists, os.stat, os.lstat,
  tempfile.mkstemp, os.fchmod, os.fdopen (proxy file: write/flush/close), os.fsync, builtins.open + io.open
  (proxy: read/close), os.unlink, os.replace, and flags os.rename/os.remove/os.truncate/shutil.move,
  open(.., 'w') and os.open(.., O_WRONLY|O_CREAT|..) on sandbox paths as UNEXPECTED (their write/flush/close remain
  op instances, so a kill inside a direct overwrite is observable as a torn file).
Every call that concerns a path inside the configured sandbox root (or a tracked fd) is one OP INSTANCE:
it is appended to the trace log (flushed with os.write, survives os._exit), then
  * a scheduler (C17: Scheduler for writer threads, PipeScheduler for writer processes) may block the caller until
    the driver releases exactly this one file operation,
  * plan.crash_at == k  -> partial effect (a prefix of the data for write) then os._exit(77),
  * k in plan.fail_at    -> partial effect then raise OSError(errno),
  * k in plan.short_at   -> ONLY for a raw os.write(fd, data) on a tracked sandbox fd (op `os_write`): write a PROPER PREFIX
    of the data and RETURN that count without raising -- what POSIX write(2) may do when the disk / quota / RLIMIT_FSIZE
    runs out inside the data.  Not applicable to the buffered file-object path (`write` of the proxy): CPython's
    BufferedWriter loops on short writes, the caller cannot observe one; a `short` planned there is ignored.
Op names: lstat exists:<w> ospath_exists:<w> is_symlink:<w> stat:<w> mkdir mkstemp fchmod fdopen write flush
fsync close open_read:<w> read close_read unlink:<w> replace   (<w> = target | temp | other); outside the modelled
protocol: os_write / os_close (raw descriptor of mkstemp or of an os.open on a sandbox path), UNEXPECTED:<what>.
Metadata calls are op instances too (fault points): fchmod (tracked fd), chmod:<w> lchmod:<w> utime:<w> chown:<w> lchown:<w>
(path inside the sandbox; Path.chmod / shutil.copymode / copystat go through them), fchown / futimes-style os.utime(fd) on a
tracked fd.  Besides the index-based plan, plan.fail_named = {(op name, occurrence): errno} fails the n-th occurrence of an op
NAME (used when the index is not known in advance, e.g. inside a multi-call history).
"""
from __future__ import annotations

import builtins
import errno as _errno
import io
import os
import pathlib
import tempfile
import threading

_real = {}
STATE = None


class Plan:
    def __init__(self, root, target, log_fd=None, crash_at=None, fail_at=None, scheduler=None, short_at=None, fail_named=None):
        self.root = os.path.abspath(root)
        self.target = os.path.abspath(target)
        self.log_fd = log_fd
        self.crash_at = crash_at
        self.fail_at = dict(fail_at or {})
        self.scheduler = scheduler
        self.k = 0
        self.trace = []
        self.temps = set()
        self.fd_path = {}
        self.raw_fds = set()          # descriptors from a direct os.open(.., O_WRONLY|..) on a sandbox path
        self.raw_owned = set()        # mkstemp descriptors not (yet) handed to os.fdopen: raw os.write/os.close on them are ops
        self.short_at = set(short_at or ())
        self.fail_named = dict(fail_named or {})     # (op name, occurrence) -> errno
        self.name_count = {}
        self.lock = threading.Lock()
        self.tls = threading.local()
        self.enabled = True


def set_plan(plan):
    global STATE
    STATE = plan


def _role(p, path):
    try:
        ap = os.path.abspath(os.fspath(path))
    except TypeError:
        return None
    if ap == p.target:
        return "target"
    if ap in p.temps:
        return "temp"
    if ap == p.root or ap.startswith(p.root + os.sep):
        return "other"
    return None


def _inside(p, path):
    return _role(p, path) is not None


def _op(name, partial=None):
    """Register one op instance; returns after scheduling; raises / exits when planned."""
    p = STATE
    if p.scheduler is not None:
        p.scheduler.before_op(name)
    with p.lock:
        k = p.k
        p.k += 1
        who = getattr(p.tls, "who", None)
        p.trace.append((name, who))
        occ = p.name_count.get(name, 0)
        p.name_count[name] = occ + 1
        if p.log_fd is not None:
            _real["os.write"](p.log_fd, (name + "\n").encode())
    if p.crash_at == k:
        if partial:
            partial()
        _real["os._exit"](77)
    if k in p.fail_at or (name, occ) in p.fail_named:
        if partial:
            partial()
        e = p.fail_at[k] if k in p.fail_at else p.fail_named[(name, occ)]
        raise OSError(e, os.strerror(e))
    return k


def _active():
    p = STATE
    return p is not None and p.enabled and not getattr(p.tls, "nested", False)


class _Nested:
    def __enter__(self):
        self.prev = getattr(STATE.tls, "nested", False)
        STATE.tls.nested = True

    def __exit__(self, *a):
        STATE.tls.nested = self.prev


class _Ctx:
    def __init__(self, tag):
        self.tag = tag

    def __enter__(self):
        self.prev = getattr(STATE.tls, "ctx", None)
        STATE.tls.ctx = self.tag

    def __exit__(self, *a):
        STATE.tls.ctx = self.prev


class WriteProxy:
    """What os.fdopen(fd, 'w') returns for a tracked temp fd."""

    def __init__(self, real, path):
        self._f = real
        self._path = path

    def write(self, data):
        def partial():
            self._f.write(data[: max(1, len(data) // 2)] if data else data)
            self._f.flush()
        _op("write", partial)
        return self._f.write(data)

    def flush(self):
        _op("flush")
        return self._f.flush()

    def fileno(self):
        return self._f.fileno()

    def __getattr__(self, n):
        return getattr(self._f, n)

    def close(self):
        _op("close")
        return self._f.close()

    def __enter__(self):
        return self

    def __exit__(self, *a):
        self.close()
        return False


class ReadProxy:
    def __init__(self, real):
        self._f = real

    def read(self, *a):
        _op("read")
        return self._f.read(*a)

    def close(self):
        try:
            _op("close_read")
        finally:
            self._f.close()

    def __enter__(self):
        return self

    def __exit__(self, *a):
        self.close()
        return False

    def __iter__(self):
        return iter(self._f)

    def __getattr__(self, n):
        return getattr(self._f, n)


def install():
    """Patch the process.  Idempotent."""
    if _real:
        return
    _real["os.write"] = os.write
    _real["os._exit"] = os._exit
    r_stat, r_lstat = os.stat, os.lstat
    r_exists, r_issym, r_mkdir = pathlib.Path.exists, pathlib.Path.is_symlink, pathlib.Path.mkdir
    r_ospexists = os.path.exists
    r_mkstemp, r_fchmod, r_fdopen, r_fsync = tempfile.mkstemp, os.fchmod, os.fdopen, os.fsync
    r_open, r_unlink, r_replace = builtins.open, os.unlink, os.replace
    _real.update(stat=r_stat, open=r_open, unlink=r_unlink, replace=r_replace)

    def w_stat(path, *a, **kw):
        if _active() and not isinstance(path, int):
            role = _role(STATE, path)
            if role is not None:
                ctx = getattr(STATE.tls, "ctx", None)
                _op(f"{ctx or 'stat'}:{role}")
        return r_stat(path, *a, **kw)

    def w_lstat(path, *a, **kw):
        if _active() and _inside(STATE, path):
            _op("lstat")
        return r_lstat(path, *a, **kw)

    def w_exists(self):
        if _active() and _inside(STATE, self):
            with _Ctx("exists"):
                return r_exists(self)
        return r_exists(self)

    def w_issym(self):
        if _active() and _inside(STATE, self):
            with _Ctx("is_symlink"):
                return r_issym(self)
        return r_issym(self)

    def w_ospexists(path):
        if _active() and not isinstance(path, int) and _inside(STATE, path):
            with _Ctx("ospath_exists"):
                return r_ospexists(path)
        return r_ospexists(path)

    def w_mkdir(self, *a, **kw):
        if _active() and _inside(STATE, self):
            _op("mkdir")
            with _Nested():
                return r_mkdir(self, *a, **kw)
        return r_mkdir(self, *a, **kw)

    def w_mkstemp(*a, **kw):
        d = kw.get("dir")
        if _active() and d is not None and _inside(STATE, d):
            _op("mkstemp")
            with _Nested():
                fd, path = r_mkstemp(*a, **kw)
            STATE.temps.add(os.path.abspath(path))
            STATE.fd_path[fd] = path
            STATE.raw_owned.add(fd)
            return fd, path
        return r_mkstemp(*a, **kw)

    def w_fchmod(fd, mode):
        if _active() and fd in STATE.fd_path:
            _op("fchmod")
        return r_fchmod(fd, mode)

    def w_fdopen(fd, *a, **kw):
        if _active() and fd in STATE.fd_path:
            _op("fdopen")
            with _Nested():
                f = r_fdopen(fd, *a, **kw)
            STATE.raw_owned.discard(fd)       # the file object owns the descriptor now
            return WriteProxy(f, STATE.fd_path[fd])
        return r_fdopen(fd, *a, **kw)

    def w_fsync(fd):
        if _active() and fd in STATE.fd_path:
            _op("fsync")
        return r_fsync(fd)

    def w_open(file, mode="r", *a, **kw):
        if _active() and not isinstance(file, int):
            role = _role(STATE, file)
            if role is not None:
                if any(c in mode for c in "wax+"):
                    # not part of the modelled protocol: recorded, and its write/flush/close stay kill / failure
                    # points (a kill after the truncating open, or inside write, shows the torn file)
                    _op(f"UNEXPECTED:open({mode}):{role}")
                    with _Nested():
                        f = r_open(file, mode, *a, **kw)
                    return WriteProxy(f, os.fspath(file))
                _op(f"open_read:{role}")
                with _Nested():
                    f = r_open(file, mode, *a, **kw)
                return ReadProxy(f)
        return r_open(file, mode, *a, **kw)

    def w_unlink(path, *a, **kw):
        if _active() and _inside(STATE, path):
            _op(f"unlink:{_role(STATE, path)}")
        return r_unlink(path, *a, **kw)

    def w_replace(src, dst, *a, **kw):
        if _active() and (_inside(STATE, src) or _inside(STATE, dst)):
            ok = _role(STATE, src) == "temp" and _role(STATE, dst) == "target"
            _op("replace" if ok else f"UNEXPECTED:replace:{_role(STATE, src)}->{_role(STATE, dst)}")
        return r_replace(src, dst, *a, **kw)

    r_osopen, r_oswrite, r_osclose = os.open, os.write, os.close
    WR = os.O_WRONLY | os.O_RDWR | os.O_TRUNC | os.O_CREAT | os.O_APPEND

    def w_osopen(path, flags, *a, **kw):
        if _active() and (flags & WR) and not isinstance(path, int) and _inside(STATE, path):
            _op(f"UNEXPECTED:os.open:{_role(STATE, path)}")
            fd = r_osopen(path, flags, *a, **kw)
            STATE.raw_fds.add(fd)
            return fd
        return r_osopen(path, flags, *a, **kw)

    def w_oswrite(fd, data):
        if STATE is not None and (fd in STATE.raw_fds or fd in STATE.raw_owned) and _active():
            half = len(data) // 2
            k = _op("os_write", lambda: r_oswrite(fd, data[: max(1, half)]) if data else None)
            if k in STATE.short_at and len(data) > 0:
                return r_oswrite(fd, data[:half]) if half else 0      # proper prefix, count returned, no exception
        return r_oswrite(fd, data)

    def w_osclose(fd):
        if STATE is not None and (fd in STATE.raw_fds or fd in STATE.raw_owned):
            STATE.raw_fds.discard(fd)
            STATE.raw_owned.discard(fd)
            STATE.fd_path.pop(fd, None)
            if _active():
                try:
                    _op("os_close")
                except OSError:
                    r_osclose(fd)      # close(2) releases the descriptor even when it reports an error
                    raise
        return r_osclose(fd)

    def meta(name, real):
        """chmod / lchmod / utime / chown / lchown (path or tracked fd as first argument)"""
        def w(path, *a, **kw):
            if _active():
                if isinstance(path, int):
                    if path in STATE.fd_path or path in STATE.raw_fds:
                        _op("f" + name)
                else:
                    role = _role(STATE, path)
                    if role is not None:
                        _op(f"{name}:{role}")
            return real(path, *a, **kw)
        return w

    def unexpected(name, real):
        def w(*a, **kw):
            if _active() and any(isinstance(x, (str, os.PathLike)) and _inside(STATE, x) for x in a):
                _op(f"UNEXPECTED:{name}")
            return real(*a, **kw)
        return w

    os.stat, os.lstat = w_stat, w_lstat
    pathlib.Path.exists, pathlib.Path.is_symlink, pathlib.Path.mkdir = w_exists, w_issym, w_mkdir
    os.path.exists = w_ospexists
    import genericpath
    genericpath.exists = w_ospexists
    tempfile.mkstemp, os.fchmod, os.fdopen, os.fsync = w_mkstemp, w_fchmod, w_fdopen, w_fsync
    builtins.open = w_open
    io.open = w_open
    os.unlink, os.replace = w_unlink, w_replace
    os.open, os.write, os.close = w_osopen, w_oswrite, w_osclose
    for nm in ("chmod", "lchmod", "utime", "chown", "lchown"):
        if hasattr(os, nm):
            setattr(os, nm, meta(nm, getattr(os, nm)))
    if hasattr(os, "fchown"):
        r_fchown = os.fchown

        def w_fchown(fd, *a, **kw):
            if _active() and (fd in STATE.fd_path or fd in STATE.raw_fds):
                _op("fchown")
            return r_fchown(fd, *a, **kw)
        os.fchown = w_fchown
    os.rename = unexpected("rename", os.rename)
    os.remove = unexpected("remove", os.remove)
    os.truncate = unexpected("truncate", os.truncate)
    os.rmdir = unexpected("rmdir", os.rmdir)
    import shutil
    shutil.move = unexpected("shutil.move", shutil.move)
    shutil.copyfile = unexpected("shutil.copyfile", shutil.copyfile)


class Scheduler:
    """Cooperative scheduler for two writer threads: a thread blocks before each of its file operations
    until the driver grants it a step (C17 interleavings)."""

    def __init__(self, names):
        self.cv = threading.Condition()
        self.grants = {n: 0 for n in names}
        self.waiting = {n: False for n in names}
        self.done = {n: False for n in names}
        self.free = set()          # threads released to run to completion
        self.ops = {n: [] for n in names}
        self.pending = {n: None for n in names}   # the op a parked thread is about to perform

    def before_op(self, opname):
        who = getattr(STATE.tls, "who", None)
        if who is None or who not in self.grants:
            return
        with self.cv:
            self.waiting[who] = True
            self.pending[who] = opname
            self.cv.notify_all()
            while self.grants[who] <= 0 and who not in self.free:
                self.cv.wait()
            if who not in self.free:
                self.grants[who] -= 1
            self.waiting[who] = False
            self.ops[who].append(opname)
            self.cv.notify_all()

    def finish(self, who):
        with self.cv:
            self.done[who] = True
            self.cv.notify_all()

    def wait_parked(self, who, timeout=20):
        """Block until `who` is parked before its next op (True) or has finished (False)."""
        with self.cv:
            ok = self.cv.wait_for(lambda: (self.waiting[who] and self.grants[who] <= 0) or self.done[who], timeout)
            if not ok:
                raise RuntimeError(f"scheduler: {who} neither parked nor done")
            return not self.done[who]

    def step(self, who):
        """Let `who` perform exactly one file operation; returns its name, or None if it had finished."""
        if not self.wait_parked(who):
            return None
        with self.cv:
            n = len(self.ops[who])
            self.grants[who] += 1
            self.cv.notify_all()
            self.cv.wait_for(lambda: len(self.ops[who]) > n or self.done[who], 20)
            name = self.ops[who][n] if len(self.ops[who]) > n else None
        # wait until it parks again or finishes, so that the op (and following pure code) has completed
        self.wait_parked(who)
        return name

    def release(self, who):
        with self.cv:
            self.free.add(who)
            self.cv.notify_all()

    def peek(self, who):
        """Name of the file operation `who` is parked before, or None when it has finished."""
        if not self.wait_parked(who):
            return None
        with self.cv:
            return self.pending[who]


class PipeScheduler:
    """Writer-side half of the same cooperative scheduling for a writer that is a separate PROCESS: before each
    file operation the writer reports the op name on `wfd` and blocks until the driver sends one byte on `rfd`."""

    def __init__(self, who, rfd, wfd):
        self.who, self.rfd, self.wfd = who, rfd, wfd

    def before_op(self, opname):
        if getattr(STATE.tls, "who", None) != self.who:
            return
        _real["os.write"](self.wfd, (opname + "\n").encode())
        if not os.read(self.rfd, 1):
            _real["os._exit"](3)
