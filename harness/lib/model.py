"""Run an extracted-model driver (build/bin/<name>) over a batch of line-encoded cases."""
from __future__ import annotations

import subprocess

from .core import BUILD


def enc_str(s: str) -> str:
    """String -> '.'-separated decimal code points; empty string -> '-'."""
    if s == "":
        return "-"
    return ".".join(str(ord(c)) for c in s)


def dec_str(t: str) -> str:
    if t == "-" or t == "":
        return ""
    return "".join(chr(int(x)) for x in t.split("."))


def run_driver(name: str, lines, timeout=1800, args=()):
    """Feed `lines` (list[str]) to build/bin/<name>; return list[str] of the same length."""
    if not lines:
        return []
    binp = BUILD / "bin" / name
    data = "\n".join(lines) + "\n"
    p = subprocess.run(["bash", "-c", f"ulimit -s unlimited; exec {binp} " + " ".join(args)], input=data,
                       stdout=subprocess.PIPE, stderr=subprocess.PIPE, text=True, timeout=timeout)
    if p.returncode != 0:
        raise RuntimeError(f"model driver {name} failed rc={p.returncode}: {p.stderr[-1000:]}")
    out = p.stdout.split("\n")
    if out and out[-1] == "":
        out.pop()
    if len(out) != len(lines):
        raise RuntimeError(f"model driver {name}: {len(lines)} cases in, {len(out)} results out; stderr={p.stderr[-500:]}")
    return out
