"""Parametrised printer of lenient spellings: render(d, sigma) -> (text, receipts).

`d` is a neutral document of the content model (docprops.in_content_model) that falsifies no wf clause.
sigma is drawn from an rng; every documented lenient freedom is toggled independently at every site:
ASCII aliases for operators / section marker, spaces around ::, spaces in lists, indentation width per body,
blank lines, trailing spaces, one-line vs multi-line lists, optional quotes around plain words, triple
quotes, multi-word bare values, `//x` vs `// x`, omitted ===END===.
receipts: the rewrites the reader must report, as (kind, original, replacement, line, column):
  kind 'norm'  : lexer normalization (alias -> unicode operator, triple quote -> value)
  kind 'multi' : parser multi_word_coalesce (original = words joined by one space)
sigma = None renders the canonical spelling choices (must equal emit(d)).
"""
from __future__ import annotations

import re

ALIASES = {"→": ["->"], "⊕": ["+"], "⧺": ["~"], "⇌": ["<->", " vs "], "∧": ["&"], "∨": ["|"]}
IDENT = re.compile(r"^[A-Za-z_][A-Za-z0-9_.\-]*(?<!-)\Z")
PLAIN_WORD = re.compile(r"^[A-Za-z_][A-Za-z0-9_]*\Z")
EXPR = re.compile(r"^[A-Za-z_][A-Za-z0-9_.\-]*(?<!-)([⊕⧺⇌∧∨→@][A-Za-z_][A-Za-z0-9_.\-]*(?<!-))+\Z")
RESERVED = {"true", "false", "null", "vs"}


class W:
    def __init__(self, rng):
        self.r = rng
        self.parts = []
        self.line = 1
        self.col = 1
        self.receipts = []
        self.sites = 0

    def w(self, s):
        self.parts.append(s)
        n = s.count("\n")
        if n:
            self.line += n
            self.col = len(s) - s.rfind("\n")
        else:
            self.col += len(s)

    def flip(self, p=0.5):
        if self.r is None:
            return False
        self.sites += 1
        return self.r.random() < p

    def choice(self, xs):
        return xs[0] if self.r is None else self.r.choice(xs)

    def text(self):
        return "".join(self.parts)


def canon_str(s):
    from octave_mcp.core.emitter import emit_value
    return emit_value(s)


def _plain_identifier(s):
    return bool(IDENT.match(s)) and s not in RESERVED and not re.match(r"^(true|false|null|vs)[.\-]", s) \
        and s not in ("META",) and "vs" not in s.lower()


def write_op(o, sym):
    """one operator occurrence: unicode or an alias (+ receipt)"""
    if sym in ALIASES and o.flip():
        a = o.choice(ALIASES[sym])
        lead = len(a) - len(a.lstrip(" "))
        o.w(a[:lead])
        o.receipts.append(("norm", a.strip(), sym, o.line, o.col))
        o.w(a[lead:])
    else:
        if o.flip(0.2):
            o.w(" ")
        o.w(sym)
        if o.flip(0.2):
            o.w(" ")


def write_string(o, s, pos, force):
    """a str value at the current position"""
    c = '"' + s.replace("\\", "\\\\").replace('"', '\\"').replace("\n", "\\n").replace("\t", "\\t") + '"' if force else canon_str(s)
    quoted = c.startswith('"')
    if not quoted and EXPR.match(s) and not force:
        # bare expression: identifiers joined by operators; each operator may be an alias
        for tok in re.split(r"([⊕⧺⇌∧∨→@])", s):
            if tok in "⊕⧺⇌∧∨→@" and tok:
                write_op(o, tok)
            else:
                o.w(tok)
        return
    if not quoted and _plain_identifier(s) and o.flip(0.3):
        o.w('"' + s + '"')                      # optional quotes around a plain word
        return
    esc = s.replace("\\", "\\\\").replace('"', '\\"').replace("\n", "\\n").replace("\t", "\\t")
    if not quoted and o.r is not None and "\r" not in s and o.flip(0.12):
        # quoting is always a legal spelling of a string value, whatever the emitter would do with it: this keeps the
        # spelling independent of the implementation's quoting decision (a value the emitter wrongly leaves bare is
        # still offered to the reader as the string it is)
        o.w('"' + esc + '"')
        return
    if quoted:
        words = s.split(" ")
        if pos in ("assign", "meta") and len(words) >= 2 and all(PLAIN_WORD.match(w) and w not in RESERVED and w != "META"
                                                                 and "vs" not in w.lower() for w in words) and o.flip(0.5):
            o.receipts.append(("multi", s, s, o.line, o.col))
            o.w(s)                                   # multi-word bare value
            return
        if "\r" not in s and o.flip(0.3):      # (the empty string too: six quotes)
            # triple quotes take the same escapes as single quotes (the body is the escaped text)
            o.receipts.append(("norm", '"""', s, o.line, o.col))
            body = esc
            if "\n" in s and o.flip(0.5) and not any(l.lstrip(" ").startswith("```") for l in s.split("\n")):
                # a triple-quoted string may span lines: real line breaks inside the quotes are content, and so are
                # the blanks before and after them
                body = "".join({"\\": "\\\\", '"': '\\"', "\t": "\\t"}.get(ch, ch) for ch in s)
            o.w('"""' + body + '"""')
            return
    o.w(c)


def write_value(o, v, pos, key, indent_cols):
    k = v[0]
    if k == "str":
        force = key in ("PATTERN", "REGEX") and pos in ("assign", "map")
        write_string(o, v[1], pos, force)
    elif k == "null":
        o.w("null")
    elif k == "bool":
        o.w("true" if v[1] else "false")
    elif k in ("int", "float"):
        o.w(v[1])
    elif k == "holo":
        o.w(v[1])
    elif k == "list":
        write_list(o, v[1], indent_cols)
    else:
        raise ValueError(k)


def _needs_multiline(items):
    from octave_mcp.core.emitter import ANNOTATION_PATTERN
    cnt = 0
    for it in items:
        if it[0] in ("map", "list"):
            return True
        if it[0] == "str" and ANNOTATION_PATTERN.match(it[1]):
            return True
        cnt += 1
    return cnt >= 3


def write_list(o, items, indent_cols):
    if not items:
        o.w("[]")
        return
    multi = _needs_multiline(items)
    if o.r is not None:
        multi = o.flip()
    o.w("[")
    for i, it in enumerate(items):
        if multi:
            o.w("\n")
            if o.r is None:
                o.w(" " * (indent_cols + 2))
            else:
                o.w(" " * o.r.randint(0, indent_cols + 6))
        elif o.flip(0.3):
            o.w(" ")
        if it[0] == "map":
            (kk, vv), = it[1]
            o.w(kk)
            write_assign_op(o)
            write_value(o, vv, "map", kk, indent_cols + 2)
        else:
            write_value(o, it, "list", None, indent_cols + 2)
        if i < len(items) - 1:
            if o.flip(0.2):
                o.w(" ")
            o.w(",")
    if multi:
        o.w("\n")
        o.w(" " * (indent_cols if o.r is None else o.r.randint(0, indent_cols + 4)))
    elif o.flip(0.2):
        o.w(" ")
    o.w("]")


def write_assign_op(o):
    if o.flip(0.25):
        o.w(" ")
    o.w("::")
    if o.flip(0.25):
        o.w(" ")


def eol(o, in_zone=False):
    if not in_zone and o.flip(0.15):
        o.w(" " * o.r.randint(1, 3))
    o.w("\n")
    if not in_zone and o.flip(0.15):
        for _ in range(o.r.randint(1, 2)):
            o.w("\n")


def write_comment_line(o, cols, text):
    o.w(" " * cols)
    o.w("//" if o.flip(0.3) else "// ")
    o.w(text)
    eol(o)


def write_zone(o, cols, z):
    _, content, tag, marker = z
    o.w(" " * cols + marker + (tag or ""))
    o.w("\n")
    if content:
        o.w(content)
        o.w("\n")
    o.w(" " * cols + marker)
    eol(o)


def write_node(o, n, cols):
    k = n[0]
    if k == "c":
        write_comment_line(o, cols, n[1])
        return
    lead = n[3] if k == "a" else (n[4] if k == "b" else n[5])
    for c in lead:
        write_comment_line(o, cols, c)
    if k == "a":
        if n[1] == "":
            write_zone(o, cols, n[2])
            return
        o.w(" " * cols + n[1])
        if n[2][0] == "zone":
            o.w("::")
            eol(o, in_zone=True)
            write_zone(o, cols, n[2])
            return
        write_assign_op(o)
        write_value(o, n[2], "assign", n[1], cols)
        if n[4] is not None:
            o.w(" " if o.r is None else " " * o.r.randint(1, 3))
            o.w("//" if o.flip(0.3) else "// ")
            o.w(n[4])
        eol(o)
        return
    delta = 2 if o.r is None else o.r.choice([1, 2, 2, 2, 3, 4])
    if k == "b":
        o.w(" " * cols + n[1])
        if n[2]:
            o.w("[")
            write_op(o, "→") if o.r is not None else o.w("→")
            write_sec(o)
            o.w(n[2] + "]")
        o.w(":")
        eol(o)
        for ch in n[3]:
            write_node(o, ch, cols + delta)
    else:
        o.w(" " * cols)
        write_sec(o)
        o.w(n[1])
        o.w("::")
        o.w(n[2])
        if n[3]:
            o.w("[" + n[3] + "]")
        eol(o)
        for ch in n[4]:
            write_node(o, ch, cols + delta)


def write_sec(o):
    if o.flip():
        o.receipts.append(("norm", "#", "§", o.line, o.col))
        o.w("#")
    else:
        o.w("§")


def render(d, rng=None):
    if rng is not None:
        from . import docprops
        d = docprops.expected(d)      # lenient spellings are rendered from the NFC content (zones verbatim)
    o = W(rng)
    def blank_lines(lo, hi):
        for _ in range(o.r.randint(lo, hi)):
            o.w((" " * o.r.randint(1, 3) if o.r.random() < 0.3 else "") + "\n")
    if d["front"] is not None and d["front"].strip():
        o.w("---\n" + d["front"] + "\n---\n")
        if o.flip(0.3):
            blank_lines(0, 3)         # blank lines between frontmatter and document: any number (canonical: one)
        else:
            o.w("\n")
    elif o.flip(0.15):
        blank_lines(1, 2)             # leading blank lines before the grammar / envelope line
    if d["grammar"]:
        o.w("OCTAVE::" + d["grammar"])
        eol(o)
    o.w("===" + d["name"] + "===")
    eol(o)
    if d["meta"]:
        o.w("META:")
        eol(o)
        mi = 2 if rng is None else rng.choice([1, 2, 2, 3, 4])
        for k, mv in d["meta"]:
            o.w(" " * mi + k)
            if mv[0] == "d":
                o.w(":")
                eol(o)
                ni = mi + (2 if rng is None else rng.choice([1, 2, 3]))
                for k2, v2 in mv[1]:
                    o.w(" " * ni + k2)
                    write_assign_op(o)
                    write_value(o, v2, "meta", k2, ni)
                    eol(o)
            else:
                write_assign_op(o)
                write_value(o, mv[1], "meta", k, mi)
                eol(o)
    if d["sep"]:
        o.w("---")
        eol(o)
    for n in d["sections"]:
        write_node(o, n, 0)
    for c in d["trailing"]:
        write_comment_line(o, 0, c)
    if not o.flip(0.3):
        o.w("===END===\n")
    return o.text(), o.receipts, o.sites
