"""Shared case generation for the document-level properties (C01, C02, C03, C05, C07, C09, C15, C18)."""
from __future__ import annotations

import itertools
import random

from . import astcodec, docgen, docprops, lexcorr, parsecorr, render
from .model import dec_str, enc_str, run_driver

CLAUSE_FINDING = {
    3: "reserved-segment", 4: "annotation-qualifier",
    11: "bare-zone-sibling", 12: "bare-zone-comments", 13: "empty-body-comment", 14: "comment-dedent",
    15: "nonfinite-float", 18: "single-item-constraint-list",
}
MODEL_SCOPE = {20, 21}


def have_model(ctx):
    return ctx.build_status["drivers"].get("syn", False)


def impl_emit(d):
    from octave_mcp.core.emitter import emit
    return emit(astcodec.doc_from_neutral(d))


def model_emit(docs):
    lines = []
    for d in docs:
        f = d["front"] or ""
        extra = "".join(sorted({c for c in f if ord(c) >= 128 and c.isspace()}))
        lines.append("emit " + enc_str(extra) + " " + astcodec.enc_doc(d))
    return [dec_str(o) if not o.startswith("!") else o for o in run_driver("syn", lines)]


def model_clauses(docs):
    out = run_driver("syn", ["clauses " + astcodec.enc_doc(d) for d in docs])
    return [[] if o == "-" else [int(x) for x in o.split(",")] for o in out]


def nfc_escape_clause_doc(d):
    """finding nfc-after-escape: a quoted string value where a newline/tab is followed by a character that
    NFC-composes with the escape letter (oracle clause, computed with unicodedata)."""
    import unicodedata
    for s in docprops.strings_of(d):
        for i, ch in enumerate(s[:-1]):
            if ch in "\n\t":
                letter = "n" if ch == "\n" else "t"
                j = i + 1
                while j < len(s) and unicodedata.combining(s[j]) != 0:
                    j += 1
                run = s[i + 1:j]
                if run and unicodedata.normalize("NFC", letter + run)[0] != letter:
                    return True
    return False


def ok_string_set(ctx):
    """pool strings the model classifies as falsifying no scalar clause (None when the model is unavailable)"""
    if not have_model(ctx):
        return None
    import unicodedata
    pool = sorted(set(docgen.WORDS + docgen.SPECIAL_STR))
    res = run_driver("syn", ["sclass 0 " + enc_str(s) for s in pool] + ["sclass 1 " + enc_str(s) for s in pool])
    return {s for i, s in enumerate(pool) if res[i] == "0" and res[len(pool) + i] == "0"}


def gen_docs(ctx, n, valid_fraction=0.7, depth=4):
    """n content-model documents; about valid_fraction of them falsify no clause."""
    rng = ctx.rng
    use_model = have_model(ctx)
    ok_strings = ok_string_set(ctx)
    g_clean = docgen.Gen(rng, wild=False, max_depth=depth, clean=True, ok_strings=ok_strings)
    g = docgen.Gen(rng, wild=False, max_depth=depth)
    docs = []
    tries = 0
    want_valid = int(n * valid_fraction)
    pool_valid, pool_other = [], []
    while (len(pool_valid) < want_valid or len(pool_other) < n - want_valid) and tries < 40:
        tries += 1
        gen = g_clean if len(pool_valid) < want_valid and (tries % 2 == 1 or len(pool_other) >= n - want_valid) else g
        batch = [d for d in (gen.doc() for _ in range(n)) if docprops.in_content_model(d)]
        cls = model_clauses(batch) if use_model else [[0]] * len(batch)
        for d, c in zip(batch, cls):
            c = list(c)
            if nfc_escape_clause_doc(d):
                c.append(16)
            (pool_valid if not c else pool_other).append((d, c))
    docs = pool_valid[:want_valid] + pool_other[: n - want_valid]
    rng.shuffle(docs)
    return docs


TOKEN_ALPHABET = ["A", "b1", "true", "null", "vs", "1", "-2", "3.5", "1e3", "1.2.3", '"s"', '"a b"', "$V", "§", "#", "::",
                  ":", "->", "→", "⊕", "+", "~", "@", "|", "∧", "<->", "[", "]", ",", "X<q>"]


def token_sequences(ctx, maxlen):
    """All token sequences up to maxlen over the 30-symbol alphabet, rendered as an assignment value."""
    out = []
    for L in range(1, maxlen + 1):
        for tup in itertools.product(TOKEN_ALPHABET, repeat=L):
            out.append("A::" + " ".join(tup) + "\n")
    return out


def canon_impl(text):
    """emit(parse_with_warnings(text)) or ('ERR', kind)"""
    from octave_mcp.core.emitter import emit
    from octave_mcp.core.lexer import LexerError
    from octave_mcp.core.parser import ParserError, parse_with_warnings
    try:
        doc, warns = parse_with_warnings(text)
    except (LexerError, ParserError) as e:
        return None, None, type(e).__name__
    return emit(doc), doc, None


def strict_read(text):
    from octave_mcp.core.lexer import LexerError
    from octave_mcp.core.parser import ParserError, parse
    try:
        return parse(text), None
    except (LexerError, ParserError) as e:
        return None, f"{type(e).__name__}:{getattr(e, 'error_code', '')}"
