"""Explicit content model: random neutral documents (see astcodec) from one PRNG.

`wild=True`  : arbitrary ASTs (absent values, odd keys, empty strings everywhere) -- for emitter correspondence.
`wild=False` : documents of the documented surface grammar whose content is expected to survive
               emit -> parse (keys are plain identifiers, values avoid nothing on purpose: the finding
               classes are attributed afterwards by the model's clauses).
"""
from __future__ import annotations

KEYS = ["A", "B", "KEY", "NAME", "STATUS", "my_key", "K1", "X_Y", "TYPE", "PATTERN", "REGEX", "RISKS", "ID", "VERSION",
        "a.b", "K-1", "Z9"]
WORDS = ["x", "abc", "Hello", "DONE", "v1", "a_b", "A.B", "a-b", "path/to", "ok"]
SPECIAL_STR = ["", " ", "two words", "three word value", "1", "42", "-7", "3.14", "1e5", "true", "false", "null", "vs",
               "a:b", "a::b", "x,y", "[x]", "a]b", "//c", "a // b", "#tag", "§ref", "§1", "$VAR", "$1:name", "$KEY::value", "$HOME:", "$a:", "$:", "$x:y:", "$",
               "A→B", "A→B→C", "P⊕Q", "L@R", "X⇌Y", "A⇌B⇌C", "X⇌Y⇌Z⇌W", "A∧B", "A∨B", "A⧺B",
               "NAME<q>", "NEVER<A,B>", "FOO<>", "ATHENA<wise_one>", "a\"b", "back\\slash", "nl\nline", "first line  \nsecond", "a \n b\n\nc ", "tab\tx",
               "\\n", "\\t", "trés", "é", "\U0001F600", "1.2.3", "1.0-beta", "2024-01-15", "100%", "60%_done",
               "===END===", "---", "```", "a=b", "(paren)", "semi;colon", "q?", "x!", "UPPER lower", "a  b", " lead",
               "trail ", "true.x", "null-a", "vs.x", "True", "NULL", "SpeedvsQuality", "a{b}", "A{b}", "~", "a~b", "+",
               "a+b", "|", "&", "@", "<", ">", "a<b", "->", "<->", "A->B", "it's", "\r", "x\ry",
               # characters that NFC rewrites although they carry NO combining mark (singleton decompositions, conjoining jamo, CJK
               # compatibility ideographs): a reader that normalises only lines with combining marks leaves them alone (seed r7-C09-a)
               "\u2126", "k\u2126 5", "\u212b", "\u1112\u1161\u11ab", "\uf900"]
COMMENTS = ["note", "a comment", "TODO: x", "with :: ops -> |", "", "  spaced  ", "uni → code", "// nested"]
HOLO = ['["example"∧REQ→§SELF]', '["x"∧REQ]', '[1∧TYPE[NUMBER]]', '["a"∧ENUM[a,b]→§T]',
        '["d"∧REQ∧REGEX["^a$"]→§INDEXER]',
        # examples that need the string escapes, and token kinds beyond the basic ones, inside the pattern text
        '["a\\tb"∧REQ]', '["q\\"r"∧OPT]', '["back\\\\slash"∧REQ]', '["two\\nlines"∧REQ→§SELF]', '["1.0.0"∧CONST[1.0.0]]', '[$V∧REQ]',
        '["a"∧ENUM[x⊕y,z]]']
ZONE_LINES = ["plain", "\tTabbed", "é nfd", "back\\slash \\n", 'q"uote', "A->B | C & D", "K::v", "===END===",
              "---", "``", "  indented", "", " ", "→⊕", "trailing  ", "x\ry", "``` not", "// c", "```caf\u00e9", "```cafe\u0301 x", "````\u00c5", "  ```\u00f1"]


class Gen:
    def __init__(self, rng, wild=False, max_depth=4, max_sibs=5, clean=False, ok_strings=None):
        self.r = rng
        self.wild = wild
        self.clean = clean              # avoid the known finding classes by construction (valid stream)
        self.ok_strings = ok_strings    # strings the model classifies as class 0 (None = unknown)
        self.max_depth = max_depth
        self.max_sibs = max_sibs

    def key(self):
        r = self.r
        if self.wild and r.random() < 0.05:
            return r.choice(["", "a b", "é", "1x", "K::", "k\n"])
        return r.choice(KEYS)

    def string(self):
        s = self._string()
        if self.clean and self.ok_strings is not None:
            for _ in range(20):
                if s in self.ok_strings:
                    break
                s = self._string()
            else:
                s = "x"
        return s

    def _string(self):
        r = self.r
        x = r.random()
        if x < 0.45:
            return r.choice(WORDS)
        if x < 0.9 or (self.clean and self.ok_strings is not None):
            return r.choice(SPECIAL_STR)
        return "".join(r.choice(WORDS + SPECIAL_STR) for _ in range(r.randint(2, 4)))

    def number(self):
        r = self.r
        if r.random() < 0.6:
            return ("int", str(r.choice([0, 1, -1, 42, 2**40, -(10**20), r.randint(-999, 999)])))
        f = r.choice([0.5, -1.5, 1e16, 1e-7, 3.14, 2.0, -0.0, 1e100, 1.5e-05, 2.5e+16, 6.02e+23, -1.2345e-10, r.random() * 100,
                      0.30000000000000004, 1234567890123456.0, 1.0000000000000002e16, 5e-324, 1.7976931348623157e308, 0.1 + 0.2])
        return ("float", str(float(f)))

    def scalar(self):
        r = self.r
        x = r.random()
        if x < 0.55:
            return ("str", self.string())
        if x < 0.75:
            return self.number()
        if x < 0.85:
            return ("bool", r.random() < 0.5)
        if x < 0.93:
            return ("null",)
        if self.wild and x < 0.97:
            return ("absent",)
        return ("str", self.string())

    def zone(self):
        r = self.r
        n = r.choice([0, 0, 1, 1, 2, 3, 5])
        lines = [r.choice(ZONE_LINES) for _ in range(n)]
        marker = "`" * r.choice([3, 3, 3, 4, 5, 6])
        lines = [l for l in lines if not (l.lstrip(" ").startswith("`" * len(marker)))]
        tag = r.choice([None, None, "python", "json", "text", "c++"])
        return ("zone", "\n".join(lines), tag, marker)

    def value(self, depth=0, allow_zone=True):
        r = self.r
        x = r.random()
        if x < 0.62 or depth >= 3:
            return self.scalar()
        if x < 0.86:
            n = r.choice([0, 1, 2, 2, 3, 4])
            items = []
            for _ in range(n):
                y = r.random()
                if y < 0.7:
                    items.append(self.scalar())
                elif y < 0.85:
                    items.append(self.value(depth + 1, allow_zone=False))
                else:
                    items.append(("map", [(self.key_plain(), self.scalar())]))
            return ("list", items)
        if x < 0.91:
            return ("holo", r.choice(HOLO))
        if x < 0.97 and allow_zone:
            return self.zone()
        return self.scalar()

    def key_plain(self):
        return self.r.choice(KEYS[:12])

    def comment_text(self):
        r = self.r
        if self.wild:
            return r.choice(COMMENTS)
        return r.choice([c for c in COMMENTS if c and c == c.strip()])

    def comments(self):
        r = self.r
        if r.random() < 0.8:
            return []
        return [self.comment_text() for _ in range(r.randint(1, 2))]

    def trailing(self):
        r = self.r
        if r.random() < 0.85:
            return None
        return self.comment_text()

    def node(self, depth):
        r = self.r
        x = r.random()
        if x < 0.6 or depth >= self.max_depth:
            v = self.value()
            tr = None if v[0] in ("zone",) else self.trailing()
            return ("a", self.key(), v, self.comments(), tr)
        if x < 0.8:
            tgt = r.choice([None, None, None, "TARGET", "SELF"])
            return ("b", self.key(), tgt, self.children(depth + 1, in_block=True), self.comments())
        if x < 0.93:
            sid = r.choice(["1", "2", "3", "2b", "10", "CONTEXT", "0"])
            ann = r.choice([None, None, "note", "a,b", ""] if self.wild else [None, None, "note", "a,b"])
            return ("s", sid, r.choice(KEYS[:8]), ann, self.children(depth + 1), self.comments())
        if x < 0.97 and self.wild:
            return ("c", r.choice(COMMENTS))
        if self.wild:
            return ("a", "", self.zone(), [], None)
        return ("a", self.key(), self.scalar(), [], None)

    def _declutter(self, nodes):
        """clean mode: a comment line may only follow a leaf line of the same body (avoids the
        comment-dedent / empty-body-comment finding classes by construction)"""
        out = []
        for n in nodes:
            prev_leaf = (not out) or out[-1][0] == "a" and out[-1][2][0] != "list" or out[-1][0] == "c"
            if not prev_leaf:
                if n[0] == "c":
                    continue
                if n[0] == "a":
                    n = ("a", n[1], n[2], [], n[4])
                elif n[0] == "b":
                    n = ("b", n[1], n[2], n[3], [])
                else:
                    n = ("s", n[1], n[2], n[3], n[4], [])
            out.append(n)
        return out

    def children(self, depth, in_block=False):
        r = self.r
        out = [self.node(depth) for _ in range(r.randint(0 if self.wild else 1, self.max_sibs))]
        if not self.wild:
            if in_block and r.random() < 0.12:
                if self.clean:
                    return [("a", "", self.zone(), [], None)]          # a bare zone only as sole child
                out.insert(r.randint(0, len(out)), ("a", "", self.zone(), self.comments(), None))
            if r.random() < 0.1:   # orphan comments only at the end of a body
                out += [("c", self.comment_text()) for _ in range(r.randint(1, 2))]
            if self.clean:
                out = self._declutter(out)
        return out

    def meta(self):
        r = self.r
        if r.random() < 0.4:
            return []
        out = []
        used = set()
        for _ in range(r.randint(1, 4)):
            k = self.key_plain()
            if k in used:
                continue
            used.add(k)
            if r.random() < 0.2:
                ps = []
                u2 = set()
                for _ in range(r.randint(0 if self.wild else 1, 3)):
                    k2 = self.key_plain()
                    if k2 not in u2:
                        u2.add(k2)
                        ps.append((k2, self.value(2, allow_zone=False)))
                out.append((k, ("d", ps)))
            else:
                out.append((k, ("v", self.value(1, allow_zone=False))))
        return out

    def doc(self):
        r = self.r
        front = None
        if r.random() < 0.15:
            front = r.choice(["name: Agent (x)", "a: 1\nb: [2]", "tést: →", " ", ""]) if self.wild else \
                r.choice(["name: Agent (x)", "a: 1\nb: [2]", "tést: →", "  a: 1\n  b: 2", "a: 1\n\n", "\na: 1", "a: 1  ", "k: |\n  line one\n   line two  "])
        secs = None
        if self.clean:
            secs = self._declutter([n for n in (self.node(0) for _ in range(r.randint(1, self.max_sibs + 2))) if n[0] != "c"])
            trailing = self.comments() if (r.random() < 0.5 and secs and secs[-1][0] == "a" and secs[-1][2][0] != "list") else []
            grammar = r.choice([None, None, None, "5.1.0", "6", "5.1.0-beta.1"])
            return {"name": r.choice(["DOC", "MyDoc", "_x", "A1"]), "grammar": grammar, "front": front,
                    "sep": r.random() < 0.3, "meta": self.meta(), "sections": secs, "trailing": trailing}
        return {
            "name": r.choice(["DOC", "MyDoc", "_x", "A1"]),
            "grammar": r.choice([None, None, None, "5.1.0", "6", "5.1.0-beta.1"]),
            "front": front,
            "sep": r.random() < 0.3,
            "meta": self.meta(),
            "sections": [n for n in (self.node(0) for _ in range(r.randint(0 if self.wild else 1, self.max_sibs + 2)))
                         if self.wild or n[0] != "c"],
            "trailing": self.comments() if r.random() < 0.5 else [],
        }
