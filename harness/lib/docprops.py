"""Document-level helpers: expected-content normalisation, structural diff, shrinking."""
from __future__ import annotations

import copy
import unicodedata


def _nfc(s):
    return unicodedata.normalize("NFC", s) if isinstance(s, str) else s


def norm_value(v):
    k = v[0]
    if k == "str":
        return ("str", _nfc(v[1]))
    if k == "list":
        return ("list", [norm_value(x) for x in v[1]])
    if k == "map":
        return ("map", [(_nfc(kk), norm_value(x)) for kk, x in v[1]])
    if k == "holo":
        return ("holo", _nfc(v[1]))
    return v  # zones are verbatim; numbers/bool/null unchanged


def norm_node(n):
    k = n[0]
    if k == "a":
        return ("a", _nfc(n[1]), norm_value(n[2]), [_nfc(c) for c in n[3]], _nfc(n[4]))
    if k == "b":
        return ("b", _nfc(n[1]), _nfc(n[2]), [norm_node(c) for c in n[3]], [_nfc(c) for c in n[4]])
    if k == "s":
        return ("s", _nfc(n[1]), _nfc(n[2]), _nfc(n[3]), [norm_node(c) for c in n[4]], [_nfc(c) for c in n[5]])
    return ("c", _nfc(n[1]))


def expected(d):
    """What reading the document must yield: the content itself, strings in NFC (zones verbatim)."""
    out = dict(d)
    out["meta"] = [(_nfc(k), ("d", [(_nfc(k2), norm_value(v2)) for k2, v2 in mv[1]]) if mv[0] == "d" else ("v", norm_value(mv[1])))
                   for k, mv in d["meta"]]
    out["sections"] = [norm_node(n) for n in d["sections"]]
    out["trailing"] = [_nfc(c) for c in d["trailing"]]
    return out


def first_diff(a, b, path=""):
    if type(a) != type(b):
        return (path, a, b)
    if isinstance(a, dict):
        for k in a:
            r = first_diff(a[k], b.get(k), path + "/" + k)
            if r:
                return r
        return None
    if isinstance(a, (list, tuple)):
        if len(a) != len(b):
            return (path + "#len", len(a), len(b))
        for i, (x, y) in enumerate(zip(a, b)):
            r = first_diff(x, y, path + "/%d" % i)
            if r:
                return r
        return None
    return None if a == b else (path, a, b)


# ---------------- shrinking ------------------------------------------------------------------
def _value_variants(v):
    k = v[0]
    if k != "str" or v[1] != "x":
        yield ("str", "x")
    if k == "list":
        for i in range(len(v[1])):
            yield ("list", v[1][:i] + v[1][i + 1:])
        for i, x in enumerate(v[1]):
            for y in _value_variants(x):
                yield ("list", v[1][:i] + [y] + v[1][i + 1:])
    elif k == "map":
        for i, (kk, x) in enumerate(v[1]):
            for y in _value_variants(x):
                yield ("map", v[1][:i] + [(kk, y)] + v[1][i + 1:])
    elif k == "str" and len(v[1]) > 1:
        s = v[1]
        yield ("str", s[: len(s) // 2])
        yield ("str", s[len(s) // 2:])
        for i in range(min(len(s), 12)):
            yield ("str", s[:i] + s[i + 1:])
    elif k == "zone":
        if v[1]:
            lines = v[1].split("\n")
            for i in range(len(lines)):
                yield ("zone", "\n".join(lines[:i] + lines[i + 1:]), v[2], v[3])
        if v[2] is not None:
            yield ("zone", v[1], None, v[3])


def _nodes_variants(nodes):
    for i in range(len(nodes)):
        yield nodes[:i] + nodes[i + 1:]
    for i, n in enumerate(nodes):
        for m in _node_variants(n):
            yield nodes[:i] + [m] + nodes[i + 1:]


def _node_variants(n):
    k = n[0]
    if k == "a":
        if n[3]:
            yield ("a", n[1], n[2], [], n[4])
        if n[4] is not None:
            yield ("a", n[1], n[2], n[3], None)
        for v in _value_variants(n[2]):
            yield ("a", n[1], v, n[3], n[4])
        if n[1] not in ("K", ""):
            yield ("a", "K", n[2], n[3], n[4])
    elif k == "b":
        if n[1] != "K":
            yield ("b", "K", n[2], n[3], n[4])
        for ch in n[3]:
            yield ch            # hoist a child
        if n[2] is not None:
            yield ("b", n[1], None, n[3], n[4])
        if n[4]:
            yield ("b", n[1], n[2], n[3], [])
        for chs in _nodes_variants(n[3]):
            yield ("b", n[1], n[2], chs, n[4])
    elif k == "s":
        if (n[1], n[2]) != ("1", "K"):
            yield ("s", "1", "K", n[3], n[4], n[5])
        for ch in n[4]:
            yield ch
        if n[3] is not None:
            yield ("s", n[1], n[2], None, n[4], n[5])
        if n[5]:
            yield ("s", n[1], n[2], n[3], n[4], [])
        for chs in _nodes_variants(n[4]):
            yield ("s", n[1], n[2], n[3], chs, n[5])


def doc_variants(d):
    for key, val in (("front", None), ("grammar", None), ("sep", False), ("meta", []), ("trailing", [])):
        if d[key] != val:
            e = dict(d)
            e[key] = val
            yield e
    for i in range(len(d["meta"])):
        e = dict(d)
        e["meta"] = d["meta"][:i] + d["meta"][i + 1:]
        yield e
    for i, (k, mv) in enumerate(d["meta"]):
        if mv[0] == "v":
            for v in _value_variants(mv[1]):
                e = dict(d)
                e["meta"] = d["meta"][:i] + [(k, ("v", v))] + d["meta"][i + 1:]
                yield e
        else:
            for j in range(len(mv[1])):
                e = dict(d)
                e["meta"] = d["meta"][:i] + [(k, ("d", mv[1][:j] + mv[1][j + 1:]))] + d["meta"][i + 1:]
                yield e
    for secs in _nodes_variants(d["sections"]):
        e = dict(d)
        e["sections"] = secs
        yield e


def shrink(d, fails, budget=400):
    """Greedy structural shrink: smallest variant for which `fails(d)` stays true."""
    cur = d
    steps = 0
    improved = True
    while improved and steps < budget:
        improved = False
        for v in doc_variants(cur):
            steps += 1
            if steps >= budget:
                break
            try:
                if fails(v):
                    cur = v
                    improved = True
                    break
            except Exception:  # noqa
                continue
    return cur


# ---------------- content model membership ---------------------------------------------------
def _ok_comment(c):
    return isinstance(c, str) and c != "" and c == c.strip() and "\n" not in c


def _ok_children(chs, in_block):
    seen_comment = False
    for n in chs:
        if n[0] == "c":
            seen_comment = True
            if not _ok_comment(n[1]):
                return False
            continue
        if seen_comment:
            return False            # orphan comments only at the end of a body
        if not _ok_node(n, in_block):
            return False
    return True


def _ok_node(n, in_block=False):
    k = n[0]
    if k == "a":
        if n[1] == "":
            return in_block and n[2][0] == "zone" and n[4] is None
        if not all(_ok_comment(c) for c in n[3]):
            return False
        if n[4] is not None and (not _ok_comment(n[4]) or n[2][0] == "zone"):
            return False
        return n[2][0] != "absent"
    if k == "b":
        return all(_ok_comment(c) for c in n[4]) and _ok_children(n[3], True) and n[2] != ""
    if k == "s":
        return all(_ok_comment(c) for c in n[5]) and _ok_children(n[4], False) and n[3] != ""
    return False


def in_content_model(d):
    """The document is one the documented surface grammar can express and the reader can return."""
    if any(n[0] == "c" for n in d["sections"]):
        return False
    if not all(_ok_node(n) for n in d["sections"]):
        return False
    if not all(_ok_comment(c) for c in d["trailing"]):
        return False
    if d["front"] is not None and (d["front"].strip() == "" or any(l.strip() == "---" for l in d["front"].split("\n"))):
        return False
    return True


def values_of(d):
    """Every (position, value) of a neutral document: position in {assign, meta, list, map, bare-zone}."""
    out = []

    def val(v, pos):
        out.append((pos, v))
        if v[0] == "list":
            for x in v[1]:
                val(x, "list")
        elif v[0] == "map":
            for _, x in v[1]:
                val(x, "map")

    def node(n):
        if n[0] == "a":
            val(n[2], "assign")
        elif n[0] == "b":
            for c in n[3]:
                node(c)
        elif n[0] == "s":
            for c in n[4]:
                node(c)

    for _, mv in d["meta"]:
        if mv[0] == "v":
            val(mv[1], "meta")
        else:
            for _, v in mv[1]:
                val(v, "meta")
    for n in d["sections"]:
        node(n)
    return out


def strings_of(d):
    return [v[1] for _, v in values_of(d) if v[0] == "str"]
