"""Core-fragment stream: the documents Rt/TokRound.v quantifies over (parse_core_doc), at large depths.

For every generated core document d the run checks, on the IMPLEMENTATION,
  * parse(emit(d)) has exactly d's content (property C02), emit(parse(emit d)) == emit d (C01),
  * parse_with_warnings(emit d) yields no repair and only advisory warnings (C07),
and ties the theorem's hypothesis to the code:
  * model lexer on emit(d) has the shape doc_sh d (extracted core_shape_check == 1)   [hypothesis of the theorem]
  * implementation tokenize(emit d) == model tokenize (lexcorr)                         [model = code]
"""
from __future__ import annotations

import unicodedata

from . import astcodec, docprops, lexcorr
from .model import enc_str, run_driver

KEYS = ["A", "B", "KEY", "NAME_1", "X9", "ROLE", "PATTERN", "REGEX", "ID", "Zeta", "snake_case", "T", "NULLABLE", "TRUEISH"]
# strings the emitter must quote (so that the value is ONE STRING token), none with a backslash directly before n/t
STRS = ["", "x y", "hello world", 'say "hi" now', "tab\there", "line1\nline2", "1abc def", "é ü", "a::b c", "true story",
        "[not, a list]", "// no comment", "semi;colon here", "back\\slash end", "===END=== inside", "  padded  ", "→ arrow text"]
INTS = ["0", "1", "-7", "42", "1000000", "123456789012345678901234567890"]
FLOATS = ["2.5", "-0.125", "1e+16", "3.0", "1e-07", "1.5e-05", "2.5e+16", "6.02e+23", "-1.2345e-10",
          "0.30000000000000004", "1234567890123456.0", "1.0000000000000002e+16", "5e-324", "1.7976931348623157e+308"]


def gen_value(rng):
    r = rng.random()
    if r < 0.12:
        return ("null",)
    if r < 0.27:
        return ("bool", rng.random() < 0.5)
    if r < 0.5:
        return ("int", rng.choice(INTS))
    if r < 0.62:
        return ("float", rng.choice(FLOATS))
    return ("str", rng.choice(STRS))


def gen_nodes(rng, depth, max_depth, max_sibs, budget, first=False):
    """budget: [remaining node count] (shared, mutable) -- keeps deep documents small: deep chains, few siblings"""
    n = rng.randint(1, max_sibs)
    out = []
    for i in range(n):
        if budget[0] <= 0 and out:
            break
        budget[0] -= 1
        key = rng.choice(KEYS)
        if first and i == 0 and key == "META":
            key = "A"
        if depth < max_depth and budget[0] > 0 and rng.random() < (0.55 if depth < 3 else 0.85):
            out.append(("b", key, None, gen_nodes(rng, depth + 1, max_depth, max_sibs, budget), []))
        else:
            out.append(("a", key, gen_value(rng), [], None))
    return out


def gen_core_doc(rng, max_depth=8, max_sibs=3, max_nodes=60):
    secs = gen_nodes(rng, 0, max_depth, max_sibs, [max_nodes], first=True) if rng.random() < 0.97 else []
    return {"name": rng.choice(["DOC", "SPEC_1", "A"]), "grammar": rng.choice([None, None, "5.1.0", "6.0.0"]), "front": None,
            "sep": rng.random() < 0.3, "meta": [], "sections": secs, "trailing": []}


def depth_of(nodes):
    return 1 + max((depth_of(n[3]) for n in nodes if n[0] == "b"), default=0) if nodes else 0


def shape_line(d, text):
    chars = sorted({c for c in text + unicodedata.normalize("NFC", text) if ord(c) >= 128})
    cls = ",".join(f"{ord(c)}:{lexcorr.cls_flags(c)}" for c in chars) or "-"
    pairs = [enc_str(l) + "|" + enc_str(unicodedata.normalize("NFC", l)) for l in text.split("\n")]
    return f"coreshape {cls} {len(pairs)} " + " ".join(pairs) + " " + astcodec.enc_doc(d)


REWRITE_SUBTYPES = {"multi_word_coalesce", "source_compile_value", "unclosed_list", "bare_line_dropped"}


def run(ctx, n, have_model, max_depth=8):
    """Returns (texts, docs).  Reports through ctx (property failures un-attributed: the fragment contains no
    known-finding class by construction)."""
    from octave_mcp.core.emitter import emit
    from octave_mcp.core.lexer import LexerError
    from octave_mcp.core.parser import ParserError, parse, parse_with_warnings
    import random
    docs, texts = [], []
    for _ in range(n):
        rng = random.Random(ctx.rng.random())
        d = gen_core_doc(rng, max_depth=rng.choice([2, 4, max_depth, max_depth, 3 * max_depth]), max_sibs=rng.choice([2, 3, 3, 5]))
        t = emit(astcodec.doc_from_neutral(d))
        docs.append(d)
        texts.append(t)
        ctx.count()
        ctx.hist("core_depth", depth_of(d["sections"]))
        ctx.nontrivial(("core", t))
        case = {"stream": "core-fragment", "doc": d, "text": t}
        try:
            doc = parse(t)
        except (LexerError, ParserError) as e:
            ctx.property_failure(case, f"core fragment: canonical text rejected by the strict reader ({type(e).__name__})")
            continue
        got = astcodec.doc_to_neutral(doc)
        df = docprops.first_diff(docprops.expected(d), got)
        if df:
            ctx.property_failure(case, f"core fragment: content differs at {df[0]}: expected {df[1]!r}, read {df[2]!r}"[:300])
            continue
        t2 = emit(doc)
        if t2 != t:
            ctx.property_failure(dict(case, second=t2), "core fragment: canonical text is not a fixpoint of canonicalisation")
        _, warns = parse_with_warnings(t)
        bad = [w for w in warns if w.get("type") in ("normalization", "repair_candidate")
               or (w.get("type") == "lenient_parse" and w.get("subtype") in REWRITE_SUBTYPES)]
        if bad:
            ctx.property_failure(dict(case, receipts=[{k: str(v)[:80] for k, v in w.items()} for w in bad[:3]]),
                                 "core fragment: canonical text produced rewrite receipts")
    if have_model and docs:
        res = run_driver("syn", [shape_line(d, t) for d, t in zip(docs, texts)])
        ctx.count(len(res))
        for d, t, r in zip(docs, texts, res):
            ctx.hist("core_shape_check", {"0": "not-core", "1": "shape-ok", "2": "MISMATCH", "3": "LEXERR"}.get(r, r))
            if r != "1":
                ctx.correspondence_failure({"doc": d, "text": t, "core_shape_check": r},
                                           "hypothesis of parse_core_doc: model lexer on emit(d) does not have the shape doc_sh d")
        dom = run_driver("syn", ["domains " + astcodec.enc_doc(d) for d in docs])
        for d, t, r, dm in zip(docs, texts, res, dom):
            bits = int(dm) if dm.isdigit() else -1
            ctx.hist("theorem_domain", {7: "core+lex_safe+strict_safe", 5: "core+strict_safe (not lex_safe)", 3: "core+lex_safe",
                                        1: "core only"}.get(bits & 7, f"bits={bits}"))
            if bits >= 0 and bits & 3 == 3 and r != "1":
                ctx.correspondence_failure({"doc": d, "text": t}, "document in the domain of lex_emit_core but the extracted lexer "
                                           "model does not produce the shape: theorem and extraction disagree")
        strict = run_driver("syn", ["strict " + enc_str(t) for t in texts])
        for d, t, dm, sr in zip(docs, texts, dom, strict):
            if dm.isdigit() and int(dm) & 4 and sr != "1":
                ctx.property_failure({"stream": "core-fragment", "doc": d, "text": t},
                                     "core fragment: canonical text of a strict_safe document is not in the strict profile")
        bad, nl = lexcorr.compare(texts)
        ctx.count(nl)
        for t, i, m in bad[:10]:
            ctx.correspondence_failure({"text": t, "impl": i[:400], "model": m[:400]}, "core fragment: tokenize differs from the lexer model")
    return texts, docs


# ---------------------------------------------------------------------------------------------------------------------
# core2 fragment (Rt/TokRound2.v: parse_core2_doc): + comments, lists of scalars, section markers, META fields
COMMENTS2 = ["note", "a longer comment", "TODO: x -> y", "", "uni → code", "k::v in a comment"]
ANNOTS = [None, None, "draft", "v2", "a_b"]


# strings the emitter writes BARE (core3: Rt/BareWord.v): plain, dotted, dashed words, keyword-like prefixes, $VAR variables
BARE = ["abc", "PROTOCOL_DEFINITION", "v1.2-x", "$USER:name", "$ctx", "trueish", "nullable", "vsx.y", "a.b.c", "x-y-z", "_lead",
        "CamelCase", "falsey", "nullx", "$1", "Z9", "a_b.c-d", "ACTIVE", "done", "$a:b:c", "$KEY::value", "$HOME:", "$a:", "$:", "$x:y:"]
_BARE_ON = [False]
_CORE4 = [False]


def gen_value3(rng):
    if _BARE_ON[0] and rng.random() < 0.4:
        return ("str", rng.choice(BARE))
    return gen_value(rng)


def gen_cval(rng):
    if _CORE4[0]:
        return gen_value4(rng)
    if rng.random() < 0.3:
        n = rng.choice([0, 1, 2, 2, 3, 4, 6])
        return ("list", [gen_value3(rng) for _ in range(n)])
    return gen_value3(rng)


def gen_lead(rng):
    return [rng.choice(COMMENTS2) for _ in range(rng.choice([0, 0, 0, 1, 2]))]


def gen_nodes2(rng, depth, max_depth, max_sibs, budget, top=False):
    n = rng.randint(1, max_sibs)
    out = []
    for i in range(n):
        if budget[0] <= 0 and out:
            break
        budget[0] -= 1
        key = rng.choice(KEYS)
        lead = gen_lead(rng)
        if top and out and out[-1][0] in ("b", "s"):
            lead = []                                   # top_ok: no leading comment directly after a top-level container
        r = rng.random()
        if depth < max_depth and budget[0] > 0 and r < 0.3:
            tgt = rng.choice([None, "TARGET", "SELF", "X1"]) if _TARGETS[0] else None
            out.append(("b", key, tgt, gen_nodes2(rng, depth + 1, max_depth, max_sibs, budget), lead))
        elif depth < max_depth and budget[0] > 0 and r < 0.45:
            sid = rng.choice(["1", "2", "10", "INTRO", "CONTEXT"])
            out.append(("s", sid, key, rng.choice(ANNOTS), gen_nodes2(rng, depth + 1, max_depth, max_sibs, budget), lead))
        else:
            tr = rng.choice([None, None, None, "trailing note", "x -> y"])
            if _TARGETS[0] and rng.random() < 0.3:
                out.append(("a", key, ("holo", rng.choice(HOLO_T)), lead, tr))
                continue
            if _ZONES[0] and rng.random() < 0.3:
                out.append(("a", key, gen_zone_z(rng), lead, None))
                continue
            out.append(("a", key, gen_cval(rng), lead, tr))
    return out


def gen_core2_doc(rng, max_depth=5, max_sibs=3, max_nodes=40):
    secs = gen_nodes2(rng, 0, max_depth, max_sibs, [max_nodes], top=True)
    meta = []
    if rng.random() < 0.5:
        for k in rng.sample(["TYPE", "VERSION", "OWNER", "TAGS", "N"], rng.randint(1, 3)):
            meta.append((k, ("v", gen_cval(rng))))
    trailing = gen_lead(rng)
    if secs and secs[-1][0] in ("b", "s"):
        trailing = []
    sep = rng.random() < 0.3
    if not meta and not sep and secs and secs[0][1] == "META" and not (secs[0][0] == "s"):
        sep = True
    return {"name": rng.choice(["DOC", "SPEC_1"]), "grammar": rng.choice([None, None, "5.1.0"]), "front": None,
            "sep": sep, "meta": meta, "sections": secs, "trailing": trailing}


def shape2_line(d, text):
    chars = sorted({c for c in text + unicodedata.normalize("NFC", text) if ord(c) >= 128})
    cls = ",".join(f"{ord(c)}:{lexcorr.cls_flags(c)}" for c in chars) or "-"
    pairs = [enc_str(l) + "|" + enc_str(unicodedata.normalize("NFC", l)) for l in text.split("\n")]
    return f"core2shape {cls} {len(pairs)} " + " ".join(pairs) + " " + astcodec.enc_doc(d)


def gen_value4(rng, depth=0):
    """core4 values: scalars, nested lists (both layouts arise from the emitter), one-pair inline maps as list items"""
    r = rng.random()
    if depth >= 4 or r < 0.45:
        return gen_value3(rng)
    n = rng.choice([0, 1, 2, 2, 3, 4])
    items = []
    for _ in range(n):
        y = rng.random()
        if y < 0.45:
            items.append(gen_value3(rng))
        elif y < 0.7:
            items.append(gen_value4(rng, depth + 1) if depth < 3 else gen_value3(rng))
        else:
            mv = gen_value3(rng) if rng.random() < 0.75 else ("list", [gen_value3(rng) for _ in range(rng.choice([0, 1, 2, 3]))])
            items.append(("map", [(rng.choice(["K", "NAME_1", "PATTERN", "REGEX", "ENUM", "x9", "42", "snake_case"]), mv)]))
    return ("list", items)



ZONE_LINES_Z = ["plain", "K::v", "===END===", "B:", "// not a comment", "``", "`x`", "\tTabbed", "", "trailing  ", "  indented", "A->B | C",
                "\u00e9 e\u0301", "see NAME{q}", '"""', "---", "\u00a71::X"]
_ZONES = [False]


def gen_zone_z(rng):
    ml = rng.choice([3, 3, 3, 4, 5])
    lines = [l for l in (rng.choice(ZONE_LINES_Z) for _ in range(rng.choice([0, 0, 1, 2, 3, 5])))
             if not l.lstrip(" ").startswith("`" * ml)]
    return ("zone", "\n".join(lines), rng.choice([None, None, "python", "json", "c++"]), "`" * ml)


HOLO_T = ['["example"∧REQ→§SELF]', '["x"∧REQ]', '[1∧TYPE[NUMBER]]', '["a"∧ENUM[a,b]→§T]', '["d"∧REQ∧REGEX["^a$"]→§INDEXER]', '[null∧REQ]',
          '["a\\tb"∧REQ]', '[true∧OPT→§INDEXER]', '["v"∧REGEX["^a$"]]', '[2.5∧OPT]', '["x"∧REQ∧OPT]', '["a b"∧OPT→§SELF]',
          '["x"∧ENUM["a","b c"]]', '[""∧REQ∧OPT→§INDEXER]']
_TARGETS = [False]


def runt(ctx, n, have_model):
    """coret stream (Rt/TokRoundT*.v): core2 documents with targeted blocks KEY[->§T]: and holographic assignment values;
    the extracted coret_shape_check (which also tests every holographic site against the proved class) runs on every document"""
    _TARGETS[0] = True
    try:
        return run2(ctx, n, have_model, gen="coret")
    finally:
        _TARGETS[0] = False


def runz(ctx, n, have_model):
    """corez stream (Rt/TokRoundZ.v): core2 documents whose assignments may carry a keyed literal zone at any depth, next to
    any other node; every document is checked by the extracted corez_shape_check on its emitted text and the zones are
    compared byte for byte after the implementation's round trip (docprops content comparison)"""
    _ZONES[0] = True
    try:
        return run2(ctx, n, have_model, gen="corez")
    finally:
        _ZONES[0] = False


def run4(ctx, n, have_model):
    """core4 stream (Rt/TokRound4.v): core3 + nested lists + inline-map items; every document is checked by the extracted
    core4_shape_check (the hypothesis of C02_core4_shape_check_sound) on its emitted text"""
    _BARE_ON[0] = True
    _CORE4[0] = True
    try:
        return run2(ctx, n, have_model, gen="core4")
    finally:
        _BARE_ON[0] = False
        _CORE4[0] = False


def run3(ctx, n, have_model):
    """core3 stream (Rt/BareWord.v): core2 documents whose strings are also drawn from the BARE pool (emitted without quotes)"""
    _BARE_ON[0] = True
    try:
        return run2(ctx, n, have_model, gen="core3")
    finally:
        _BARE_ON[0] = False


def run2(ctx, n, have_model, gen="core2"):
    """core2 stream: implementation round trip on every generated document + the executable hypothesis of
    C02_text_roundtrip_core2_checked (extracted core2_shape_check) + lexer correspondence."""
    from octave_mcp.core.emitter import emit
    from octave_mcp.core.lexer import LexerError
    from octave_mcp.core.parser import ParserError, parse, parse_with_warnings
    import random
    docs, texts = [], []
    for _ in range(n):
        rng = random.Random(ctx.rng.random())
        d = gen_core2_doc(rng, max_depth=rng.choice([2, 3, 5, 8]), max_sibs=rng.choice([2, 3, 4]))
        t = emit(astcodec.doc_from_neutral(d))
        docs.append(d)
        texts.append(t)
        ctx.count()
        ctx.nontrivial((gen, t))
        case = {"stream": gen + "-fragment", "doc": d, "text": t}
        try:
            doc = parse(t)
        except (LexerError, ParserError) as e:
            ctx.property_failure(case, f"{gen} fragment: canonical text rejected by the strict reader ({type(e).__name__})")
            continue
        got = astcodec.doc_to_neutral(doc)
        df = docprops.first_diff(docprops.expected(d), got)
        if df:
            ctx.property_failure(case, f"{gen} fragment: content differs at {df[0]}: expected {df[1]!r}, read {df[2]!r}"[:300])
            continue
        if emit(doc) != t:
            ctx.property_failure(case, f"{gen} fragment: canonical text is not a fixpoint of canonicalisation")
        _, warns = parse_with_warnings(t)
        bad = [w for w in warns if w.get("type") in ("normalization", "repair_candidate")
               or (w.get("type") == "lenient_parse" and w.get("subtype") in REWRITE_SUBTYPES)]
        if bad:
            ctx.property_failure(dict(case, receipts=[{k: str(v)[:80] for k, v in w.items()} for w in bad[:3]]),
                                 f"{gen} fragment: canonical text produced rewrite receipts")
    if have_model and docs:
        cmd = {"core3": "core3shape", "core4": "core4shape", "corez": "corezshape"}.get(gen, "core2shape")
        if gen == "coret":
            from . import parsecorr
            parsecorr._install_holo_recorder()
            from octave_mcp.core.parser import parse as _p
            cmds = []
            for d, t in zip(docs, texts):
                try:
                    _p(t)                      # lets the recorder see the verdict of every holographic site of this text
                except Exception:  # noqa
                    pass
                nums = parsecorr.number_table(t)
                numtab = ",".join(f"{enc_str(r)}/{k}/{enc_str(c)}" for r, (k, c) in sorted(nums.items())) or "-"
                holos = ",".join(enc_str(r) for r, ok in parsecorr._holo_seen.items() if ok and r) or "-"
                line = shape2_line(d, t)
                head, rest = line.split(" ", 2)[1], line.split(" ", 2)[2]
                cmds.append(f"coretshape {head} {numtab} {holos} {rest}")
            res = run_driver("syn", cmds)
        else:
            res = run_driver("syn", [shape2_line(d, t).replace("core2shape", cmd, 1) for d, t in zip(docs, texts)])
        ctx.count(len(res))
        dom = run_driver("syn", ["domains " + astcodec.enc_doc(d) for d in docs])
        need = 40 if gen == "core3" else 24
        for d, t, r, dm in zip(docs, texts, res, dom):
            bits = int(dm) if dm.isdigit() else 0
            indom = bits & need == need
            if gen == "coret":
                inT = not r.startswith("X")
                inD = r.startswith("D")      # domain of the text-level theorem C02_text_roundtrip_holographic_element_chains (extracted predicate in_coreth4_domain = coreth5_doc && lex_safeth5_doc)
                r = r.lstrip("DX")
                ctx.hist("theorem_domain_coreth5", "coreth5+lex_safeth5" if inD else "coret only" if inT else "outside coret")
                if inD and r in ("2", "3"):
                    ctx.correspondence_failure({"doc": d, "text": t, "shape_check": r},
                                               "document in the domain of lex_emit_coreth5 but the extracted lexer model does not produce "
                                               "the shape: theorem and extraction disagree")
                ctx.hist("coret_shape_check", ("coret:" if inT else "outside coret:") + {"0": "site outside the proved class", "1": "shape-ok", "2": "mismatch", "3": "LEXERR"}.get(r, r))
                continue
            if gen == "corez":
                indomz = r.startswith("D")
                inz = not r.startswith("X")
                r = r.lstrip("DX")
                ctx.hist("corez_shape_check", ("corez+lex_safez:" if indomz else "corez only:" if inz else "outside corez:")
                         + {"0": "not-corez", "1": "shape-ok", "2": "mismatch", "3": "LEXERR"}.get(r, r))
                if indomz and r != "1":
                    ctx.correspondence_failure({"doc": d, "text": t, "shape_check": r},
                                               "document in the domain of text_roundtrip_corez but the extracted shape check is not 1: theorem and extraction disagree")
                continue
            if gen == "core4":
                # D = in the domain of C02_text_roundtrip_core4 (core4_doc && lex_safe4_doc): the shape check must be 1
                # (C02_shape_check_core4_complete); no prefix = core4 but outside lex_safe4; X = outside core4
                indom4 = r.startswith("D")
                incore4 = not r.startswith("X")
                r = r.lstrip("DX")
                ctx.hist("core4_shape_check", ("core4+lex_safe4:" if indom4 else "core4 only:" if incore4 else "outside core4:")
                         + {"0": "not-core4", "1": "shape-ok", "2": "mismatch", "3": "LEXERR"}.get(r, r))
                if indom4 and r != "1":
                    ctx.correspondence_failure({"doc": d, "text": t, "shape_check": r},
                                               "document in the domain of text_roundtrip_core4 but the extracted shape check is not 1: theorem and extraction disagree")
                continue
            ctx.hist(gen + "_shape_check", {"0": "not-" + gen, "1": "shape-ok", "2": "MISMATCH", "3": "LEXERR"}.get(r, r)
                     + ("" if indom else " (outside lex_safe)"))
            ctx.hist("theorem_domain_" + gen, f"{gen}+lex_safe" if indom else f"{gen} only" if bits & 8 else f"outside {gen}")
            if gen == "core2" and r in ("2", "3"):
                ctx.correspondence_failure({"doc": d, "text": t, "core2_shape_check": r},
                                           "hypothesis of text_roundtrip_core2_checked: model lexer on emit(d) does not have the shape doc2_sh d")
            if indom and r != "1":
                ctx.correspondence_failure({"doc": d, "text": t, "shape_check": r},
                                           f"document in the domain of lex_emit_{gen} but the extracted lexer model "
                                           "does not produce the shape: theorem and extraction disagree")
        bad, nl = lexcorr.compare(texts)
        ctx.count(nl)
        for t, i, m in bad[:10]:
            ctx.correspondence_failure({"text": t, "impl": i[:400], "model": m[:400]}, f"{gen} fragment: tokenize differs from the lexer model")
    return texts, docs
