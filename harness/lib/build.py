"""translate -> make -> Print Assumptions -> extraction drivers.  All under one flock."""
from __future__ import annotations

import fcntl
import hashlib
import importlib
import os
import re
import shutil
import subprocess
import sys
import time
import traceback
from pathlib import Path

from .core import BUILD, REPO, SRC, VERIF

COQ = VERIF / "coq"
TH = COQ / "theories"
GEN = TH / "Gen"
OCAML = VERIF / "ocaml"
OGEN = OCAML / "gen"


def translator_names():
    return sorted(p.stem for p in (VERIF / "harness" / "translate").glob("*_t.py"))


FORBIDDEN = re.compile(
    r"\b(Admitted|admit|Axiom|Axioms|Parameter|Parameters|Conjecture|Conjectures|Admit Obligations)\b"
    r"|Unset\s+Guard\s+Checking|Unset\s+Positivity\s+Checking|Unset\s+Universe\s+Checking|bypass_check"
    r"|-type-in-type|-impredicative-set|native_compute"
)


class Lock:
    def __enter__(self):
        BUILD.mkdir(exist_ok=True)
        self.f = open(BUILD / ".lock", "w")
        fcntl.flock(self.f, fcntl.LOCK_EX)
        return self

    def __exit__(self, *a):
        fcntl.flock(self.f, fcntl.LOCK_UN)
        self.f.close()


def _write_if_changed(path: Path, text: str) -> bool:
    if path.exists() and path.read_text() == text:
        return False
    path.parent.mkdir(parents=True, exist_ok=True)
    path.write_text(text)
    return True


def strip_comments(text: str) -> str:
    out = []
    depth = 0
    i = 0
    n = len(text)
    while i < n:
        if text.startswith("(*", i):
            depth += 1
            i += 2
        elif text.startswith("*)", i) and depth > 0:
            depth -= 1
            i += 2
        else:
            if depth == 0:
                out.append(text[i])
            i += 1
    return "".join(out)


def grep_gate():
    """No Admitted/admit/Axiom/Parameter/...; Variable/Hypothesis/Context only inside a Section."""
    bad = []
    for p in sorted(TH.rglob("*.v")):
        try:
            txt = strip_comments(p.read_text())
        except FileNotFoundError:      # a scratch file of a concurrent proof session that vanished between glob and read
            continue
        # strip string literals
        txt_ns = re.sub(r'"[^"]*"', '""', txt)
        for m in FORBIDDEN.finditer(txt_ns):
            line = txt_ns.count("\n", 0, m.start()) + 1
            bad.append(f"{p.relative_to(VERIF)}:{line}: forbidden '{m.group(0)}'")
        depth = 0
        for ln, line in enumerate(txt_ns.splitlines(), 1):
            s = line.strip()
            if re.match(r"Section\s+\w+\s*\.", s):
                depth += 1
            elif re.match(r"End\s+\w+\s*\.", s) and depth > 0:
                depth -= 1
            elif depth == 0 and re.match(r"(Variables?|Hypothes[ie]s|Context)\b", s):
                bad.append(f"{p.relative_to(VERIF)}:{ln}: '{s[:40]}' outside a Section")
    return bad


def translate_all():
    """Run every translator; a failing translator writes a Gen file that cannot compile."""
    GEN.mkdir(parents=True, exist_ok=True)
    sys.path.insert(0, str(VERIF / "harness"))
    report = {}
    for name in translator_names():
        modpath = VERIF / "harness" / "translate" / f"{name}.py"
        if not modpath.exists():
            continue
        try:
            mod = importlib.import_module(f"translate.{name}")
            files = mod.generate(SRC)
            for fname, text in files.items():
                _write_if_changed(GEN / fname, text)
            report[name] = {"ok": True, "files": sorted(files)}
        except Exception as e:  # fail closed
            msg = f"{type(e).__name__}: {e}"
            tb = traceback.format_exc(limit=4)
            report[name] = {"ok": False, "error": msg, "trace": tb}
            try:
                mod = importlib.import_module(f"translate.{name}")
                outs = getattr(mod, "OUTPUTS", [])
            except Exception:
                outs = []
            for fname in outs:
                safe = msg.replace("*)", "* )").replace("(*", "( *")
                _write_if_changed(
                    GEN / fname,
                    f"(* TRANSLATOR FAILED (fail-closed): {safe} *)\n"
                    "Definition translator_failed : False := I.\n",
                )
    return report


def digest_changes():
    """Names of the functions of octave_mcp whose text differs from the pinned one (Src/Pin_<module>.v)."""
    gen = GEN / "SrcDigestGen.v"
    pins = sorted((TH / "Src").glob("Pin_*.v"))
    if not gen.exists() or not pins:
        return ["<digest files missing>"]
    cur = dict(re.findall(r"Definition (dg_\w+) : list N := (.*?)\.\n", gen.read_text()))
    pin = {}
    for pf in pins:
        pin.update(re.findall(r"Definition pinned_(dg_\w+) : list N := (.*?)\.\n", pf.read_text()))
    out = [n for n in pin if cur.get(n) != pin[n]]
    out += [n + " (new)" for n in cur if n not in pin]
    return out


def coq_files():
    return sorted(str(p.relative_to(COQ)) for p in TH.rglob("*.v"))


def ensure_makefile():
    files = coq_files()
    proj = "-Q theories OV\n-arg -w -arg -notation-overridden,-deprecated-hint-without-locality,-deprecated-instance-without-locality\n" + "\n".join(files) + "\n"
    changed = _write_if_changed(COQ / "_CoqProject", proj)
    if changed or not (COQ / "Makefile").exists():
        subprocess.run(["coq_makefile", "-f", "_CoqProject", "-o", "Makefile"], cwd=COQ, check=True,
                       stdout=subprocess.DEVNULL, stderr=subprocess.DEVNULL)


def make(targets, timeout=1500, jobs=16):
    """Returns (ok, log)."""
    ensure_makefile()
    cmd = ["timeout", str(timeout), "make", f"-j{jobs}", "-k"] + list(targets)
    env = dict(os.environ)
    env.pop("MAKEFLAGS", None)
    p = subprocess.run(cmd, cwd=COQ, stdout=subprocess.PIPE, stderr=subprocess.STDOUT, text=True, env=env)
    return p.returncode == 0, p.stdout


def parse_make_errors(log: str):
    """[(file, message)] for each coqc error in a make log."""
    errs = []
    lines = log.splitlines()
    i = 0
    while i < len(lines):
        m = re.match(r'File "\./(theories/[^"]+)", line (\d+), characters', lines[i])
        if m:
            msg = []
            j = i + 1
            while j < len(lines) and not lines[j].startswith(("File ", "make", "COQC", "COQDEP")):
                msg.append(lines[j])
                j += 1
            text = " ".join(x.strip() for x in msg)
            if "Error" in text:
                errs.append((f"{m.group(1)}:{m.group(2)}", text[:600]))
            i = j
        else:
            i += 1
    return errs


THM_RE = re.compile(r"^\s*(?:Theorem|Corollary)\s+([A-Za-z_][A-Za-z0-9_']*)", re.M)


def property_theorems(prop: str):
    p = TH / "Properties" / f"{prop}.v"
    if not p.exists():
        return []
    return THM_RE.findall(strip_comments(p.read_text()))


def print_assumptions(prop: str, theorems):
    """{thm: [] (closed) | [axiom names]} via a generated file compiled by coqc."""
    d = BUILD / "assump"
    d.mkdir(parents=True, exist_ok=True)
    f = d / f"A_{prop}.v"
    body = [f"From OV Require Import Properties.{prop}."]
    for t in theorems:
        body.append(f'Goal True. idtac "@@THM {t}". exact I. Qed.')
        body.append(f"Print Assumptions OV.Properties.{prop}.{t}.")
    f.write_text("\n".join(body) + "\n")
    p = subprocess.run(["timeout", "300", "coqc", "-Q", str(TH), "OV", "-w", "none", str(f)], cwd=d,
                       stdout=subprocess.PIPE, stderr=subprocess.STDOUT, text=True)
    out = p.stdout
    res = {}
    if p.returncode != 0:
        return None, out
    chunks = re.split(r"@@THM (\S+)", out)
    # chunks: [pre, name1, text1, name2, text2...]
    for k in range(1, len(chunks), 2):
        name, text = chunks[k], chunks[k + 1]
        if "Closed under the global context" in text:
            res[name] = []
        else:
            axs = re.findall(r"^([A-Za-z_][\w.']*)\s*:", text, re.M)
            res[name] = axs if axs else ["<unparsed>"]
    return res, out


def build_driver(name: str):
    """ocaml/gen/<name>.ml (extracted) + ocaml/prelude.ml + ocaml/<name>_main.ml -> build/bin/<name>."""
    src_ml = OGEN / f"{name}.ml"
    src_mli = OGEN / f"{name}.mli"
    main = OCAML / f"{name}_main.ml"
    prelude = OCAML / "prelude.ml"
    if not src_ml.exists():
        return False, f"extracted {src_ml} missing"
    h = hashlib.sha256()
    for p in (src_ml, src_mli, main, prelude):
        if p.exists():
            h.update(p.read_bytes())
    digest = h.hexdigest()
    wd = BUILD / "ocaml" / name
    binp = BUILD / "bin" / name
    stamp = wd / "stamp"
    if binp.exists() and stamp.exists() and stamp.read_text() == digest:
        return True, "cached"
    shutil.rmtree(wd, ignore_errors=True)
    wd.mkdir(parents=True)
    (BUILD / "bin").mkdir(exist_ok=True)
    shutil.copy(src_ml, wd / f"{name}.ml")
    if src_mli.exists():
        shutil.copy(src_mli, wd / f"{name}.mli")
    modname = name[0].upper() + name[1:]
    drv = f"open {modname}\n" + prelude.read_text() + "\n" + main.read_text()
    (wd / "driver.ml").write_text(drv)
    srcs = ([f"{name}.mli"] if src_mli.exists() else []) + [f"{name}.ml", "driver.ml"]
    p = subprocess.run(["timeout", "600", "ocamlfind", "ocamlopt", "-w", "-a", "-o", str(binp)] + srcs,
                       cwd=wd, stdout=subprocess.PIPE, stderr=subprocess.STDOUT, text=True)
    if p.returncode != 0:
        return False, p.stdout[-3000:]
    stamp.write_text(digest)
    return True, "built"



def coqchk(prop: str, timeout=1500):
    """Independent re-check of the property's .vo closure (thorough tier). Returns (ok, summary dict, raw tail)."""
    p = subprocess.run(["timeout", str(timeout), "coqchk", "-o", "-silent", "-Q", "theories", "OV", f"OV.Properties.{prop}"],
                       cwd=COQ, stdout=subprocess.PIPE, stderr=subprocess.STDOUT, text=True)
    out = p.stdout
    summ = {}
    m = re.search(r"CONTEXT SUMMARY(.*)$", out, re.S)
    if m:
        for key, label in (("axioms", "Axioms"), ("type_in_type", "relying on type-in-type"),
                           ("unsafe_fixpoints", "relying on unsafe (co)fixpoints"), ("assumed_positivity", "positivity is assumed")):
            mm = re.search(r"\* [^\n]*%s: *(.*?)(?=\n\s*\n|\Z)" % re.escape(label), m.group(1), re.S)
            summ[key] = " ".join(mm.group(1).split()) if mm else "<unparsed>"
    ok = p.returncode == 0 and summ and all(v == "<none>" for v in summ.values())
    return ok, summ, out[-1500:]


def prepare(ctx, coq_targets, drivers, allowed_axioms=()):
    """Translate, build Coq targets for this property, check assumptions, build drivers.

    Records obligations / obligation failures in ctx. Returns dict with flags:
    {'coq_ok': bool, 'drivers': {name: bool}}.
    """
    prop = ctx.prop
    t0 = time.time()
    with Lock():
        gate = grep_gate()
        for g in gate:
            ctx.obligation_failure("grep-gate", g)
        treport = translate_all()
        ctx.extra["translators"] = {k: (v["ok"] if v["ok"] else v["error"]) for k, v in treport.items()}
        ctx.extra["source_digest_changes"] = digest_changes()
        # force re-extraction if extracted files are missing
        for d in drivers:
            if not (OGEN / f"{d}.ml").exists():
                exv = TH / "Extract" / f"Ex_{d}.v"
                vo = exv.with_suffix(".vo")
                if vo.exists():
                    vo.unlink()
        OGEN.mkdir(parents=True, exist_ok=True)
        targets = [f"theories/Properties/{prop}.vo"] + list(coq_targets) + [f"theories/Extract/Ex_{d}.vo" for d in drivers]
        ok, log = make(targets)
        (BUILD / f"make_{prop}.log").write_text(log)
        thms = property_theorems(prop)
        status = {"coq_ok": ok, "drivers": {}}
        prop_vo = TH / "Properties" / f"{prop}.vo"
        if not ok:
            errs = parse_make_errors(log)
            if not errs:
                errs = [("make", log[-800:])]
            for where, msg in errs:
                if "theories/Src/Pin_" in where:
                    msg = ("source text differs from the text the hand-written model was validated against, in: "
                           + ", ".join(digest_changes())[:500] + " | " + msg)
                ctx.obligation_failure(where, msg)
        if prop_vo.exists() and ok:
            res, raw = print_assumptions(prop, thms)
            if res is None:
                ctx.obligation_failure(f"Properties/{prop}.v", "Print Assumptions run failed: " + raw[-400:])
                for t in thms:
                    ctx.obligations.append({"name": t, "kind": "theorem", "ok": False})
            else:
                for t in thms:
                    axs = res.get(t, ["<missing>"])
                    bad = [a for a in axs if a not in allowed_axioms]
                    ctx.obligations.append({"name": t, "kind": "theorem", "ok": not bad,
                                            "assumptions": axs if axs else "Closed under the global context"})
                    if bad:
                        ctx.obligation_failure(t, f"depends on non-whitelisted axioms {bad}")
        else:
            for t in thms:
                ctx.obligations.append({"name": t, "kind": "theorem", "ok": False})
        if ok and getattr(ctx, "tier", "quick") == "thorough" and prop_vo.exists():
            cok, summ, raw = coqchk(prop)
            ctx.extra["coqchk"] = {"cmd": f"coqchk -o -silent -Q theories OV OV.Properties.{prop}", "ok": bool(cok), "summary": summ}
            ctx.obligations.append({"name": "coqchk -o (independent checker, axioms / type-in-type / unsafe fixpoints / assumed positivity all <none>)",
                                    "kind": "coqchk", "ok": bool(cok)})
            if not cok:
                ctx.obligation_failure("coqchk", f"coqchk did not accept the closure of Properties/{prop}.vo or reports assumptions: {summ} {raw[-300:]}")
        def up_to_date(target):
            """make -q: is the target up to date with its dependencies (a failed build leaves older .vo files behind)"""
            env = dict(os.environ)
            env.pop("MAKEFLAGS", None)
            return subprocess.run(["make", "-q", target], cwd=COQ, stdout=subprocess.DEVNULL, stderr=subprocess.DEVNULL, env=env).returncode == 0
        for d in drivers:
            exvo = f"theories/Extract/Ex_{d}.vo"
            if not ok and (TH / "Extract" / f"Ex_{d}.vo").exists() and not up_to_date(exvo):
                # The model of THIS tree did not build (a translator refused the source, or a pin broke in a file the
                # extraction depends on): the driver at hand was extracted from the model of an earlier tree.  The run is
                # already a VIOLATION through the broken obligation; the earlier model is still used for the SEARCH (to
                # attribute known findings and to point at disagreements), and the evidence says so.
                ctx.extra.setdefault("stale_drivers", []).append(d)
                ctx.obligation_failure(f"driver:{d}", "extraction is stale (a generated or model file it depends on did not build): "
                                       "the search below uses the model extracted from the last tree that built")
            dok, msg = build_driver(d) if (TH / "Extract" / f"Ex_{d}.vo").exists() else (False, "extraction did not build")
            status["drivers"][d] = dok
            if not dok:
                ctx.obligation_failure(f"driver:{d}", msg[-500:])
    ctx.extra["build_s"] = round(time.time() - t0, 1)
    ctx.checker_cmd = (f"cd /verif/coq && make -j16 {' '.join(targets)}  &&  coqc -Q theories OV build/assump/A_{prop}.v"
                       f"  (Print Assumptions of {len(thms)} theorems)")
    return status


def _fresh(vo: Path):
    v = vo.with_suffix(".v")
    return vo.stat().st_mtime >= v.stat().st_mtime


def setup_all():
    """MANIFEST.setup_cmd: full build from clean."""
    with Lock():
        gate = grep_gate()
        if gate:
            print("\n".join(gate))
            return 1
        rep = translate_all()
        for k, v in rep.items():
            print("translate", k, "ok" if v["ok"] else v["error"])
        OGEN.mkdir(parents=True, exist_ok=True)
        ok, log = make([], timeout=3000)
        (BUILD / "make_setup.log").write_text(log)
        rc = 0
        if not ok:
            # every check re-makes its own targets and reports what does not build as a broken obligation of
            # THAT property; a file that fails here must not take the unrelated properties down with it.
            for where, msg in parse_make_errors(log) or [("make", log[-1500:])]:
                print(f"SETUP-WARNING: {where}: {msg[:300]}")
        for m in sorted(OCAML.glob("*_main.ml")):
            name = m.name[: -len("_main.ml")]
            dok, msg = build_driver(name)
            print("driver", name, msg if dok else "FAILED " + msg)
            if not dok:
                rc = 1
        return rc
