"""Parser correspondence: implementation parse()/parse_with_warnings() vs the extracted model."""
from __future__ import annotations

import unicodedata

from . import astcodec, lexcorr
from .model import enc_str, run_driver

SUBTYPES = {"multi_word_coalesce": 1, "source_compile_value": 2, "unclosed_list": 3, "bare_line_dropped": 4,
            "duplicate_key": 5, "deep_nesting": 6, "constructor_misuse": 7, "nested_inline_map": 8,
            "pattern_autoquote": 9, "bare_flow": 10, "constraint_outside_brackets": 11, "chained_tension": 12}

_holo_seen = {}


def _install_holo_recorder():
    """Record every parse_holographic_pattern(raw) verdict (oracle for the model)."""
    import octave_mcp.core.holographic as H
    if getattr(H, "_verif_wrapped", False):
        return
    orig = H.parse_holographic_pattern

    def wrapped(raw, *a, **k):
        try:
            r = orig(raw, *a, **k)
            _holo_seen[raw] = True
            return r
        except H.HolographicPatternError:
            _holo_seen[raw] = False
            raise

    H.parse_holographic_pattern = wrapped
    H._verif_wrapped = True


def number_table(text: str):
    """NUMBER lexemes of the implementation's token stream -> canonical str(value), computed with int()/float()."""
    from octave_mcp.core.lexer import TokenType, tokenize
    from octave_mcp.core.parser import _strip_yaml_frontmatter
    out = {}
    try:
        stripped, _ = _strip_yaml_frontmatter(text)
        toks, _ = tokenize(stripped)
    except Exception:  # noqa
        return out
    for t in toks:
        if t.type == TokenType.NUMBER and t.raw is not None:
            raw = t.raw
            if "." in raw or "e" in raw.lower():
                try:
                    out[raw] = ("f", str(float(raw)))
                except Exception:  # noqa
                    pass
            else:
                try:
                    out[raw] = ("i", str(int(raw)))
                except Exception:  # noqa
                    pass
    return out


def _warn_key(w):
    ty, sub = w.get("type"), w.get("subtype")
    if ty == "normalization":
        return None
    code = SUBTYPES.get(sub)
    if code is None:
        return None
    line, col = w.get("line", 0), w.get("column", 0)
    a = b = ""
    parts, nums = [], []
    if code == 1:
        a = w.get("result", "")
        b = w.get("context", "")
        parts = list(w.get("original", []))
    elif code == 2:
        a = w.get("result", "")
    elif code == 4:
        a = w.get("original", "")
    elif code == 5:
        a = w.get("key", "")
        line = col = 0
        nums = list(w.get("all_lines", []))
    elif code == 6:
        nums = [w.get("depth", 0)]
    elif code in (7, 9):
        a = w.get("key", "")
        b = w.get("value", "")
    elif code == 8:
        a = w.get("key", "")
    elif code == 10:
        m = w.get("message", "")
        a = "→"
        b = "assign" if "used as assignment" in m else ""
    elif code == 11:
        a = "∧"
    elif code == 12:
        m = w.get("message", "")
        import re
        mm = re.search(r"contains (\d+) tension", m)
        nums = [int(mm.group(1))] if mm else []
    return "%d:%d:%d:%s:%s:%s:%s" % (code, line, col, enc_str(a), enc_str(b), "/".join(enc_str(p) for p in parts),
                                      "/".join(str(n) for n in nums))


def _lexrep_key(r):
    ty, sub = r.get("type"), r.get("subtype")
    if ty == "normalization":
        return f"0:{enc_str(r['original'])}:{enc_str(str(r['normalized']))}:{r['line']}:{r['column']}"
    if ty == "spec_violation" and sub == "wrong_case":
        return f"1:{enc_str(r['original'])}:{enc_str(r['correct'])}:{r['line']}:{r['column']}"
    if ty == "spec_violation" and sub == "boundary_missing":
        return f"2:{enc_str(r['original'])}:-:{r['line']}:{r['column']}"
    if ty == "repair_candidate":
        return f"3:{enc_str(r['original'])}:{enc_str(r['repaired'])}:{r['line']}:{r['column']}"
    return None


def impl_result(text: str, strict: bool):
    """-> canonical result string in the model's output format, plus the neutral doc (or None)."""
    from octave_mcp.core.lexer import LexerError
    from octave_mcp.core.parser import ParserError, parse, parse_with_warnings
    _install_holo_recorder()
    try:
        if strict:
            doc = parse(text)
            warns = None
        else:
            doc, warns = parse_with_warnings(text)
    except LexerError as e:
        return f"LEXERR {enc_str(e.error_code)} {e.line} {e.column}", None, None
    except ParserError as e:
        t = e.token
        return f"PARSEERR {enc_str(e.error_code)} {t.line if t else 0} {t.column if t else 0}", None, None
    except RecursionError:
        return "EXC RecursionError", None, None
    except Exception as e:  # noqa
        return f"EXC {type(e).__name__}", None, None
    try:
        nd = astcodec.doc_to_neutral(doc)
        enc = astcodec.enc_doc(nd)
    except Exception as e:  # noqa
        return f"EXC-NEUTRAL {type(e).__name__}", None, None
    return "DOC " + enc, nd, warns


def model_lines(texts, strict):
    """Build the model command lines (needs the impl token stream for the number oracle and the
    holographic verdicts recorded while the implementation parsed)."""
    lines = []
    for text in texts:
        nums = number_table(text)
        numtab = ",".join(f"{enc_str(r)}/{k}/{enc_str(c)}" for r, (k, c) in sorted(nums.items())) or "-"
        holos = ",".join(enc_str(r) for r, ok in _holo_seen.items() if ok and r and (r in text or True)) or "-"
        chars = sorted({c for c in text + unicodedata.normalize("NFC", text) if ord(c) >= 128})
        cls = ",".join(f"{ord(c)}:{lexcorr.cls_flags(c)}" for c in chars) or "-"
        pairs = [enc_str(l) + "|" + enc_str(unicodedata.normalize("NFC", l)) for l in text.split("\n")]
        lines.append(f"parse {1 if strict else 0} {cls} {numtab} {holos} " + " ".join(pairs))
    return lines


def split_model(out: str):
    """'DOC enc # reps # warns' -> (head, reps, warns)"""
    if not out.startswith("DOC "):
        return out, None, None
    body = out[4:]
    doc, reps, warns = body.split(" # ") if body.count(" # ") == 2 else (body, "", "")
    return "DOC " + doc.strip(), reps.strip(), warns.strip()


def compare(texts, strict=True, with_warnings=False):
    """-> (disagreements [(text, impl, model)], n_in_model, n_out_of_model, results)"""
    ins = [t for t in texts if lexcorr.in_model(t)]
    impl = []
    for t in ins:
        _holo_seen.clear()
        r, nd, warns = impl_result(t, strict)
        impl.append((r, nd, warns, dict(_holo_seen)))
    lines = []
    for t, (r, nd, warns, holo) in zip(ins, impl):
        _holo_seen.clear()
        _holo_seen.update(holo)
        lines += model_lines([t], strict)
    _holo_seen.clear()
    outs = run_driver("syn", lines)
    bad, n_in, n_out = [], 0, 0
    results = []
    for t, (r, nd, warns, holo), o in zip(ins, impl, outs):
        head, reps, mwarns = split_model(o)
        if head.startswith("OUT") or r.startswith("EXC-NEUTRAL"):
            n_out += 1
            results.append((t, r, None))
            continue
        n_in += 1
        results.append((t, r, head))
        if head != r:
            bad.append((t, r, head))
            continue
        if with_warnings and warns is not None and head.startswith("DOC"):
            iw = ";".join(k for k in (_warn_key(w) for w in warns) if k)
            if iw != mwarns:
                bad.append((t, "WARNS " + iw, "WARNS " + mwarns))
            ir = ";".join(k for k in (_lexrep_key(w) for w in warns) if k)
            if ir != reps:
                bad.append((t, "LEXREPS " + ir, "LEXREPS " + reps))
    return bad, n_in, n_out, results
