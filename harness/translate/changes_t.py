"""mcp/write.py (changes mode), cli/main.py (`octave write --changes`), core/emitter.py (Absent filters) -> Gen/ChangesGen.v

CONSUMED by Chg/Changes.v:
  changes_sentinel_key / changes_sentinel_value   the literals tested by _is_delete_sentinel  (value.get(K) == V)
  changes_meta_dot_prefix / changes_meta_slice    `key.startswith(P)` of the first guard and the slice offset of `key[n:]`
  changes_meta_key                                the literal of the `key == 'META' and isinstance(new_value, dict)` guard
PINNED by Chg/Pins_Changes.v (reflexivity against what the model was written for):
  changes_delete_sentinel_literal    DELETE_SENTINEL module constant as (key, value) pairs
  changes_sentinel_test              source of the return expression of _is_delete_sentinel
  changes_guard_chain                the ordered if/elif tests of the loop body of _apply_changes (source text; "else" last)
  changes_branch_src                 normalised source of the statements under each guard, same order
  changes_loop_header                `for ... in ...` header of _apply_changes and its final return
  changes_mutations_src              normalised source of _apply_mutations
  changes_normalize_cases            _normalize_value_for_ast: (isinstance type tested, constructor returned | "value") in order
  changes_normalize_src              its normalised source
  changes_execute_calls              the calls of _apply_changes / _apply_mutations / emit inside WriteTool.execute, in source order
  changes_cli_guard_chain / changes_cli_branch_src / changes_cli_loop_header   the same for the loop in cli.main.write
  emitter_absent_sites               every `is_absent(x)` occurrence of emitter.py: (function, argument, context) in source order,
                                     context = "continue" for `if is_absent(x): continue`, else the enclosing expression kind
  emitter_absent_raise               the `isinstance(value, Absent)` guard of emit_value and the statement kind under it
  emitter_meta_block_src             the `if doc.meta:` statement of emit() (normalised source)
  emitter_meta_guarded               true iff that statement is `meta_text = emit_meta(...); if meta_text: lines.append(meta_text)`
                                     (the guard that keeps an all-Absent META from leaving an empty line, /repo 1d4faf6)
  emitter_comment_src                normalised sources of _emit_leading_comments and emit_comment (bare `//` for an empty comment)
Fail closed: any shape that is not recognised raises TranslateError.
"""
import ast

from .tlib import HEADER, coq_list, coq_str, coq_strlist, const_eval, find_def, module_assign, need, parse_file

OUTPUTS = ["ChangesGen.v"]


def _strip_doc(fn):
    body = list(fn.body)
    if body and isinstance(body[0], ast.Expr) and isinstance(body[0].value, ast.Constant) and isinstance(body[0].value.value, str):
        body = body[1:]
    return body


def _src(fn):
    head = f"def {fn.name}({ast.unparse(fn.args)})"
    return head + "\n" + "\n".join(ast.unparse(s) for s in _strip_doc(fn))


def _chain(first_if, where):
    """if/elif/else chain -> ([test source ..., 'else'], [branch source ...])"""
    tests, branches = [], []
    cur = first_if
    while True:
        tests.append(ast.unparse(cur.test))
        branches.append("\n".join(ast.unparse(s) for s in cur.body))
        if len(cur.orelse) == 1 and isinstance(cur.orelse[0], ast.If):
            cur = cur.orelse[0]
            continue
        need(len(cur.orelse) >= 1, f"{where}: guard chain has no final else branch")
        tests.append("else")
        branches.append("\n".join(ast.unparse(s) for s in cur.orelse))
        break
    return tests, branches


def _startswith_literal(test, var, where):
    need(isinstance(test, ast.Call) and isinstance(test.func, ast.Attribute) and test.func.attr == "startswith"
         and ast.unparse(test.func.value) == var and len(test.args) == 1 and not test.keywords
         and isinstance(test.args[0], ast.Constant) and isinstance(test.args[0].value, str),
         f"{where}: first guard is not `{var}.startswith(<literal>)`: {ast.unparse(test)}")
    return test.args[0].value


def _slice_offset(stmts, var, where):
    """the unique `x = <var>[n:]` among stmts -> n"""
    hits = []
    for s in stmts:
        for n in ast.walk(s):
            if isinstance(n, ast.Subscript) and ast.unparse(n.value) == var and isinstance(n.slice, ast.Slice):
                sl = n.slice
                need(sl.upper is None and sl.step is None and isinstance(sl.lower, ast.Constant) and isinstance(sl.lower.value, int),
                     f"{where}: slice of {var} is not `{var}[<int>:]`")
                hits.append(sl.lower.value)
    need(len(hits) == 1, f"{where}: expected exactly one slice of {var}, found {len(hits)}")
    return hits[0]


def _meta_eq_literal(test, var, valvar, where):
    need(isinstance(test, ast.BoolOp) and isinstance(test.op, ast.And) and len(test.values) == 2, f"{where}: second guard is not `a and b`")
    a, b = test.values
    need(isinstance(a, ast.Compare) and ast.unparse(a.left) == var and len(a.ops) == 1 and isinstance(a.ops[0], ast.Eq)
         and isinstance(a.comparators[0], ast.Constant) and isinstance(a.comparators[0].value, str),
         f"{where}: second guard does not compare {var} with a literal")
    need(ast.unparse(b) == f"isinstance({valvar}, dict)", f"{where}: second guard does not test isinstance({valvar}, dict)")
    return a.comparators[0].value


def _loop(fn, where):
    fors = [s for s in _strip_doc(fn) if isinstance(s, ast.For)]
    need(len(fors) == 1, f"{where}: expected exactly one top-level for loop")
    lp = fors[0]
    need(not lp.orelse, f"{where}: loop has an else clause")
    return lp


def generate(src):
    wmod = parse_file(src / "mcp" / "write.py")
    # ---- DELETE sentinel -------------------------------------------------------------------------
    sent = const_eval(module_assign(wmod, "DELETE_SENTINEL"))
    need(isinstance(sent, list) and all(isinstance(k, str) and isinstance(v, str) for k, v in sent), "DELETE_SENTINEL is not a str->str dict literal")
    isd = find_def(wmod, "_is_delete_sentinel")
    body = _strip_doc(isd)
    need(len(body) == 1 and isinstance(body[0], ast.Return), "_is_delete_sentinel: body is not a single return")
    e = body[0].value
    need(isinstance(e, ast.BoolOp) and isinstance(e.op, ast.And) and len(e.values) == 2
         and ast.unparse(e.values[0]) == "isinstance(value, dict)", "_is_delete_sentinel: not `isinstance(value, dict) and ...`")
    c = e.values[1]
    need(isinstance(c, ast.Compare) and len(c.ops) == 1 and isinstance(c.ops[0], ast.Eq) and isinstance(c.left, ast.Call)
         and ast.unparse(c.left.func) == "value.get" and len(c.left.args) == 1 and not c.left.keywords
         and isinstance(c.left.args[0], ast.Constant) and isinstance(c.left.args[0].value, str)
         and isinstance(c.comparators[0], ast.Constant) and isinstance(c.comparators[0].value, str),
         "_is_delete_sentinel: not `value.get(<lit>) == <lit>`")
    s_key, s_val = c.left.args[0].value, c.comparators[0].value
    # ---- _apply_changes --------------------------------------------------------------------------
    ac = find_def(wmod, "_apply_changes", cls="WriteTool")
    stmts = _strip_doc(ac)
    need(len(stmts) == 2 and isinstance(stmts[0], ast.For) and isinstance(stmts[1], ast.Return),
         "_apply_changes: body is not `for ...: ...; return ...`")
    lp = _loop(ac, "_apply_changes")
    need(ast.unparse(lp.target) == "(key, new_value)" and ast.unparse(lp.iter) == "changes.items()", "_apply_changes: loop header changed")
    need(len(lp.body) == 1 and isinstance(lp.body[0], ast.If), "_apply_changes: loop body is not a single if-chain")
    tests, branches = _chain(lp.body[0], "_apply_changes")
    need(len(tests) == 4, f"_apply_changes: expected 3 guards + else, found {tests}")
    prefix = _startswith_literal(lp.body[0].test, "key", "_apply_changes")
    cut = _slice_offset(lp.body[0].body, "key", "_apply_changes")
    meta_key = _meta_eq_literal(lp.body[0].orelse[0].test, "key", "new_value", "_apply_changes")
    need(tests[2] == "_is_delete_sentinel(new_value)", f"_apply_changes: third guard changed: {tests[2]}")
    header = f"for {ast.unparse(lp.target)} in {ast.unparse(lp.iter)}\n{ast.unparse(stmts[1])}"
    # ---- _apply_mutations, _normalize_value_for_ast -----------------------------------------------
    am = find_def(wmod, "_apply_mutations", cls="WriteTool")
    nv = find_def(wmod, "_normalize_value_for_ast")
    cases = []
    for st in _strip_doc(nv):
        cur = st
        while isinstance(cur, ast.If):
            t = cur.test
            need(isinstance(t, ast.Call) and ast.unparse(t.func) == "isinstance" and ast.unparse(t.args[0]) == "value"
                 and isinstance(t.args[1], ast.Name), f"_normalize_value_for_ast: unknown test `{ast.unparse(t)}`")
            rets = [s for s in cur.body if isinstance(s, ast.Return)]
            need(len(rets) == 1 and cur.body[-1] is rets[0], "_normalize_value_for_ast: branch does not end in a single return")
            r = rets[0].value
            if isinstance(r, ast.Name):
                prod = r.id
            else:
                need(isinstance(r, ast.Call) and isinstance(r.func, ast.Name) and not r.args and len(r.keywords) == 1,
                     f"_normalize_value_for_ast: return shape `{ast.unparse(r)}`")
                prod = f"{r.func.id}({r.keywords[0].arg})"
            cases.append((t.args[1].id, prod))
            if len(cur.orelse) == 1 and isinstance(cur.orelse[0], ast.If):
                cur = cur.orelse[0]
            else:
                need(not cur.orelse, "_normalize_value_for_ast: else branch not understood")
                break
        if isinstance(st, ast.Return):
            need(isinstance(st.value, ast.Name), "_normalize_value_for_ast: final return is not a name")
            cases.append(("else", st.value.id))
    need(cases and cases[-1][0] == "else", "_normalize_value_for_ast: no final return")
    # ---- execute: order of the calls -----------------------------------------------------------------
    ex = find_def(wmod, "execute", cls="WriteTool")
    calls = []
    for n in ast.walk(ex):
        if isinstance(n, ast.Call):
            f = ast.unparse(n.func)
            if f in ("self._apply_changes", "self._apply_mutations", "emit", "parse"):
                calls.append((n.lineno, n.col_offset, ast.unparse(n)))
    calls = [c for _, _, c in sorted(calls)]
    # ---- CLI variant ------------------------------------------------------------------------------------
    cmod = parse_file(src / "cli" / "main.py")
    cw = find_def(cmod, "write")
    loops = [n for n in ast.walk(cw) if isinstance(n, ast.For) and ast.unparse(n.iter) == "changes_dict.items()"]
    need(len(loops) == 1, f"cli write: expected one loop over changes_dict.items(), found {len(loops)}")
    cl = loops[0]
    need(ast.unparse(cl.target) == "(key, value)" and not cl.orelse and len(cl.body) == 1 and isinstance(cl.body[0], ast.If),
         "cli write: loop shape changed")
    ctests, cbranches = _chain(cl.body[0], "cli write")
    need(len(ctests) == 3, f"cli write: expected 2 guards + else, found {ctests}")
    cprefix = _startswith_literal(cl.body[0].test, "key", "cli write")
    ccut = _slice_offset(cl.body[0].body, "key", "cli write")
    cmeta = _meta_eq_literal(cl.body[0].orelse[0].test, "key", "value", "cli write")
    need((cprefix, ccut, cmeta) == (prefix, cut, meta_key), "cli write: META literals differ from mcp/write.py")
    cheader = f"for {ast.unparse(cl.target)} in {ast.unparse(cl.iter)}"
    # ---- emitter.py: is_absent sites ------------------------------------------------------------------------
    emod = parse_file(src / "core" / "emitter.py")
    ia = find_def(emod, "is_absent")
    need("\n".join(ast.unparse(s) for s in _strip_doc(ia)) == "return isinstance(value, Absent)", "emitter.is_absent changed")
    sites = []
    for fn in emod.body:
        if not isinstance(fn, ast.FunctionDef) or fn.name == "is_absent":
            continue
        parents = {}
        for p in ast.walk(fn):
            for ch in ast.iter_child_nodes(p):
                parents[ch] = p
        found = []
        for n in ast.walk(fn):
            if isinstance(n, ast.Call) and isinstance(n.func, ast.Name) and n.func.id == "is_absent":
                need(len(n.args) == 1 and not n.keywords, f"emitter.{fn.name}: is_absent call shape")
                par = parents.get(n)
                if isinstance(par, ast.If) and par.test is n:
                    need(len(par.body) >= 1, "empty if body")
                    first = par.body[0]
                    ctx = "continue" if (isinstance(first, ast.Continue) and len(par.body) == 1 and not par.orelse) else \
                        ("if:" + type(first).__name__)
                else:
                    # walk up to the enclosing statement, record the expression kinds in between
                    kinds = []
                    cur = par
                    while cur is not None and not isinstance(cur, ast.stmt):
                        kinds.append(type(cur).__name__)
                        cur = parents.get(cur)
                    ctx = "expr:" + ">".join(kinds) + ">" + (type(cur).__name__ if cur is not None else "?")
                found.append((n.lineno, n.col_offset, fn.name, ast.unparse(n.args[0]), ctx))
        sites += [(f, a, c) for _, _, f, a, c in sorted(found)]
    need(sites, "emitter.py: no is_absent site found")
    ev = find_def(emod, "emit_value")
    evb = _strip_doc(ev)
    need(isinstance(evb[0], ast.If) and ast.unparse(evb[0].test) == "isinstance(value, Absent)" and not evb[0].orelse,
         "emit_value: first statement is not the `isinstance(value, Absent)` guard")
    absent_raise = [ast.unparse(evb[0].test)] + [type(s).__name__ for s in evb[0].body]
    # ---- emit(): the META block is appended only when emit_meta returned something ------------------------------
    em = find_def(emod, "emit")
    metas = [st for st in _strip_doc(em) if isinstance(st, ast.If) and ast.unparse(st.test) == "doc.meta"]
    need(len(metas) == 1 and not metas[0].orelse, "emit: expected exactly one `if doc.meta:` statement without else")
    mb = metas[0].body
    guarded = (len(mb) == 2 and isinstance(mb[0], ast.Assign) and ast.unparse(mb[0]) == "meta_text = emit_meta(doc.meta, format_options)"
               and isinstance(mb[1], ast.If) and ast.unparse(mb[1].test) == "meta_text" and not mb[1].orelse
               and len(mb[1].body) == 1 and ast.unparse(mb[1].body[0]) == "lines.append(meta_text)")
    unguarded = (len(mb) == 1 and ast.unparse(mb[0]) == "lines.append(emit_meta(doc.meta, format_options))")
    need(guarded or unguarded, f"emit: META block not understood: {ast.unparse(metas[0])!r}")
    meta_block_src = ast.unparse(metas[0])
    comment_src = [_src(find_def(emod, "_emit_leading_comments")), _src(find_def(emod, "emit_comment"))]
    # ---- emission -------------------------------------------------------------------------------------------
    out = [HEADER]
    out.append("(* _is_delete_sentinel: value.get(KEY) == VALUE on a dict *)\n")
    out.append(f"Definition changes_sentinel_key : list N := {coq_str(s_key)}.\n")
    out.append(f"Definition changes_sentinel_value : list N := {coq_str(s_val)}.\n")
    out.append(f"Definition changes_sentinel_test : list N := {coq_str(ast.unparse(e))}.\n")
    out.append("Definition changes_delete_sentinel_literal : list (list N * list N) := "
               + coq_list([f"({coq_str(k)}, {coq_str(v)})" for k, v in sent], "(list N * list N)") + ".\n")
    out.append("(* _apply_changes: literals of the first two guards *)\n")
    out.append(f"Definition changes_meta_dot_prefix : list N := {coq_str(prefix)}.\n")
    out.append(f"Definition changes_meta_slice : N := {cut}.\n")
    out.append(f"Definition changes_meta_key : list N := {coq_str(meta_key)}.\n")
    out.append(f"Definition changes_guard_chain : list (list N) := {coq_strlist(tests)}.\n")
    out.append(f"Definition changes_branch_src : list (list N) := {coq_strlist(branches)}.\n")
    out.append(f"Definition changes_loop_header : list N := {coq_str(header)}.\n")
    out.append(f"Definition changes_mutations_src : list N := {coq_str(_src(am))}.\n")
    out.append("Definition changes_normalize_cases : list (list N * list N) := "
               + coq_list([f"({coq_str(a)}, {coq_str(b)})" for a, b in cases], "(list N * list N)") + ".\n")
    out.append(f"Definition changes_normalize_src : list N := {coq_str(_src(nv))}.\n")
    out.append(f"Definition changes_execute_calls : list (list N) := {coq_strlist(calls)}.\n")
    out.append("(* cli/main.py write --changes *)\n")
    out.append(f"Definition changes_cli_guard_chain : list (list N) := {coq_strlist(ctests)}.\n")
    out.append(f"Definition changes_cli_branch_src : list (list N) := {coq_strlist(cbranches)}.\n")
    out.append(f"Definition changes_cli_loop_header : list N := {coq_str(cheader)}.\n")
    out.append("(* emitter.py: every is_absent(x) occurrence: (function, argument, context) *)\n")
    out.append("Definition emitter_absent_sites : list (list N * (list N * list N)) := "
               + coq_list([f"({coq_str(f)}, ({coq_str(a)}, {coq_str(c)}))" for f, a, c in sites], "(list N * (list N * list N))") + ".\n")
    out.append(f"Definition emitter_absent_raise : list (list N) := {coq_strlist(absent_raise)}.\n")
    out.append(f"Definition emitter_meta_block_src : list N := {coq_str(meta_block_src)}.\n")
    out.append(f"Definition emitter_meta_guarded : bool := {'true' if guarded else 'false'}.\n")
    out.append(f"Definition emitter_comment_src : list (list N) := {coq_strlist(comment_src)}.\n")
    return {"ChangesGen.v": "".join(out)}
