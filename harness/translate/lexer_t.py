"""lexer.py -> Gen/LexerGen.v : alias table, operator chars, token patterns, fence pattern, unescape chain."""
import ast

from .tlib import (HEADER, TranslateError, coq_list, coq_str, coq_strlist, const_eval, find_def, module_assign, need,
                   parse_file)

OUTPUTS = ["LexerGen.v"]


def generate(src):
    mod = parse_file(src / "core" / "lexer.py")
    aliases = const_eval(module_assign(mod, "ASCII_ALIASES"))
    wrong = const_eval(module_assign(mod, "WRONG_CASE_PATTERNS"))
    opchars = const_eval(module_assign(mod, "OPERATOR_CHARS"))
    fence = const_eval(module_assign(mod, "FENCE_PATTERN"))
    inline_fence = const_eval(module_assign(mod, "_INLINE_FENCE_PATTERN"))
    inv_env = const_eval(module_assign(mod, "_INVALID_ENVELOPE_PATTERN"))
    tp = module_assign(mod, "TOKEN_PATTERNS")
    need(isinstance(tp, ast.List), "TOKEN_PATTERNS is not a list literal")
    pats = []
    for el in tp.elts:
        need(isinstance(el, ast.Tuple) and len(el.elts) == 2, "TOKEN_PATTERNS entry shape")
        rx = const_eval(el.elts[0])
        kind = ast.unparse(el.elts[1])
        need(kind.startswith("TokenType."), "TOKEN_PATTERNS kind")
        pats.append((rx, kind[len("TokenType."):]))
    # TokenType members in order
    tt = [n for n in mod.body if isinstance(n, ast.ClassDef) and n.name == "TokenType"]
    need(len(tt) == 1, "TokenType class")
    members = [st.targets[0].id for st in tt[0].body if isinstance(st, ast.Assign)]
    # un-escape of quoted strings in tokenize: ONE regex substitution  value = _UNESCAPE_PATTERN.sub(lambda m: _UNESCAPE_MAP[m.group(1)], value)
    tok = find_def(mod, "tokenize")
    subs = [n for n in ast.walk(tok) if isinstance(n, ast.Assign) and len(n.targets) == 1 and isinstance(n.targets[0], ast.Name)
            and n.targets[0].id == "value" and isinstance(n.value, ast.Call) and ast.unparse(n.value.func) == "_UNESCAPE_PATTERN.sub"]
    need(len(subs) == 1, "tokenize: exactly one `value = _UNESCAPE_PATTERN.sub(...)` expected")
    need(ast.unparse(subs[0].value) == "_UNESCAPE_PATTERN.sub(lambda m: _UNESCAPE_MAP[m.group(1)], value)",
         "tokenize: un-escape substitution has an unexpected shape: " + ast.unparse(subs[0].value))
    replaces = [n for n in ast.walk(tok) if isinstance(n, ast.Call) and isinstance(n.func, ast.Attribute) and n.func.attr == "replace"
                and isinstance(n.func.value, ast.Name) and n.func.value.id == "value"]
    need(not replaces, "tokenize: value.replace(...) next to the single-pass un-escape (sequential replaces re-read their own output)")
    un_map = const_eval(module_assign(mod, "_UNESCAPE_MAP"))
    need(isinstance(un_map, list) and all(isinstance(k, str) and isinstance(v, str) and len(k) == 1 and len(v) == 1 for k, v in un_map)
         and len({k for k, _ in un_map}) == len(un_map), "_UNESCAPE_MAP is not a dict literal of distinct single characters")
    un_pat = const_eval(module_assign(mod, "_UNESCAPE_PATTERN"))
    # grammar sentinel: tried only at `sentinel_pos`, the end of the leading blank lines
    guards = [n for n in ast.walk(tok) if isinstance(n, ast.If) and isinstance(n.test, ast.BoolOp) and isinstance(n.test.op, ast.And)
              and len(n.test.values) == 2 and ast.unparse(n.test.values[0]) == "token_type == TokenType.GRAMMAR_SENTINEL"]
    need(len(guards) == 1 and len(guards[0].body) == 1 and isinstance(guards[0].body[0], ast.Continue) and not guards[0].orelse,
         "tokenize: exactly one `if token_type == TokenType.GRAMMAR_SENTINEL and <cond>: continue` expected")
    sentinel_guard = ast.unparse(guards[0].test.values[1])
    sp_assign = [n for n in ast.walk(tok) if isinstance(n, ast.Assign) and len(n.targets) == 1 and isinstance(n.targets[0], ast.Name)
                 and n.targets[0].id == "sentinel_pos"]
    need(len(sp_assign) <= 1, "tokenize: sentinel_pos assigned more than once")
    sentinel_pos = ast.unparse(sp_assign[0].value) if sp_assign else ""
    need(not any(isinstance(n, (ast.While, ast.For)) and any(m is sp_assign[0] for m in ast.walk(n)) for n in ast.walk(tok)) if sp_assign else True,
         "tokenize: sentinel_pos assigned inside a loop")
    lead_blank = const_eval(module_assign(mod, "_LEADING_BLANK_LINES")) if sp_assign else ""
    # lenient= default of tokenize, error codes raised
    codes = sorted({const_eval(c.args[3]) for c in ast.walk(mod)
                    if isinstance(c, ast.Call) and ast.unparse(c.func) == "LexerError" and len(c.args) == 4
                    and isinstance(c.args[3], ast.Constant)})
    out = [HEADER]
    out.append(f"Definition lexer_ascii_aliases : list (list N * list N) :=\n  {coq_list([f'({coq_str(a)}, {coq_str(b)})' for a, b in aliases])}.\n")
    out.append(f"Definition lexer_wrong_case : list (list N * list N) :=\n  {coq_list([f'({coq_str(a)}, {coq_str(b)})' for a, b in wrong])}.\n")
    out.append(f"Definition lexer_operator_chars : list N := {coq_str(''.join(sorted(opchars)))}.\n")
    out.append(f"Definition lexer_fence_pattern : list N := {coq_str(fence)}.\n")
    out.append(f"Definition lexer_inline_fence_pattern : list N := {coq_str(inline_fence)}.\n")
    out.append(f"Definition lexer_invalid_envelope_pattern : list N := {coq_str(inv_env)}.\n")
    out.append(f"Definition lexer_token_patterns : list (list N * list N) :=\n  {coq_list([f'({coq_str(r)}, {coq_str(k)})' for r, k in pats])}.\n")
    out.append(f"Definition lexer_token_types : list (list N) := {coq_strlist(members)}.\n")
    out.append(f"Definition lexer_unescape_map : list (N * N) :=\n  {coq_list([f'({ord(k)}, {ord(v)})' for k, v in un_map])}.\n")
    out.append(f"Definition lexer_unescape_pattern : list N := {coq_str(un_pat)}.\n")
    out.append(f"Definition lexer_sentinel_guard : list N := {coq_str(sentinel_guard)}.\n")
    out.append(f"Definition lexer_sentinel_pos : list N := {coq_str(sentinel_pos)}.\n")
    out.append(f"Definition lexer_leading_blank_pattern : list N := {coq_str(lead_blank)}.\n")
    out.append(f"Definition lexer_error_codes : list (list N) := {coq_strlist(codes)}.\n")
    return {"LexerGen.v": "".join(out)}
