"""lexer.py -> Gen/LexerGen.v : alias table, operator chars, token patterns, fence pattern, unescape chain."""
import ast

from .tlib import (HEADER, TranslateError, coq_list, coq_str, coq_strlist, const_eval, find_def, module_assign, need,
                   parse_file)

OUTPUTS = ["LexerGen.v"]


def generate(src):
    mod = parse_file(src / "core" / "lexer.py")
    aliases = const_eval(module_assign(mod, "ASCII_ALIASES"))
    wrong = const_eval(module_assign(mod, "WRONG_CASE_PATTERNS"))
    opchars = const_eval(module_assign(mod, "OPERATOR_CHARS"))
    fence = const_eval(module_assign(mod, "FENCE_PATTERN"))
    inline_fence = const_eval(module_assign(mod, "_INLINE_FENCE_PATTERN"))
    inv_env = const_eval(module_assign(mod, "_INVALID_ENVELOPE_PATTERN"))
    tp = module_assign(mod, "TOKEN_PATTERNS")
    need(isinstance(tp, ast.List), "TOKEN_PATTERNS is not a list literal")
    pats = []
    for el in tp.elts:
        need(isinstance(el, ast.Tuple) and len(el.elts) == 2, "TOKEN_PATTERNS entry shape")
        rx = const_eval(el.elts[0])
        kind = ast.unparse(el.elts[1])
        need(kind.startswith("TokenType."), "TOKEN_PATTERNS kind")
        pats.append((rx, kind[len("TokenType."):]))
    # TokenType members in order
    tt = [n for n in mod.body if isinstance(n, ast.ClassDef) and n.name == "TokenType"]
    need(len(tt) == 1, "TokenType class")
    members = [st.targets[0].id for st in tt[0].body if isinstance(st, ast.Assign)]
    # unescape chain in tokenize: consecutive `value = value.replace(a, b)`
    tok = find_def(mod, "tokenize")
    chain = []
    for n in ast.walk(tok):
        if isinstance(n, ast.Assign) and len(n.targets) == 1 and isinstance(n.targets[0], ast.Name) \
                and n.targets[0].id == "value" and isinstance(n.value, ast.Call) \
                and isinstance(n.value.func, ast.Attribute) and n.value.func.attr == "replace" \
                and isinstance(n.value.func.value, ast.Name) and n.value.func.value.id == "value":
            a, b = const_eval(n.value.args[0]), const_eval(n.value.args[1])
            chain.append((n.lineno, a, b))
    chain.sort()
    need(len(chain) >= 1, "tokenize: unescape chain not found")
    # lenient= default of tokenize, error codes raised
    codes = sorted({const_eval(c.args[3]) for c in ast.walk(mod)
                    if isinstance(c, ast.Call) and ast.unparse(c.func) == "LexerError" and len(c.args) == 4
                    and isinstance(c.args[3], ast.Constant)})
    out = [HEADER]
    out.append(f"Definition lexer_ascii_aliases : list (list N * list N) :=\n  {coq_list([f'({coq_str(a)}, {coq_str(b)})' for a, b in aliases])}.\n")
    out.append(f"Definition lexer_wrong_case : list (list N * list N) :=\n  {coq_list([f'({coq_str(a)}, {coq_str(b)})' for a, b in wrong])}.\n")
    out.append(f"Definition lexer_operator_chars : list N := {coq_str(''.join(sorted(opchars)))}.\n")
    out.append(f"Definition lexer_fence_pattern : list N := {coq_str(fence)}.\n")
    out.append(f"Definition lexer_inline_fence_pattern : list N := {coq_str(inline_fence)}.\n")
    out.append(f"Definition lexer_invalid_envelope_pattern : list N := {coq_str(inv_env)}.\n")
    out.append(f"Definition lexer_token_patterns : list (list N * list N) :=\n  {coq_list([f'({coq_str(r)}, {coq_str(k)})' for r, k in pats])}.\n")
    out.append(f"Definition lexer_token_types : list (list N) := {coq_strlist(members)}.\n")
    out.append(f"Definition lexer_unescape_chain : list (list N * list N) :=\n  {coq_list([f'({coq_str(a)}, {coq_str(b)})' for _, a, b in chain])}.\n")
    out.append(f"Definition lexer_error_codes : list (list N) := {coq_strlist(codes)}.\n")
    return {"LexerGen.v": "".join(out)}
