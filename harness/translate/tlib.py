"""Helpers for the fail-closed Python-ast -> Coq translators."""
from __future__ import annotations

import ast
from pathlib import Path


class TranslateError(Exception):
    pass


def parse_file(path: Path) -> ast.Module:
    return ast.parse(path.read_text(), filename=str(path))


def need(cond, msg):
    if not cond:
        raise TranslateError(msg)


def module_assign(mod: ast.Module, name: str) -> ast.expr:
    """The value expression of the unique module-level assignment `name = ...` / `name: T = ...`."""
    found = []
    for node in mod.body:
        if isinstance(node, ast.Assign) and len(node.targets) == 1 and isinstance(node.targets[0], ast.Name) \
                and node.targets[0].id == name:
            found.append(node.value)
        elif isinstance(node, ast.AnnAssign) and isinstance(node.target, ast.Name) and node.target.id == name \
                and node.value is not None:
            found.append(node.value)
    need(len(found) == 1, f"expected exactly one module-level assignment of {name}, found {len(found)}")
    return found[0]


def find_def(mod, name, cls=None):
    body = mod.body
    if cls is not None:
        cs = [n for n in mod.body if isinstance(n, ast.ClassDef) and n.name == cls]
        need(len(cs) == 1, f"class {cls} not found exactly once")
        body = cs[0].body
    fs = [n for n in body if isinstance(n, (ast.FunctionDef, ast.AsyncFunctionDef)) and n.name == name]
    need(len(fs) == 1, f"function {cls + '.' if cls else ''}{name} not found exactly once ({len(fs)})")
    return fs[0]


def const_eval(e: ast.expr, env=None):
    """Evaluate a constant expression built from literals, +, names in env, tuples/lists/sets/dicts,
    frozenset(...)/re.compile(...) wrappers.  Anything else -> TranslateError."""
    env = env or {}
    if isinstance(e, ast.Constant):
        return e.value
    if isinstance(e, ast.Name):
        need(e.id in env, f"unknown name {e.id} in constant expression")
        return env[e.id]
    if isinstance(e, ast.BinOp) and isinstance(e.op, ast.Add):
        return const_eval(e.left, env) + const_eval(e.right, env)
    if isinstance(e, ast.BinOp) and isinstance(e.op, ast.Mult):
        return const_eval(e.left, env) * const_eval(e.right, env)
    if isinstance(e, ast.UnaryOp) and isinstance(e.op, ast.USub):
        return -const_eval(e.operand, env)
    if isinstance(e, ast.JoinedStr):
        out = []
        for v in e.values:
            if isinstance(v, ast.Constant):
                out.append(v.value)
            elif isinstance(v, ast.FormattedValue) and v.format_spec is None and v.conversion == -1:
                out.append(str(const_eval(v.value, env)))
            else:
                raise TranslateError("unsupported f-string part")
        return "".join(out)
    if isinstance(e, ast.Tuple):
        return tuple(const_eval(x, env) for x in e.elts)
    if isinstance(e, ast.List):
        return [const_eval(x, env) for x in e.elts]
    if isinstance(e, ast.Set):
        return [const_eval(x, env) for x in e.elts]  # source order kept
    if isinstance(e, ast.Dict):
        return [(const_eval(k, env), const_eval(v, env)) for k, v in zip(e.keys, e.values)]
    if isinstance(e, ast.Call):
        fn = ast.unparse(e.func)
        if fn in ("frozenset", "set", "tuple", "list") and len(e.args) == 1 and not e.keywords:
            return const_eval(e.args[0], env)
        if fn == "re.compile" and len(e.args) >= 1:
            flags = [ast.unparse(a) for a in e.args[1:]] + [ast.unparse(k.value) for k in e.keywords]
            need(not flags, f"re.compile with flags {flags} is not modelled")
            return const_eval(e.args[0], env)
    raise TranslateError(f"unsupported constant expression: {ast.unparse(e)[:80]}")


def replace_chain(e: ast.expr):
    """`x.replace(a,b).replace(c,d)...` -> (base expr source, [(a,b),(c,d),...]) in application order."""
    chain = []
    cur = e
    while isinstance(cur, ast.Call) and isinstance(cur.func, ast.Attribute) and cur.func.attr == "replace":
        need(len(cur.args) == 2 and not cur.keywords, "replace() with unexpected arguments")
        a, b = const_eval(cur.args[0]), const_eval(cur.args[1])
        need(isinstance(a, str) and isinstance(b, str), "replace() with non-literal arguments")
        chain.append((a, b))
        cur = cur.func.value
    chain.reverse()
    return ast.unparse(cur), chain


# ---- Coq emission -----------------------------------------------------------
def coq_str(s: str) -> str:
    return "[" + "; ".join(str(ord(c)) for c in s) + "]%N" if s else "(@nil N)"


def coq_list(items, ty=None) -> str:
    if not items:
        return f"(@nil {ty})" if ty else "[]"
    return "[" + ";\n   ".join(items) + "]"


def coq_strlist(xs) -> str:
    return coq_list([coq_str(x) for x in xs], "(list N)")


def coq_comment(s: str) -> str:
    return "(* " + s.replace("(*", "( *").replace("*)", "* )") + " *)"


HEADER = "(* GENERATED on every run by harness/translate -- do not edit. *)\nFrom Coq Require Import List NArith ZArith.\nImport ListNotations.\nOpen Scope N_scope.\n\n"
