"""gbnf_compiler.py -> Gen/GbnfGen.v

Extracted (consumed by Gbnf/Compiler.v): every string literal returned by `_compile_*`, the sanitiser
replace chain and its other literals, the literal-escape chain, the `unsupported` list and the other
literals of `_compile_regex`, the isinstance dispatch of `compile_constraint`, the priority order of
`compile_chain`, and `compile_schema` as an ordered list of guarded line templates. A template hole is a plain
name (`field_name`, `schema.name`, ...) or exactly `self._escape_literal(field_name)` / `self._escape_literal(schema_name)`
(kept as a hole of that name: the model escapes there and nowhere else); the flags `gbnf_field_name_escaped` /
`gbnf_schema_name_escaped` say whether EVERY occurrence of the name in a template is wrapped (Gbnf/Safe.v chooses the
name clause by them; Gbnf/Compiler.v pins that they agree with the templates).  The header comment's hole is
`schema.name` or exactly `" ".join(schema.name.splitlines())` (repo b75eb16; flag `gbnf_header_name_one_line`).
Also extracted: which expression feeds SchemaDefinition.name on each route (`gbnf_name_sources`: compile_gbnf_from_meta,
extract_schema_from_document, emit_grammar_for_schema), the extractor's default name, the parser's INFERRED placeholder
and the CONTRACT-or-FIELDS dispatch of octave_compile_grammar / octave_eject -- any other binding of the name fails closed.
In compile_gbnf_from_meta the binding may be followed by exactly `if not isinstance(schema_type, str): schema_type = <literal>`
(repo 61337a1): flag `gbnf_meta_type_nonstring_is_unknown` + the literal `gbnf_meta_type_nonstring_name`.
Fail closed: any statement shape that is not recognised raises TranslateError.
"""
import ast

from .tlib import (HEADER, TranslateError, coq_list, coq_str, coq_strlist, const_eval, find_def, need, parse_file,
                   replace_chain)

OUTPUTS = ["GbnfGen.v"]
CLS = "GBNFCompiler"


def _body(fn):
    """Function body without the docstring."""
    b = list(fn.body)
    if b and isinstance(b[0], ast.Expr) and isinstance(b[0].value, ast.Constant) and isinstance(b[0].value.value, str):
        b = b[1:]
    return b


def _single_return_const(mod, name):
    fn = find_def(mod, name, CLS)
    b = _body(fn)
    need(len(b) == 1 and isinstance(b[0], ast.Return), f"{name}: expected a single return statement")
    v = const_eval(b[0].value)
    need(isinstance(v, str), f"{name}: non-string return")
    return v


ESC_WRAPPED = ("field_name", "schema_name")      # names that may appear as self._escape_literal(<name>) in a template
ONE_LINE_NAME = "' '.join(schema.name.splitlines())"    # repo b75eb16: the header comment shows the name on one line


def _hole_name(e):
    """Text of an f-string hole. The ONLY call accepted is `self._escape_literal(<Name>)` (one positional Name argument,
    no keywords): it becomes the hole `self._escape_literal(<name>)`, which `allowed` must list. Anything else that is
    not a plain name / attribute chain is refused."""
    if isinstance(e, ast.Call) and isinstance(e.func, ast.Attribute) and e.func.attr == "join":
        # exactly  " ".join(schema.name.splitlines())  -- separator one blank, no keepends, nothing else
        f = e.func
        ok = (isinstance(f.value, ast.Constant) and f.value.value == " " and len(e.args) == 1 and not e.keywords)
        a = e.args[0] if ok else None
        ok = ok and isinstance(a, ast.Call) and not a.args and not a.keywords and isinstance(a.func, ast.Attribute) \
            and a.func.attr == "splitlines" and ast.unparse(a.func.value) == "schema.name" \
            and isinstance(a.func.value, ast.Attribute) and isinstance(a.func.value.value, ast.Name)
        need(ok, f"unexpected join in a template hole: {ast.unparse(e)[:70]}")
        return ONE_LINE_NAME
    if isinstance(e, ast.Call):
        f = e.func
        need(isinstance(f, ast.Attribute) and isinstance(f.value, ast.Name) and f.value.id == "self"
             and f.attr == "_escape_literal" and len(e.args) == 1 and not e.keywords and isinstance(e.args[0], ast.Name),
             f"unexpected call in a template hole: {ast.unparse(e)[:60]}")
        return f"self._escape_literal({e.args[0].id})"
    need(isinstance(e, (ast.Name, ast.Attribute)), f"unexpected expression in a template hole: {ast.unparse(e)[:60]}")
    return ast.unparse(e)


def _fstring_parts(e, allowed):
    """JoinedStr / Constant / `"lit" + name` -> [('L', text) | ('H', hole)] ; holes must be in `allowed`."""
    if isinstance(e, ast.Constant) and isinstance(e.value, str):
        return [("L", e.value)]
    if isinstance(e, ast.BinOp) and isinstance(e.op, ast.Add):
        return _fstring_parts(e.left, allowed) + _fstring_parts(e.right, allowed)
    if isinstance(e, (ast.Name, ast.Attribute, ast.Call)):
        h = _hole_name(e)
        need(h in allowed, f"unexpected hole {h}")
        return [("H", h)]
    if isinstance(e, ast.JoinedStr):
        out = []
        for v in e.values:
            if isinstance(v, ast.Constant):
                out.append(("L", v.value))
            elif isinstance(v, ast.FormattedValue) and v.format_spec is None and v.conversion == -1:
                h = _hole_name(v.value)
                need(h in allowed, f"unexpected hole {h}")
                out.append(("H", h))
            else:
                raise TranslateError("unsupported f-string part")
        return out
    raise TranslateError(f"unsupported template expression {ast.unparse(e)[:60]}")


def _other_name_stores(fn, obj):
    """Stores to <obj>.name other than plain `obj.name = ...` assignments (aug-assign, setattr, tuple targets ...)."""
    bad = []
    for n in ast.walk(fn):
        if isinstance(n, (ast.AugAssign, ast.AnnAssign)) and ast.unparse(n.target) == f"{obj}.name":
            bad.append(n)
        if isinstance(n, ast.Call) and ast.unparse(n.func) == "setattr" and n.args and ast.unparse(n.args[0]) == obj:
            bad.append(n)
        if isinstance(n, ast.Assign) and any(isinstance(t, (ast.Tuple, ast.List)) and f"{obj}.name" in ast.unparse(t) for t in n.targets):
            bad.append(n)
    return bad


def _name_feed(fn, var, allow_nonstr_guard=False):
    """The unique expression bound to local `var`, which must be what the unique SchemaDefinition(name=var, ...) call of
    `fn` receives; no other binding of `var`, no later store to <schema>.name, no setattr / replace() on the schema.
    With allow_nonstr_guard the binding may be followed IMMEDIATELY by exactly
        if not isinstance(<var>, str):
            <var> = <string literal>
    (repo 61337a1); then the result is (expression, literal), else (expression, None)."""
    binds = [n for n in ast.walk(fn) if isinstance(n, ast.Name) and n.id == var and isinstance(n.ctx, ast.Store)]
    asg = [n for n in fn.body if isinstance(n, ast.Assign) and len(n.targets) == 1 and isinstance(n.targets[0], ast.Name)
           and n.targets[0].id == var]
    need(len(asg) == 1, f"{fn.name}: `{var}` is not bound by one top-level assignment")
    guard_lit = None
    if allow_nonstr_guard and len(binds) == 2:
        i = fn.body.index(asg[0])
        g = fn.body[i + 1] if i + 1 < len(fn.body) else None
        ok = (isinstance(g, ast.If) and not g.orelse and ast.unparse(g.test) == f"not isinstance({var}, str)" and len(g.body) == 1
              and isinstance(g.body[0], ast.Assign) and len(g.body[0].targets) == 1 and ast.unparse(g.body[0].targets[0]) == var
              and isinstance(g.body[0].value, ast.Constant) and isinstance(g.body[0].value.value, str))
        need(ok, f"{fn.name}: second binding of `{var}` is not the guard `if not isinstance({var}, str): {var} = <literal>` "
                 "directly after the first")
        guard_lit = g.body[0].value.value
    else:
        need(len(binds) == 1, f"{fn.name}: `{var}` is bound {len(binds)} times (expected once)")
    calls = [n for n in ast.walk(fn) if isinstance(n, ast.Call) and ast.unparse(n.func) == "SchemaDefinition"]
    need(len(calls) == 1, f"{fn.name}: expected one SchemaDefinition(...) call, found {len(calls)}")
    kw = [k for k in calls[0].keywords if k.arg == "name"]
    need(not calls[0].args and len(kw) == 1 and isinstance(kw[0].value, ast.Name) and kw[0].value.id == var,
         f"{fn.name}: SchemaDefinition is no longer built with name={var}")
    for n in ast.walk(fn):
        if isinstance(n, ast.Attribute) and n.attr == "name" and isinstance(n.ctx, (ast.Store, ast.Del)):
            raise TranslateError(f"{fn.name}: store to {ast.unparse(n)}")
        if isinstance(n, ast.Call) and ast.unparse(n.func) in ("setattr", "replace", "dataclasses.replace", "object.__setattr__"):
            raise TranslateError(f"{fn.name}: {ast.unparse(n)[:60]}")
    if allow_nonstr_guard:
        return asg[0].value, guard_lit
    return asg[0].value


def _is_append(st, target):
    return (isinstance(st, ast.Expr) and isinstance(st.value, ast.Call) and isinstance(st.value.func, ast.Attribute)
            and st.value.func.attr == "append" and isinstance(st.value.func.value, ast.Name)
            and st.value.func.value.id == target and len(st.value.args) == 1 and not st.value.keywords)


def _compile_schema(mod):
    fn = find_def(mod, "compile_schema", CLS)
    args = [a.arg for a in fn.args.args]
    need(args == ["self", "schema", "include_envelope"], f"compile_schema signature changed: {args}")
    need(len(fn.args.defaults) == 1 and const_eval(fn.args.defaults[0]) is False, "include_envelope default changed")
    holes = {"schema.name", "rule_name", "field_name", "pattern", "field_refs", "schema_name"} \
        | {f"self._escape_literal({n})" for n in ESC_WRAPPED} | {ONE_LINE_NAME}
    prog = []          # (guard, parts)
    info = {}

    def walk(stmts, guard):
        for st in stmts:
            if isinstance(st, ast.AnnAssign) and isinstance(st.target, ast.Name) and st.target.id in ("rules", "field_rule_names"):
                need(isinstance(st.value, ast.List) and not st.value.elts, "list initialiser changed")
                continue
            if _is_append(st, "rules"):
                prog.append((guard, _fstring_parts(st.value.args[0], holes)))
                continue
            if isinstance(st, ast.For):
                need(guard == "always" and not st.orelse, "unexpected for-loop position")
                need(ast.unparse(st.target) == "(field_name, field_def)" and ast.unparse(st.iter) == "schema.fields.items()",
                     "field loop header changed")
                n_app = 0
                for s2 in st.body:
                    if isinstance(s2, ast.Assign) and ast.unparse(s2.targets[0]) == "rule_name":
                        need(ast.unparse(s2.value) == "self._sanitize_rule_name(field_name)", "rule_name computation changed")
                    elif _is_append(s2, "field_rule_names"):
                        need(ast.unparse(s2.value.args[0]) == "rule_name", "field_rule_names.append changed")
                    elif isinstance(s2, ast.If):
                        need(ast.unparse(s2.test) == "field_def.pattern and field_def.pattern.constraints", "pattern guard changed")
                        need(len(s2.body) == 1 and ast.unparse(s2.body[0]) == "pattern = self.compile_chain(field_def.pattern.constraints)",
                             "pattern computation changed")
                        need(len(s2.orelse) == 1 and isinstance(s2.orelse[0], ast.Assign)
                             and ast.unparse(s2.orelse[0].targets[0]) == "pattern", "pattern default changed")
                        info["no_chain"] = const_eval(s2.orelse[0].value)
                    elif _is_append(s2, "rules"):
                        prog.append(("per_field", _fstring_parts(s2.value.args[0], holes)))
                        n_app += 1
                    else:
                        raise TranslateError(f"compile_schema loop: unexpected statement {ast.unparse(s2)[:60]}")
                need(n_app == 1, "compile_schema loop must append exactly one rule per field")
                continue
            if isinstance(st, ast.If):
                t = ast.unparse(st.test)
                need(guard == "always", "nested if in compile_schema")
                if t == "field_rule_names":
                    walk(st.body, "has_fields")
                    walk(st.orelse, "no_fields")
                elif t == "include_envelope":
                    walk(st.body, "envelope")
                    walk(st.orelse, "no_envelope")
                else:
                    raise TranslateError(f"compile_schema: unknown test {t}")
                continue
            if isinstance(st, ast.Assign) and ast.unparse(st.targets[0]) == "field_refs":
                v = st.value
                need(isinstance(v, ast.Call) and isinstance(v.func, ast.Attribute) and v.func.attr == "join"
                     and ast.unparse(v.args[0]) == "field_rule_names", "field_refs computation changed")
                info["refs_sep"] = const_eval(v.func.value)
                continue
            if isinstance(st, ast.Assign) and ast.unparse(st.targets[0]) == "schema_name":
                need(ast.unparse(st.value) == "schema.name.upper()", "schema_name computation changed")
                continue
            if isinstance(st, ast.Return):
                v = st.value
                need(isinstance(v, ast.Call) and isinstance(v.func, ast.Attribute) and v.func.attr == "join"
                     and ast.unparse(v.args[0]) == "rules", "compile_schema return changed")
                info["line_sep"] = const_eval(v.func.value)
                continue
            raise TranslateError(f"compile_schema: unexpected statement {ast.unparse(st)[:60]}")

    walk(_body(fn), "always")
    need({"no_chain", "refs_sep", "line_sep"} <= set(info), "compile_schema: missing pieces")
    return prog, info


def generate(src):
    mod = parse_file(src / "core" / "gbnf_compiler.py")
    out = [HEADER]

    def d_str(name, s):
        out.append(f"Definition {name} : list N := {coq_str(s)}.\n")

    # ---- _sanitize_rule_name ----
    fn = find_def(mod, "_sanitize_rule_name", CLS)
    b = _body(fn)
    need(ast.unparse(b[0]) == "result = field_name.lower()", "sanitize: first statement changed")
    chain = []
    i = 1
    while i < len(b) and isinstance(b[i], ast.Assign) and ast.unparse(b[i].targets[0]) == "result" \
            and isinstance(b[i].value, ast.Call) and getattr(b[i].value.func, "attr", "") == "replace":
        base, ch = replace_chain(b[i].value)
        need(base == "result" and len(ch) == 1, "sanitize: replace shape")
        chain.append(ch[0])
        i += 1
    need(len(chain) >= 1, "sanitize: replace chain not found")
    rest = "\n".join(ast.unparse(s) for s in b[i:])
    expected_rest = "\n".join([
        "sanitized = []",
        "for char in result:\n    if char.isascii() and (char.isalnum() or char == '_'):\n        sanitized.append(char)\n"
        "    elif not char.isascii():\n        sanitized.append(f'_u{ord(char):x}_')",
        "result = ''.join(sanitized)",
        "if result and result[0].isdigit():\n    result = 'r_' + result",
        "while '__' in result:\n    result = result.replace('__', '_')",
        "result = result.strip('_')",
        "return result or 'unnamed_field'",
    ])
    need(rest == expected_rest, "sanitize: body after the replace chain changed (model must be revisited):\n" + rest)
    out.append("(* _sanitize_rule_name: ordered .replace chain applied after .lower() *)\n")
    out.append("Definition gbnf_sanitize_chain : list (list N * list N) :=\n  "
               + coq_list([f"({coq_str(a)}, {coq_str(c)})" for a, c in chain]) + ".\n")
    d_str("gbnf_sanitize_uni_open", "_u")
    d_str("gbnf_sanitize_uni_close", "_")
    d_str("gbnf_sanitize_digit_prefix", "r_")
    d_str("gbnf_sanitize_default", "unnamed_field")
    d_str("gbnf_sanitize_rest_src", rest)

    # ---- _escape_literal ----
    fn = find_def(mod, "_escape_literal", CLS)
    b = _body(fn)
    esc = []
    need(len(b) == 3 and isinstance(b[2], ast.Return) and ast.unparse(b[2].value) == "result", "_escape_literal shape")
    base, ch = replace_chain(b[0].value)
    need(base == "value" and len(ch) == 1, "_escape_literal first replace")
    esc.append(ch[0])
    base, ch = replace_chain(b[1].value)
    need(base == "result" and len(ch) == 1, "_escape_literal second replace")
    esc.append(ch[0])
    out.append("Definition gbnf_escape_chain : list (list N * list N) :=\n  "
               + coq_list([f"({coq_str(a)}, {coq_str(c)})" for a, c in esc]) + ".\n")

    # ---- constant fragments ----
    for meth, name in (("_compile_required", "required"), ("_compile_optional", "optional"), ("_compile_dir", "dir"),
                       ("_compile_list", "list"), ("_compile_range", "range"), ("_compile_max_length", "max_length"),
                       ("_compile_date", "date")):
        d_str(f"gbnf_frag_{name}", _single_return_const(mod, meth))
    # _compile_min_length: if constraint.min_length >= K: return A ; return B
    fn = find_def(mod, "_compile_min_length", CLS)
    b = _body(fn)
    need(len(b) == 2 and isinstance(b[0], ast.If) and not b[0].orelse and isinstance(b[1], ast.Return), "_compile_min_length shape")
    t = b[0].test
    need(isinstance(t, ast.Compare) and ast.unparse(t.left) == "constraint.min_length" and isinstance(t.ops[0], ast.GtE),
         "_compile_min_length test")
    out.append(f"Definition gbnf_min_length_threshold : N := {int(const_eval(t.comparators[0]))}.\n")
    d_str("gbnf_frag_min_length_ge", const_eval(b[0].body[0].value))
    d_str("gbnf_frag_min_length_lt", const_eval(b[1].value))
    # _compile_iso8601: three string assignments + f-string return
    fn = find_def(mod, "_compile_iso8601", CLS)
    b = _body(fn)
    env = {}
    for st in b[:-1]:
        need(isinstance(st, ast.Assign) and isinstance(st.targets[0], ast.Name), "_compile_iso8601 shape")
        env[st.targets[0].id] = const_eval(st.value, env)
    need(isinstance(b[-1], ast.Return), "_compile_iso8601 return")
    d_str("gbnf_frag_iso8601", const_eval(b[-1].value, env))
    # _compile_type: dict + .get default
    fn = find_def(mod, "_compile_type", CLS)
    b = _body(fn)
    need(len(b) == 2 and isinstance(b[0], ast.Assign) and isinstance(b[0].value, ast.Dict) and isinstance(b[1], ast.Return),
         "_compile_type shape")
    tp = const_eval(b[0].value)
    r = b[1].value
    need(ast.unparse(r.func) == "type_patterns.get" and ast.unparse(r.args[0]) == "constraint.expected_type", "_compile_type return")
    out.append("Definition gbnf_type_patterns : list (list N * list N) :=\n  "
               + coq_list([f"({coq_str(a)}, {coq_str(c)})" for a, c in tp]) + ".\n")
    d_str("gbnf_type_default", const_eval(r.args[1]))
    # _compile_enum / _compile_const: quoting and joining
    fn = find_def(mod, "_compile_enum", CLS)
    b = _body(fn)
    need([ast.unparse(s) for s in b] == [
        "escaped = [self._escape_literal(v) for v in constraint.allowed_values]",
        "quoted = [f'\"{v}\"' for v in escaped]",
        "return f'({' | '.join(quoted)})'"], "_compile_enum body changed: " + repr([ast.unparse(s) for s in b]))
    d_str("gbnf_enum_open", "(")
    d_str("gbnf_enum_sep", " | ")
    d_str("gbnf_enum_close", ")")
    d_str("gbnf_quote", '"')
    fn = find_def(mod, "_compile_const", CLS)
    b = _body(fn)
    need([ast.unparse(s) for s in b] == [
        "value = str(constraint.const_value)", "escaped = self._escape_literal(value)", "return f'\"{escaped}\"'"],
        "_compile_const body changed")
    # _compile_regex
    fn = find_def(mod, "_compile_regex", CLS)
    b = _body(fn)
    src_rx = [ast.unparse(s) for s in b]
    expected_rx = [
        "pattern = constraint.pattern",
        "pattern = pattern.lstrip('^').rstrip('$')",
        None,  # unsupported list (extracted)
        "if any((u in pattern for u in unsupported)):\n    return '[^\\\\n]+'",
        "simple_char_class = re.match('^\\\\[([^\\\\]]+)\\\\]([+*?]?)$', pattern)",
        "if simple_char_class:\n    char_class = simple_char_class.group(1)\n    quantifier = simple_char_class.group(2) or '+'\n"
        "    return f'[{char_class}]{quantifier}'",
        "result = pattern.replace('.', '[^\\\\n]')",
        "if not result or result in ['+', '*', '?']:\n    return '[^\\\\n]+'",
        "return result",
    ]
    need(len(src_rx) == len(expected_rx), "_compile_regex: statement count changed")
    for got, exp in zip(src_rx, expected_rx):
        if exp is not None:
            need(got == exp, "_compile_regex statement changed (model must be revisited): " + got)
    need(isinstance(b[2], ast.Assign) and ast.unparse(b[2].targets[0]) == "unsupported", "_compile_regex: unsupported list")
    unsupported = const_eval(b[2].value)
    out.append(f"Definition gbnf_regex_unsupported : list (list N) := {coq_strlist(unsupported)}.\n")
    d_str("gbnf_regex_lstrip", "^")
    d_str("gbnf_regex_rstrip", "$")
    d_str("gbnf_regex_degrade", "[^\\n]+")
    d_str("gbnf_regex_simple_class_pattern", "^\\[([^\\]]+)\\]([+*?]?)$")
    d_str("gbnf_regex_default_quant", "+")
    out.append(f"Definition gbnf_regex_dot_replace : list N * list N := ({coq_str('.')}, {coq_str('[^' + chr(92) + 'n]')}).\n")
    out.append(f"Definition gbnf_regex_trivial : list (list N) := {coq_strlist(['+', '*', '?'])}.\n")
    # ---- compile_constraint dispatch ----
    fn = find_def(mod, "compile_constraint", CLS)
    b = _body(fn)
    need(len(b) == 1 and isinstance(b[0], ast.If), "compile_constraint shape")
    disp = []
    cur = b[0]
    while True:
        t = cur.test
        need(isinstance(t, ast.Call) and ast.unparse(t.func) == "isinstance" and ast.unparse(t.args[0]) == "constraint",
             "compile_constraint test")
        need(len(cur.body) == 1 and isinstance(cur.body[0], ast.Return), "compile_constraint branch")
        disp.append((ast.unparse(t.args[1]), ast.unparse(cur.body[0].value)))
        if len(cur.orelse) == 1 and isinstance(cur.orelse[0], ast.If):
            cur = cur.orelse[0]
        else:
            need(len(cur.orelse) == 1 and isinstance(cur.orelse[0], ast.Return), "compile_constraint else")
            d_str("gbnf_frag_unknown", const_eval(cur.orelse[0].value))
            break
    out.append("Definition gbnf_dispatch : list (list N * list N) :=\n  "
               + coq_list([f"({coq_str(a)}, {coq_str(c)})" for a, c in disp]) + ".\n")
    # ---- compile_chain ----
    fn = find_def(mod, "compile_chain", CLS)
    b = _body(fn)
    need(isinstance(b[0], ast.If) and ast.unparse(b[0].test) == "not chain.constraints", "compile_chain empty test")
    d_str("gbnf_chain_empty", const_eval(b[0].body[0].value))
    prio = []
    for st in b[1:-1]:
        need(isinstance(st, ast.For) and ast.unparse(st.iter) == "chain.constraints" and len(st.body) == 1
             and isinstance(st.body[0], ast.If), "compile_chain loop shape")
        t = st.body[0].test
        need(ast.unparse(t.func) == "isinstance" and ast.unparse(st.body[0].body[0]) == "return self.compile_constraint(constraint)",
             "compile_chain loop body")
        k = t.args[1]
        names = []
        if isinstance(k, ast.Name):
            names = [k.id]
        elif isinstance(k, ast.BinOp) and isinstance(k.op, ast.BitOr):
            def flat(e):
                if isinstance(e, ast.BinOp) and isinstance(e.op, ast.BitOr):
                    return flat(e.left) + flat(e.right)
                need(isinstance(e, ast.Name), "compile_chain class union")
                return [e.id]
            names = flat(k)
        else:
            raise TranslateError("compile_chain isinstance class")
        prio.append(names)
    need(ast.unparse(b[-1]) == "return self.compile_constraint(chain.constraints[0])", "compile_chain default changed")
    out.append("Definition gbnf_chain_priority : list (list (list N)) :=\n  "
               + coq_list([coq_strlist(g) for g in prio], "(list (list N))") + ".\n")
    # ---- compile_schema ----
    prog, info = _compile_schema(mod)
    out.append("Inductive gpart := PLit (s : list N) | PHole (h : list N).\n")
    d_str("gbnf_schema_no_chain", info["no_chain"])
    d_str("gbnf_schema_refs_sep", info["refs_sep"])
    d_str("gbnf_schema_line_sep", info["line_sep"])
    # does every occurrence of the name inside a template go through _escape_literal (and is there one)?
    for var in ESC_WRAPPED:
        raw = sum(1 for _, parts in prog for k, v in parts if k == "H" and v == var)
        wrapped = sum(1 for _, parts in prog for k, v in parts if k == "H" and v == f"self._escape_literal({var})")
        need(raw + wrapped >= 1, f"compile_schema: {var} is no longer written into any template")
        out.append(f"Definition gbnf_{var}_escaped : bool := {'true' if raw == 0 else 'false'}.\n")
    raw = sum(1 for _, parts in prog for k, v in parts if k == "H" and v == "schema.name")
    one = sum(1 for _, parts in prog for k, v in parts if k == "H" and v == ONE_LINE_NAME)
    need(raw + one >= 1, "compile_schema: schema.name is no longer written into any template")
    out.append(f"Definition gbnf_header_name_one_line : bool := {'true' if raw == 0 else 'false'}.\n")
    items = []
    for g, parts in prog:
        ps = coq_list([("PLit " if k == "L" else "PHole ") + coq_str(v) for k, v in parts], "gpart")
        items.append(f"({coq_str(g)}, {ps})")
    out.append("(* compile_schema: ordered (guard, line template); guards: always per_field has_fields no_fields envelope no_envelope *)\n")
    out.append("Definition gbnf_schema_prog : list (list N * list gpart) :=\n  " + coq_list(items) + ".\n")
    # ---- CONTRACT route ----
    from .tlib import module_assign
    d_str("gbnf_contract_field_pattern", const_eval(module_assign(mod, "_CONTRACT_FIELD_PATTERN")))
    fn = find_def(mod, "compile_gbnf_from_meta")
    srcm = ast.unparse(fn)
    need("compiler.compile_schema(schema, include_envelope=True)" in srcm, "compile_gbnf_from_meta: final call changed")
    need("schema_type = meta.get('TYPE', 'UNKNOWN')" in srcm, "compile_gbnf_from_meta: TYPE default changed")
    d_str("gbnf_contract_default_type", "UNKNOWN")
    # ---- which expression feeds SchemaDefinition.name, per route ----
    srcs = []
    e, guard_lit = _name_feed(fn, "schema_type", allow_nonstr_guard=True)
    need(ast.unparse(e) == "meta.get('TYPE', 'UNKNOWN')", "compile_gbnf_from_meta: the schema name is no longer meta.get('TYPE', 'UNKNOWN')")
    # repo 61337a1: a TYPE value that is not a str is replaced by a literal (before: it went into SchemaDefinition.name as is
    # and compile_schema raised on .splitlines() / .upper())
    out.append(f"Definition gbnf_meta_type_nonstring_is_unknown : bool := {'true' if guard_lit is not None else 'false'}.\n")
    d_str("gbnf_meta_type_nonstring_name", guard_lit if guard_lit is not None else "")
    srcs.append(("compile_gbnf_from_meta", ast.unparse(e) + ("" if guard_lit is None else f"; if not isinstance(schema_type, str): schema_type = {guard_lit!r}")))
    xmod = parse_file(src / "core" / "schema_extractor.py")
    xfn = find_def(xmod, "extract_schema_from_document")
    e = _name_feed(xfn, "name")
    need(isinstance(e, ast.IfExp) and ast.unparse(e.test) == "doc.name" and ast.unparse(e.body) == "doc.name"
         and isinstance(e.orelse, ast.Constant) and isinstance(e.orelse.value, str),
         "extract_schema_from_document: the schema name is no longer `doc.name if doc.name else <literal>`: " + ast.unparse(e)[:80])
    d_str("gbnf_docroute_default_name", e.orelse.value)
    srcs.append(("extract_schema_from_document", ast.unparse(e)))
    gmod = parse_file(src / "core" / "grammar.py")
    gfn = find_def(gmod, "emit_grammar_for_schema")
    need([a.arg for a in gfn.args.args] == ["schema_name"], "emit_grammar_for_schema signature changed")
    need([ast.unparse(x) for x in _body(gfn)] == ["schema = SchemaDefinition(name=schema_name, version='1.0')", "compiler = GBNFCompiler()",
                                                  "return compiler.compile_schema(schema, include_envelope=True)"],
         "emit_grammar_for_schema body changed")
    srcs.append(("emit_grammar_for_schema", "schema_name"))
    gfn = find_def(gmod, "compile_document_grammar")
    need([ast.unparse(x) for x in _body(gfn)] == ["return compile_gbnf_from_meta(meta)"], "compile_document_grammar body changed")
    # the parser's Document.name: envelope token or the placeholder
    pmod = parse_file(src / "core" / "parser.py")
    pfn = find_def(pmod, "parse_document", "Parser")
    stores = [n for n in ast.walk(pfn) if isinstance(n, ast.Assign) and any(ast.unparse(t) == "doc.name" for t in n.targets)]
    need(sorted(ast.unparse(n.value) for n in stores) == ["'INFERRED'", "token.value"] and not _other_name_stores(pfn, "doc"),
         "Parser.parse_document: Document.name is no longer the envelope token value / the placeholder")
    ifs = [n for n in pfn.body if isinstance(n, ast.If) and ast.unparse(n.test) == "self.current().type == TokenType.ENVELOPE_START"]
    need(len(ifs) == 1 and [ast.unparse(x) for x in ifs[0].body[:2]] == ["token = self.advance()", "doc.name = token.value"]
         and [ast.unparse(x) for x in ifs[0].orelse] == ["doc.name = 'INFERRED'"], "Parser.parse_document: envelope branch changed")
    d_str("gbnf_parser_inferred_name", "INFERRED")
    amod = parse_file(src / "core" / "ast_nodes.py")
    dcls = [n for n in amod.body if isinstance(n, ast.ClassDef) and n.name == "Document"]
    need(len(dcls) == 1 and any(isinstance(n, ast.AnnAssign) and ast.unparse(n.target) == "name" and n.value is not None
                                and const_eval(n.value) == "INFERRED" for n in dcls[0].body), "Document.name default changed")
    # tool dispatch: META.CONTRACT present -> compile_gbnf_from_meta(doc.meta); else extract_schema_from_document(doc)
    for rel, cls_, meth in (("mcp/compile_grammar.py", "CompileGrammarTool", "execute"), ("mcp/eject.py", "EjectTool", "execute")):
        tmod = parse_file(src / rel)
        tsrc = ast.unparse(find_def(tmod, meth, cls_))
        need("if doc.meta and 'CONTRACT' in doc.meta:" in tsrc and "compile_gbnf_from_meta(doc.meta)" in tsrc
             and "extract_schema_from_document(doc)" in tsrc and "include_envelope=True)" in tsrc,
             f"{rel}: grammar route dispatch changed")
    out.append("(* per route: the expression that feeds SchemaDefinition.name *)\n")
    out.append("Definition gbnf_name_sources : list (list N * list N) :=\n  "
               + coq_list([f"({coq_str(a)}, {coq_str(c)})" for a, c in srcs]) + ".\n")
    return {"GbnfGen.v": "".join(out)}
