"""write.py / validate.py / file_ops.py / loader.py / hydrator.py / cli/main.py -> Gen/PathsGen.v   (C19)

Extracted (fail closed -- any shape not recognised raises TranslateError):
  * per path validator (WriteTool._validate_path, ValidateTool._validate_path, file_ops.validate_octave_path):
    the ORDER of its checks as (kind, test source text), kind 1 = '..' component, 2 = symlink walk,
    3 = extension; the inner link test of the symlink walk -- its text AND the boolean the model consumes
    (`paths_symlink_requires_exists_<who>`: true for `current.exists() and current.is_symlink()`, false for
    `current.is_symlink()`; any other test raises) -- ; the carve-out constants (depth bound, prefix);
    the message prefix returned by each refusal (used by the harness to name the refusing check);
  * the three ALLOWED_EXTENSIONS sets (sorted);
  * the error code attached to a refused path at each call site (E_PATH);
  * per entry point (WriteTool.execute, ValidateTool.execute, atomic_write_octave, cli write) the ordered list
    of file-system call sites, classified 0 validate / 1 metadata (stat family) / 2 read / 3 mutate, and the
    fact that the validate call is immediately followed by `if not ok: return/raise`;
  * the late symlink re-check (test text + `paths_late_requires_exists_<who>`) of the write block and of
    atomic_write_octave (exactly one `if` mentioning path_obj.is_symlink() per function);
  * SCHEMA_NAME_PATTERN text, the file-name templates and join expression of load_schema_by_name, the
    search-path expressions of get_schema_search_paths in order;
  * resolve_hermetic_standard: prefix literal, regex text, digest prefix length, file suffix, lower();
  * validate_source_uri: the ordered statement skeleton; its resolution step as a mode the model consumes
    (`paths_uri_resolution`: 0 resolve() alone, 1 + os.path.realpath of the result, 2 the helper `_resolve_without_links`)
    and `paths_uri_catches_runtime`; for mode 2 the helper's body is required verbatim: the two-step resolution, a loop over
    `(resolved, *resolved.parents)` raising OSError on `part.is_symlink()`, `return resolved`;
  * _check_single_snapshot (check_staleness): the same for ITS resolution step (`paths_stale_resolution`,
    `paths_stale_catches_runtime`), the order absolute-path refusal < resolution < `source_path.relative_to(effective_root)`
    < compute_vocabulary_hash, and that neither function contains another resolution call.
"""
import ast

from .tlib import (HEADER, TranslateError, coq_list, coq_str, coq_strlist, const_eval, find_def, module_assign, need,
                   parse_file)

OUTPUTS = ["PathsGen.v"]

K_DOTDOT, K_SYMLINK, K_EXT = 1, 2, 3
OP_VALIDATE, OP_META, OP_READ, OP_MUTATE = 0, 1, 2, 3

# call classification for the protocol lists: dotted name or .attr
CALLS = {
    "self._validate_path": OP_VALIDATE, "validate_octave_path": OP_VALIDATE,
    ".exists": OP_META, ".is_symlink": OP_META, ".is_dir": OP_META, ".is_file": OP_META, "os.stat": OP_META,
    "os.lstat": OP_META, "os.path.exists": OP_META, ".stat": OP_META,
    "open": OP_READ, ".read_text": OP_READ, ".read": OP_READ,
    ".mkdir": OP_MUTATE, "tempfile.mkstemp": OP_MUTATE, "os.fdopen": OP_MUTATE, "os.fchmod": OP_MUTATE,
    "os.fsync": OP_MUTATE, "os.replace": OP_MUTATE, "os.unlink": OP_MUTATE, ".write": OP_MUTATE,
    ".flush": OP_MUTATE, ".write_text": OP_MUTATE, "atomic_write_octave": OP_MUTATE, "load_schema": OP_READ,
    "load_schema_by_name": OP_READ, "resolve_hermetic_standard": OP_READ, "sys.stdin.read": None,
    "f.fileno": None,
}
FS_MODULES = ("os.", "tempfile.", "shutil.", "pathlib.", "io.", "glob.")

# The two shapes of "is this component a symbolic link" the model knows, per receiver name, with the fact the
# model CONSUMES: does the test first require `exists()` (stat, follows the link -> a dangling / ENOTDIR / >40-chain
# link is not seen) or is it the lstat-based `is_symlink()` alone.  Any other test text fails closed.
# resolution step of validate_source_uri / _check_single_snapshot: Path.resolve() alone (stops at a symlink loop and returns
# the remaining components unresolved), or followed by os.path.realpath of the result; and which exceptions count as refusal
# mode 0: Path.resolve() alone;  1: followed by os.path.realpath of the result (repo fix ea316ac);
# 2: the helper _resolve_without_links (repo fix 3bf4eb7): realpath(resolve()) and then NO prefix of the result may be a link
URI_RESOLVE_SHAPES = {
    ("resolved = candidate.resolve()",): 0,
    ("resolved = candidate.resolve()", "resolved = Path(os.path.realpath(resolved))"): 1,
    ("resolved = _resolve_without_links(candidate)",): 2,
}
STALE_RESOLVE_SHAPES = {
    ("candidate = base_path / source_uri", "source_path = candidate.resolve()"): 0,
    ("candidate = base_path / source_uri", "source_path = candidate.resolve()", "source_path = Path(os.path.realpath(source_path))"): 1,
    ("candidate = base_path / source_uri", "source_path = _resolve_without_links(candidate)"): 2,
}


def check_link_free_helper(hmod):
    """_resolve_without_links must be exactly: two-step resolution, then a loop over the result AND all its parents that raises
    OSError as soon as one of them is a symbolic link, then return."""
    fn = find_def(hmod, "_resolve_without_links")
    need([a.arg for a in fn.args.args] == ["candidate"], "_resolve_without_links: parameters")
    body = _doc_skip(fn.body)
    need(len(body) == 3, "_resolve_without_links: body length")
    need(ast.unparse(body[0]) == "resolved = Path(os.path.realpath(candidate.resolve()))", "_resolve_without_links: resolution statement")
    loop = body[1]
    need(isinstance(loop, ast.For) and ast.unparse(loop.target) == "part" and ast.unparse(loop.iter) == "(resolved, *resolved.parents)"
         and not loop.orelse and len(loop.body) == 1, "_resolve_without_links: loop must cover resolved and all its parents")
    iff = loop.body[0]
    need(isinstance(iff, ast.If) and ast.unparse(iff.test) == "part.is_symlink()" and not iff.orelse and len(iff.body) == 1
         and isinstance(iff.body[0], ast.Raise) and isinstance(iff.body[0].exc, ast.Call)
         and ast.unparse(iff.body[0].exc.func) == "OSError", "_resolve_without_links: a link must raise OSError")
    need(ast.unparse(body[2]) == "return resolved", "_resolve_without_links: return")
EXC_SHAPES = {"(OSError, ValueError)": False, "(OSError, ValueError, RuntimeError)": True}

LINK_TESTS = {
    recv: {f"{recv}.is_symlink()": False, f"{recv}.exists() and {recv}.is_symlink()": True}
    for recv in ("current", "path_obj")
}


def _doc_skip(body):
    if body and isinstance(body[0], ast.Expr) and isinstance(body[0].value, ast.Constant) and isinstance(body[0].value.value, str):
        return body[1:]
    return body


def _msg_prefix(ret: ast.Return):
    """`return False, "text"` or f-string -> literal prefix of the message."""
    need(isinstance(ret.value, ast.Tuple) and len(ret.value.elts) == 2, "refusal is not `return False, msg`")
    flag, msg = ret.value.elts
    need(isinstance(flag, ast.Constant) and flag.value is False, "refusal does not return False")
    if isinstance(msg, ast.Constant) and isinstance(msg.value, str):
        return msg.value
    if isinstance(msg, ast.JoinedStr):
        need(isinstance(msg.values[0], ast.Constant), "f-string message without literal prefix")
        return msg.values[0].value
    raise TranslateError("refusal message is neither literal nor f-string")


def _only_return_false(handler_body):
    need(len(handler_body) == 1 and isinstance(handler_body[0], ast.Return), "except body is not a single return")
    return _msg_prefix(handler_body[0])


def _is_dotdot_try(st):
    if not isinstance(st, ast.Try) or len(st.body) != 1 or not isinstance(st.body[0], ast.If):
        return None
    iff = st.body[0]
    t = ast.unparse(iff.test)
    if t != "any((part == '..' for part in path.parts))":
        return None
    need(not iff.orelse and len(iff.body) == 1 and isinstance(iff.body[0], ast.Return), "dotdot: body shape")
    need(len(st.handlers) == 1 and ast.unparse(st.handlers[0].type) == "Exception" and not st.orelse and not st.finalbody,
         "dotdot: handler shape")
    return {"kind": K_DOTDOT, "test": t, "msg": _msg_prefix(iff.body[0]), "exc_msg": _only_return_false(st.handlers[0].body)}


def _is_symlink_try(st):
    if not isinstance(st, ast.Try) or len(st.body) != 3:
        return None
    a, b, c = st.body
    if not (isinstance(a, ast.Assign) and ast.unparse(a) == "absolute = path.absolute()"):
        return None
    need(isinstance(b, ast.Assign) and ast.unparse(b) == "resolved = absolute.resolve(strict=False)", "symlink: resolve statement")
    need(isinstance(c, ast.If) and ast.unparse(c.test) == "absolute != resolved" and not c.orelse, "symlink: comparison")
    need(len(c.body) == 2 and ast.unparse(c.body[0]) == "current = Path('/')", "symlink: walk start")
    loop = c.body[1]
    need(isinstance(loop, ast.For) and ast.unparse(loop.target) == "part" and ast.unparse(loop.iter) == "absolute.parts[1:]"
         and not loop.orelse, "symlink: loop header")
    need(len(loop.body) == 2 and ast.unparse(loop.body[0]) == "current = current / part", "symlink: loop step")
    inner = loop.body[1]
    need(isinstance(inner, ast.If) and not inner.orelse, "symlink: inner if")
    inner_test = ast.unparse(inner.test)
    need(inner_test in LINK_TESTS["current"], f"symlink: inner test is {inner_test}")
    need(len(inner.body) == 4, "symlink: inner body length")
    need(ast.unparse(inner.body[0]) == "symlink_depth = len(Path(current).parts)", "symlink: depth")
    need(ast.unparse(inner.body[1]) == "resolved_target = current.resolve()", "symlink: resolved_target")
    carve = inner.body[2]
    need(isinstance(carve, ast.If) and not carve.orelse and len(carve.body) == 1 and isinstance(carve.body[0], ast.Continue),
         "symlink: carve-out shape")
    ct = carve.test
    need(isinstance(ct, ast.BoolOp) and isinstance(ct.op, ast.And) and len(ct.values) == 2, "symlink: carve-out test")
    l, r = ct.values
    need(isinstance(l, ast.Compare) and ast.unparse(l.left) == "symlink_depth" and isinstance(l.ops[0], ast.LtE)
         and isinstance(l.comparators[0], ast.Constant), "symlink: depth bound")
    need(isinstance(r, ast.Call) and ast.unparse(r.func) == "str(resolved_target).startswith" and len(r.args) == 1
         and isinstance(r.args[0], ast.Constant), "symlink: prefix test")
    need(isinstance(inner.body[3], ast.Return), "symlink: refusal")
    need(len(st.handlers) == 1 and ast.unparse(st.handlers[0].type) == "Exception" and not st.orelse and not st.finalbody,
         "symlink: handler shape")
    return {"kind": K_SYMLINK, "test": "absolute != resolved", "inner_test": inner_test,
            "requires_exists": LINK_TESTS["current"][inner_test], "carve_test": ast.unparse(ct),
            "depth": l.comparators[0].value, "prefix": r.args[0].value, "msg": _msg_prefix(inner.body[3]),
            "exc_msg": _only_return_false(st.handlers[0].body)}


def _is_ext_if(st, allowed_name):
    if not isinstance(st, ast.If):
        return None
    t = ast.unparse(st.test)
    if t != f"path.suffix not in {allowed_name}":
        return None
    need(not st.orelse and len(st.body) == 2, "ext: body shape")
    need(ast.unparse(st.body[0]) ==
         "compound_suffix = ''.join(path.suffixes[-2:]) if len(path.suffixes) >= 2 else path.suffix", "ext: compound suffix")
    inner = st.body[1]
    need(isinstance(inner, ast.If) and ast.unparse(inner.test) == f"compound_suffix not in {allowed_name}"
         and not inner.orelse and isinstance(inner.body[-1], ast.Return), "ext: inner if")
    return {"kind": K_EXT, "test": t, "msg": _msg_prefix(inner.body[-1]), "exc_msg": ""}


def validator_checks(fn, allowed_name):
    body = _doc_skip(fn.body)
    need(ast.unparse(body[0]) == "path = Path(target_path)", f"{fn.name}: first statement")
    checks = []
    for st in body[1:-1]:
        c = _is_dotdot_try(st) or _is_symlink_try(st) or _is_ext_if(st, allowed_name)
        need(c is not None, f"{fn.name}: unrecognised statement at line {st.lineno}: {ast.unparse(st)[:60]}")
        checks.append(c)
    need(ast.unparse(body[-1]) == "return (True, None)", f"{fn.name}: final return")
    need(sorted(c["kind"] for c in checks) == [1, 2, 3], f"{fn.name}: expected exactly one check of each kind")
    return checks


def _callname(c: ast.Call):
    f = c.func
    try:
        full = ast.unparse(f)
    except Exception:
        full = ""
    if full in CALLS:
        return full
    if isinstance(f, ast.Attribute) and "." + f.attr in CALLS:
        return "." + f.attr
    if full == "open":
        return "open"
    return full


def protocol(fn, stop_at_nested=True):
    """Ordered (line, col) list of classified file-system call sites of a function."""
    sites = []
    for n in ast.walk(fn):
        if isinstance(n, ast.Call):
            name = _callname(n)
            if name in CALLS:
                if CALLS[name] is not None:
                    sites.append((n.lineno, n.col_offset, name, CALLS[name]))
            else:
                need(not name.startswith(FS_MODULES), f"{fn.name}: unclassified file-system call {name} at line {n.lineno}")
    sites.sort()
    return sites


def guard_after_validate(fn, call_text):
    """The validate call is `ok, err = <call>(x)` directly followed by `if not ok: return|raise`."""
    for parent in ast.walk(fn):
        for fld in ("body", "orelse", "finalbody"):
            stmts = getattr(parent, fld, None)
            if not isinstance(stmts, list):
                continue
            for i, st in enumerate(stmts):
                if isinstance(st, ast.Assign) and isinstance(st.value, ast.Call) and ast.unparse(st.value.func) == call_text:
                    need(isinstance(st.targets[0], ast.Tuple) and len(st.targets[0].elts) == 2, "validate result not unpacked")
                    okname = ast.unparse(st.targets[0].elts[0])
                    need(i + 1 < len(stmts), "validate call is the last statement")
                    nx = stmts[i + 1]
                    need(isinstance(nx, ast.If) and ast.unparse(nx.test) == f"not {okname}" and not nx.orelse,
                         f"{fn.name}: validate call not followed by `if not {okname}`")
                    need(isinstance(nx.body[-1], (ast.Return, ast.Raise)), f"{fn.name}: refusal branch does not leave the function")
                    codes = [x.value for x in ast.walk(nx) if isinstance(x, ast.Constant) and isinstance(x.value, str)
                             and x.value.startswith("E_")]
                    return st.lineno, codes
    raise TranslateError(f"{fn.name}: call of {call_text} not found")


def late_recheck(fn):
    """`if <link test on path_obj>: return <error>` -> (line, test text, codes, requires_exists).

    Exactly one `if` of the function may mention `path_obj.is_symlink()` and its test must be one of LINK_TESTS."""
    hits = [n for n in ast.walk(fn) if isinstance(n, ast.If) and "path_obj.is_symlink()" in ast.unparse(n.test)]
    need(len(hits) == 1, f"{fn.name}: expected exactly one late symlink re-check, found {len(hits)}")
    n = hits[0]
    t = ast.unparse(n.test)
    need(t in LINK_TESTS["path_obj"], f"{fn.name}: late re-check test is {t}")
    need(not n.orelse and isinstance(n.body[-1], ast.Return), "late re-check does not return")
    codes = [x.value for x in ast.walk(n) if isinstance(x, ast.Constant) and isinstance(x.value, str) and x.value.startswith("E_")]
    return n.lineno, t, codes, LINK_TESTS["path_obj"][t]


def extract(src):
    out = {}
    wmod = parse_file(src / "mcp" / "write.py")
    vmod = parse_file(src / "mcp" / "validate.py")
    fmod = parse_file(src / "core" / "file_ops.py")
    lmod = parse_file(src / "schemas" / "loader.py")
    hmod = parse_file(src / "core" / "hydrator.py")
    cmod = parse_file(src / "cli" / "main.py")

    def class_assign(mod, cls, name):
        cs = [n for n in mod.body if isinstance(n, ast.ClassDef) and n.name == cls]
        need(len(cs) == 1, f"class {cls}")
        vals = [n.value for n in cs[0].body if isinstance(n, ast.Assign) and ast.unparse(n.targets[0]) == name]
        need(len(vals) == 1, f"{cls}.{name} not assigned exactly once")
        return vals[0]

    out["allowed"] = {
        "write": sorted(const_eval(class_assign(wmod, "WriteTool", "ALLOWED_EXTENSIONS"))),
        "validate": sorted(const_eval(class_assign(vmod, "ValidateTool", "ALLOWED_EXTENSIONS"))),
        "fileops": sorted(const_eval(module_assign(fmod, "ALLOWED_EXTENSIONS"))),
    }
    for v in out["allowed"].values():
        need(all(isinstance(x, str) for x in v), "ALLOWED_EXTENSIONS is not a set of strings")
    out["checks"] = {
        "write": validator_checks(find_def(wmod, "_validate_path", "WriteTool"), "self.ALLOWED_EXTENSIONS"),
        "validate": validator_checks(find_def(vmod, "_validate_path", "ValidateTool"), "self.ALLOWED_EXTENSIONS"),
        "fileops": validator_checks(find_def(fmod, "validate_octave_path"), "ALLOWED_EXTENSIONS"),
    }
    wexec = find_def(wmod, "execute", "WriteTool")
    vexec = find_def(vmod, "execute", "ValidateTool")
    awo = find_def(fmod, "atomic_write_octave")
    cliw = find_def(cmod, "write")
    out["protocol"] = {"write": protocol(wexec), "validate": protocol(vexec), "fileops": protocol(awo), "cli": protocol(cliw)}
    out["guard"] = {
        "write": guard_after_validate(wexec, "self._validate_path"),
        "validate": guard_after_validate(vexec, "self._validate_path"),
        "fileops": guard_after_validate(awo, "validate_octave_path"),
        "cli": guard_after_validate(cliw, "validate_octave_path"),
    }
    need(out["guard"]["write"][1] == ["E_PATH"] and out["guard"]["validate"][1] == ["E_PATH"], "refusal code is not E_PATH")
    out["late"] = {"write": late_recheck(wexec), "fileops": late_recheck(awo)}
    need(out["late"]["write"][2] == ["E_WRITE"], "late re-check code is not E_WRITE")
    # the late re-check precedes every mutating call except mkdir (write.py) / every mutating call (file_ops)
    # ---- schema names ----
    out["schema_pattern"] = const_eval(module_assign(lmod, "SCHEMA_NAME_PATTERN"))
    need(isinstance(out["schema_pattern"], str), "SCHEMA_NAME_PATTERN")
    lbn = find_def(lmod, "load_schema_by_name")
    body = _doc_skip(lbn.body)
    need(ast.unparse(body[0]) == "if not SCHEMA_NAME_PATTERN.match(schema_name):\n    return None", "load_schema_by_name: name guard is not first")
    need(ast.unparse(body[1]) == "search_paths = get_schema_search_paths()", "load_schema_by_name: search paths")
    pats = body[2]
    need(isinstance(pats, ast.Assign) and ast.unparse(pats.targets[0]) == "patterns" and isinstance(pats.value, ast.List), "patterns list")
    templates = []
    for e in pats.value.elts:
        need(isinstance(e, ast.JoinedStr) and len(e.values) == 2 and isinstance(e.values[0], ast.FormattedValue)
             and isinstance(e.values[1], ast.Constant), "file-name template shape")
        expr = ast.unparse(e.values[0].value)
        need(expr in ("schema_name.lower()", "schema_name"), f"template expression {expr}")
        templates.append((expr == "schema_name.lower()", e.values[1].value))
    out["schema_templates"] = templates
    loop = body[3]
    need(isinstance(loop, ast.For) and ast.unparse(loop.iter) == "search_paths" and isinstance(loop.body[0], ast.For), "search loop")
    inner = loop.body[0]
    need(ast.unparse(inner.body[0]) == "schema_file = search_path / pattern", "join expression")
    out["schema_join"] = "search_path / pattern"
    need(ast.unparse(inner.body[1]) == "if schema_file.exists():\n    return load_schema(schema_file)", "load on exists")
    gsp = find_def(lmod, "get_schema_search_paths")
    order = []
    assigns = {}
    for st in _doc_skip(gsp.body):
        if isinstance(st, ast.Assign) and len(st.targets) == 1 and isinstance(st.targets[0], ast.Name):
            assigns[st.targets[0].id] = ast.unparse(st.value)
        elif isinstance(st, ast.AnnAssign):
            need(ast.unparse(st.value) == "[]", "paths initial value")
        elif isinstance(st, ast.If):
            need(len(st.body) == 1 and ast.unparse(st.body[0]).startswith("paths.append("), "search path append")
            nm = ast.unparse(st.body[0].value.args[0])
            need(ast.unparse(st.test) == f"{nm}.exists()" and nm in assigns, "search path guard")
            order.append(assigns[nm])
        elif isinstance(st, ast.Return):
            need(ast.unparse(st.value) == "paths", "search paths return")
        else:
            raise TranslateError("get_schema_search_paths: unexpected statement")
    out["search_paths"] = order
    # ---- frozen refs ----
    rhs = find_def(hmod, "resolve_hermetic_standard")
    fro = None
    for n in ast.walk(rhs):
        if isinstance(n, ast.If) and isinstance(n.test, ast.Call) and ast.unparse(n.test.func) == "standard_ref.startswith":
            fro = n
    need(fro is not None, "frozen branch not found")
    out["frozen_prefix"] = const_eval(fro.test.args[0])
    b = fro.body
    need(isinstance(b[0], ast.Assign) and ast.unparse(b[0].value.func) == "re.fullmatch" and ast.unparse(b[0].value.args[1]) == "standard_ref",
         "frozen: fullmatch")
    out["frozen_regex"] = const_eval(b[0].value.args[0])
    need(ast.unparse(b[1].test) == "m is None" and isinstance(b[1].body[-1], ast.Raise), "frozen: refusal on no match")
    need(ast.unparse(b[2]) == "digest = m.group(1).lower()", "frozen: digest")
    need(ast.unparse(b[3]) == "expected_hash = f'sha256:{digest}'", "frozen: expected hash")
    cp = b[4]
    need(isinstance(cp, ast.Assign) and ast.unparse(cp.targets[0]) == "cached_path", "frozen: cached_path")
    v = cp.value
    need(isinstance(v, ast.BinOp) and isinstance(v.op, ast.Div) and ast.unparse(v.left) == "cache_dir" and isinstance(v.right, ast.JoinedStr)
         and len(v.right.values) == 2, "frozen: cached path expression")
    sl = v.right.values[0].value
    need(isinstance(sl, ast.Subscript) and ast.unparse(sl.value) == "digest" and isinstance(sl.slice, ast.Slice) and sl.slice.lower is None
         and isinstance(sl.slice.upper, ast.Constant), "frozen: digest slice")
    out["frozen_len"] = sl.slice.upper.value
    out["frozen_suffix"] = v.right.values[1].value
    need(ast.unparse(b[5].test) == "not cached_path.exists()" and isinstance(b[5].body[-1], ast.Raise), "frozen: exists guard")
    need(ast.unparse(b[6]) == "actual_hash = compute_vocabulary_hash(cached_path)", "frozen: hash computation")
    need(ast.unparse(b[7].test) == "actual_hash != expected_hash" and isinstance(b[7].body[-1], ast.Raise), "frozen: hash guard")
    need(ast.unparse(b[8]) == "return cached_path", "frozen: return")
    cvh = find_def(hmod, "compute_vocabulary_hash")
    need(ast.unparse(cvh.body[-1]) == "return f'sha256:{hasher.hexdigest()}'", "compute_vocabulary_hash: result format")
    # ---- source uri ----
    vsu = find_def(hmod, "validate_source_uri")
    sk = []
    for st in _doc_skip(vsu.body):
        if isinstance(st, ast.Assign):
            sk.append(ast.unparse(st))
        elif isinstance(st, ast.If):
            need(isinstance(st.body[-1], ast.Raise), "source uri: if without raise")
            sk.append("if " + ast.unparse(st.test) + ": raise")
        elif isinstance(st, ast.Try):
            body = [ast.unparse(b) for b in st.body]
            hs = ",".join(ast.unparse(h.type) for h in st.handlers)
            need(all(isinstance(h.body[-1], ast.Raise) for h in st.handlers) and not st.orelse and not st.finalbody,
                 "source uri: handler does not raise")
            if body and body[0].startswith("resolved = "):
                # the resolution step: resolve() alone, or resolve() followed by os.path.realpath of its result
                need(tuple(body) in URI_RESOLVE_SHAPES, f"source uri: resolution step is {body}")
                need(hs in EXC_SHAPES, f"source uri: resolution handler catches {hs}")
                need("uri_resolution" not in out, "source uri: two resolution steps")
                out["uri_resolution"] = URI_RESOLVE_SHAPES[tuple(body)]
                out["uri_catches_runtime"] = EXC_SHAPES[hs]
            else:
                need(len(st.body) == 1, "source uri: try body")
            sk.append("try " + "; ".join(body) + " except " + hs + ": raise")
        elif isinstance(st, ast.Return):
            sk.append("return " + ast.unparse(st.value))
        else:
            raise TranslateError("validate_source_uri: unexpected statement")
    out["uri_skeleton"] = sk
    need("uri_resolution" in out, "source uri: resolution step not found")
    # ---- check_staleness: _check_single_snapshot has its OWN resolution + containment ----
    css = find_def(hmod, "_check_single_snapshot")
    hits = [n for n in ast.walk(css) if isinstance(n, ast.Try) and any(ast.unparse(b).startswith("source_path = ") for b in n.body)]
    need(len(hits) == 1, f"_check_single_snapshot: expected one resolution step, found {len(hits)}")
    t = hits[0]
    body = tuple(ast.unparse(b) for b in t.body)
    need(body in STALE_RESOLVE_SHAPES, f"_check_single_snapshot: resolution step is {list(body)}")
    hs = ",".join(ast.unparse(h.type) for h in t.handlers)
    need(hs in EXC_SHAPES and all(isinstance(h.body[-1], ast.Return) for h in t.handlers) and not t.orelse and not t.finalbody,
         f"_check_single_snapshot: resolution handler {hs}")
    out["stale_resolution"] = STALE_RESOLVE_SHAPES[body]
    out["stale_catches_runtime"] = EXC_SHAPES[hs]
    if 2 in (out["uri_resolution"], out["stale_resolution"]):
        check_link_free_helper(hmod)
    # no other resolution of a source path may hide in these two functions
    for fn_ in (vsu, css):
        n_res = sum(1 for n in ast.walk(fn_) if isinstance(n, ast.Call) and ast.unparse(n.func) in
                    ("candidate.resolve", "os.path.realpath", "_resolve_without_links", "source_path.resolve", "resolved.resolve"))
        need(n_res == {0: 1, 1: 2, 2: 1}[out["uri_resolution"] if fn_ is vsu else out["stale_resolution"]],
             f"{fn_.name}: unexpected number of resolution calls ({n_res})")
    texts = [ast.unparse(n) for n in ast.walk(css) if isinstance(n, (ast.Assign, ast.Expr, ast.If))]
    need("effective_root = (allowed_root or base_path).resolve()" in texts, "_check_single_snapshot: effective_root")
    cont = [n for n in ast.walk(css) if isinstance(n, ast.Try) and [ast.unparse(b) for b in n.body] == ["source_path.relative_to(effective_root)"]]
    need(len(cont) == 1 and [ast.unparse(h.type) for h in cont[0].handlers] == ["ValueError"]
         and isinstance(cont[0].handlers[0].body[-1], ast.Return), "_check_single_snapshot: containment check")
    absif = [n for n in css.body if isinstance(n, ast.If) and ast.unparse(n.test) ==
             "source_uri.startswith('/') or (len(source_uri) > 1 and source_uri[1] == ':')"]
    need(len(absif) == 1 and isinstance(absif[0].body[-1], ast.Return), "_check_single_snapshot: absolute-path refusal")
    # order: absolute refusal < resolution < containment < exists/hash
    need(absif[0].lineno < t.lineno < cont[0].lineno, "_check_single_snapshot: order of the checks")
    hashcalls = [n for n in ast.walk(css) if isinstance(n, ast.Call) and ast.unparse(n.func) == "compute_vocabulary_hash"]
    need(len(hashcalls) == 1 and hashcalls[0].lineno > cont[0].lineno, "_check_single_snapshot: hash before containment")
    return out


def generate(src):
    x = extract(src)
    o = [HEADER]
    for who in ("write", "validate", "fileops"):
        o.append(f"Definition paths_allowed_{who} : list (list N) := {coq_strlist(x['allowed'][who])}.\n")
        items = [f"({c['kind']}, {coq_str(c['test'])})" for c in x["checks"][who]]
        o.append(f"(* {who}: checks in source order (kind 1 '..', 2 symlink walk, 3 extension; test text) *)\n")
        o.append(f"Definition paths_checks_{who} : list (N * list N) :=\n  {coq_list(items)}.\n")
        sc = [c for c in x["checks"][who] if c["kind"] == K_SYMLINK][0]
        o.append(f"Definition paths_symlink_inner_{who} : list N := {coq_str(sc['inner_test'])}.\n")
        o.append("(* the walk's link test first requires exists() (stat)?  false = lstat-based is_symlink() alone *)\n")
        o.append(f"Definition paths_symlink_requires_exists_{who} : bool := {'true' if sc['requires_exists'] else 'false'}.\n")
        o.append(f"Definition paths_carve_test_{who} : list N := {coq_str(sc['carve_test'])}.\n")
        o.append(f"Definition paths_carve_depth_{who} : N := {sc['depth']}.\n")
        o.append(f"Definition paths_carve_prefix_{who} : list N := {coq_str(sc['prefix'])}.\n")
    for who in ("write", "validate", "fileops", "cli"):
        ops = [f"({cls}, {coq_str(name)})" for (_, _, name, cls) in x["protocol"][who]]
        o.append(f"(* {who}: file-system call sites in source order (class 0 validate, 1 metadata, 2 read, 3 mutate; callee) *)\n")
        o.append(f"Definition paths_protocol_{who} : list (N * list N) :=\n  {coq_list(ops)}.\n")
    o.append(f"Definition paths_refusal_code : list N := {coq_str(x['guard']['write'][1][0])}.\n")
    for who in ("write", "fileops"):
        o.append(f"Definition paths_late_recheck_{who} : list N := {coq_str(x['late'][who][1])}.\n")
        o.append(f"Definition paths_late_requires_exists_{who} : bool := {'true' if x['late'][who][3] else 'false'}.\n")
    o.append(f"Definition paths_schema_name_pattern : list N := {coq_str(x['schema_pattern'])}.\n")
    tm = [f"({'true' if low else 'false'}, {coq_str(suf)})" for low, suf in x["schema_templates"]]
    o.append("(* load_schema_by_name: file-name templates (lower-cased name?, literal suffix) *)\n")
    o.append(f"Definition paths_schema_templates : list (bool * list N) :=\n  {coq_list(tm)}.\n")
    o.append(f"Definition paths_schema_join : list N := {coq_str(x['schema_join'])}.\n")
    o.append(f"Definition paths_schema_search_paths : list (list N) :=\n  {coq_strlist(x['search_paths'])}.\n")
    o.append(f"Definition paths_frozen_prefix : list N := {coq_str(x['frozen_prefix'])}.\n")
    o.append(f"Definition paths_frozen_regex : list N := {coq_str(x['frozen_regex'])}.\n")
    o.append(f"Definition paths_frozen_len : N := {x['frozen_len']}.\n")
    o.append(f"Definition paths_frozen_suffix : list N := {coq_str(x['frozen_suffix'])}.\n")
    o.append(f"Definition paths_uri_skeleton : list (list N) :=\n  {coq_strlist(x['uri_skeleton'])}.\n")
    o.append("(* resolution step: is Path.resolve() followed by os.path.realpath of its result? is RuntimeError (symlink loop) a refusal? *)\n")
    o.append("(* resolution mode: 0 = Path.resolve() alone, 1 = + os.path.realpath of the result, 2 = _resolve_without_links (link-free result) *)\n")
    for k in ("uri_resolution", "stale_resolution"):
        o.append(f"Definition paths_{k} : N := {x[k]}.\n")
    for k in ("uri_catches_runtime", "stale_catches_runtime"):
        o.append(f"Definition paths_{k} : bool := {'true' if x[k] else 'false'}.\n")
    return {"PathsGen.v": "".join(o)}
