"""mcp/write.py, core/file_ops.py, cli/main.py -> Gen/WriteGen.v

Extracts the ORDERED FILE-SYSTEM CALLS WITH THEIR CONTROL STRUCTURE (if / try-except / with / return /
raise) of
  * the WRITE FILE block of WriteTool.execute           -> wt_write_block : stmt
  * the whole body of core.file_ops.atomic_write_octave  -> fo_atomic_write : stmt
and, as pinned summaries, every file-system call site / CAS guard of execute() before that block, the
position of the corrections_only guard, whether execute() contains an `await`, and the file-system call
sites of the CLI `write` command.

FAIL CLOSED: every statement is either recognised as one of the modelled file-system calls, or must be
free of calls outside a small whitelist of pure helpers.  open(target, 'w'), shutil.*, os.rename, a try
with finally/else, an unknown handler class ... raise TranslateError.
"""
import ast
import re

from .tlib import HEADER, TranslateError, coq_list, coq_str, find_def, need, parse_file

OUTPUTS = ["WriteGen.v"]

PURE_CALLS = {
    "self._compute_hash", "compute_hash", "str", "self._error_envelope", "Path", "len", "type",
}
ERR_PREFIX = [("Hash mismatch", "E_HASH"), ("Read error", "E_READ"), ("Write error", "E_WRITE"),
              ("Cannot write to symlink", "E_WRITE")]
CODES = {"E_PATH", "E_FILE", "E_READ", "E_HASH", "E_WRITE"}


def u(n):
    return ast.unparse(n)


def seq(items):
    items = [x for x in items if x != "SSkip"]
    if not items:
        return "SSkip"
    out = items[-1]
    for x in reversed(items[:-1]):
        out = f"(SSeq {x}\n  {out})"
    return out


class Tr:
    """Statement translator for one function. names: roles of local variables."""

    def __init__(self, fname, target_names, content_names):
        self.fname = fname
        self.target = set(target_names)      # expressions denoting the target path
        self.content = set(content_names)    # expressions denoting the text to write

    # ---- conditions -------------------------------------------------------------
    def cond(self, e):
        t = u(e)
        if isinstance(e, ast.BoolOp) and isinstance(e.op, ast.And):
            out = self.cond(e.values[-1])
            for v in reversed(e.values[:-1]):
                out = f"(CAnd {self.cond(v)} {out})"
            return out
        if isinstance(e, ast.UnaryOp) and isinstance(e.op, ast.Not):
            return f"(CNot {self.cond(e.operand)})"
        table = {
            "path_obj.exists()": "(CPathExists WTarget)",
            "path_obj.is_symlink()": "(CIsSymlink WTarget)",
            "os.path.exists(temp_path)": "(COsPathExists WTemp)",
            "original_mode is not None": "CModeKnown",
            "base_hash": "CBase",
            "file_exists": "CFileExisted",
            "verify_hash != base_hash": "CVerifyNe",
            "current_hash != base_hash": "CBaselineNe",
        }
        need(t in table, f"{self.fname}: condition not understood: {t[:80]}")
        return table[t]

    # ---- returns ----------------------------------------------------------------
    def ret(self, st):
        v = st.value
        need(v is not None, f"{self.fname}: bare return")
        if isinstance(v, ast.Name) and v.id == "result":
            return "(SReturn RetOk)"
        if isinstance(v, ast.Call) and u(v.func) == "self._error_envelope":
            need(len(v.args) >= 2 and isinstance(v.args[1], ast.List) and len(v.args[1].elts) == 1
                 and isinstance(v.args[1].elts[0], ast.Dict), f"{self.fname}: error envelope shape")
            d = v.args[1].elts[0]
            code = None
            for k, val in zip(d.keys, d.values):
                if isinstance(k, ast.Constant) and k.value == "code":
                    need(isinstance(val, ast.Constant), "non-literal error code")
                    code = val.value
            need(code in CODES, f"{self.fname}: unknown error code {code}")
            return f"(SReturn (RetErr {code}))"
        if isinstance(v, ast.Dict):
            d = {k.value: val for k, val in zip(v.keys, v.values) if isinstance(k, ast.Constant)}
            need("status" in d and isinstance(d["status"], ast.Constant), f"{self.fname}: return dict without status")
            if d["status"].value == "success":
                need("canonical_hash" in d and u(d["canonical_hash"]) == "canonical_hash",
                     f"{self.fname}: success without canonical_hash")
                return "(SReturn RetOk)"
            need(d["status"].value == "error" and "error" in d, f"{self.fname}: return dict shape")
            ev = d["error"]
            if isinstance(ev, ast.Name) and ev.id == "path_error":
                return "(SReturn (RetErr E_PATH))"
            lead = None
            if isinstance(ev, ast.Constant) and isinstance(ev.value, str):
                lead = ev.value
            elif isinstance(ev, ast.JoinedStr) and ev.values and isinstance(ev.values[0], ast.Constant):
                lead = ev.values[0].value
            need(lead is not None, f"{self.fname}: error message not literal-led")
            for pre, code in ERR_PREFIX:
                if lead.startswith(pre):
                    return f"(SReturn (RetErr {code}))"
            raise TranslateError(f"{self.fname}: unknown error message {lead[:40]!r}")
        raise TranslateError(f"{self.fname}: return value not understood: {u(v)[:60]}")

    # ---- simple statements ---------------------------------------------------------
    def simple(self, st):
        t = u(st)
        exact = {
            "path_obj.parent.mkdir(parents=True, exist_ok=True)": "(SOp OMkdirParents)",
            "os.fchmod(fd, original_mode)": "(SOp OFchmod)",
            "f.flush()": "(SOp OFlush)",
            "os.fsync(f.fileno())": "(SOp OFsync)",
            "os.unlink(temp_path)": "(SOp OUnlinkTemp)",
            "verify_content = verify_f.read()": "(SOp OReadVerify)",
            "fd, temp_path = tempfile.mkstemp(dir=path_obj.parent, suffix='.tmp', text=True)": "(SOp OMkstemp)",
            "existing_content = path_obj.read_text(encoding='utf-8')": "(SWith WOpenRead (SOp OReadBaseline))",
        }
        if t in exact:
            return exact[t]
        for tg in self.target:
            if t == f"original_stat = os.stat({tg})":
                return "(SOp OStatMode)"
            if t == f"os.replace(temp_path, {tg})":
                return "(SOp OReplace)"
        for c in self.content:
            if t == f"f.write({c})":
                return "(SOp OWrite)"
        if t == "original_mode = original_stat.st_mode & 511":
            return "SSkip"
        # otherwise: must be pure
        for n in ast.walk(st):
            if isinstance(n, ast.Call) and u(n.func) == "os.write":
                # the protocol language has no raw descriptor write: whether its RESULT (bytes actually written) is
                # checked / looped on decides if a short write(2) installs a truncated file -- keep failing closed
                raise TranslateError(f"{self.fname}: raw os.write on the temp descriptor is outside the protocol language "
                                     f"(short writes: result {'ignored' if isinstance(st, ast.Expr) else 'bound'}): {t[:60]}")
            if isinstance(n, ast.Call):
                need(u(n.func) in PURE_CALLS, f"{self.fname}: call not understood (fail closed): {u(n)[:80]}")
            need(not isinstance(n, (ast.Await, ast.Yield, ast.YieldFrom, ast.Lambda)), f"{self.fname}: await/yield in block")
        return "SSkip"

    def with_(self, st):
        need(len(st.items) == 1, f"{self.fname}: multi-item with")
        ce = u(st.items[0].context_expr)
        if ce == "os.fdopen(fd, 'w', encoding='utf-8')":
            kind = "WFdopen"
        elif any(ce == f"open({tg}, encoding='utf-8')" for tg in self.target):
            kind = "WOpenRead"
        else:
            raise TranslateError(f"{self.fname}: with-context not understood (fail closed): {ce[:80]}")
        return f"(SWith {kind} {self.block(st.body)})"

    def try_(self, st):
        need(not st.finalbody and not st.orelse, f"{self.fname}: try with finally/else")
        hperm, hexc = "None", "None"
        seen = []
        for h in st.handlers:
            need(isinstance(h.type, ast.Name) and h.type.id in ("PermissionError", "Exception"),
                 f"{self.fname}: handler class {u(h.type) if h.type else 'bare'}")
            seen.append(h.type.id)
            body = self.block(h.body)
            if h.type.id == "PermissionError":
                hperm = f"(Some {body})"
            else:
                hexc = f"(Some {body})"
        need(seen in (["Exception"], ["PermissionError", "Exception"], ["PermissionError"]),
             f"{self.fname}: handler order {seen}")
        return f"(STry {self.block(st.body)}\n  {hperm}\n  {hexc})"

    def stmt(self, st):
        if isinstance(st, ast.Expr) and isinstance(st.value, ast.Constant):
            return "SSkip"
        if isinstance(st, ast.If):
            return f"(SIf {self.cond(st.test)} {self.block(st.body)} {self.block(st.orelse)})"
        if isinstance(st, ast.Try):
            return self.try_(st)
        if isinstance(st, ast.With):
            return self.with_(st)
        if isinstance(st, ast.Return):
            return self.ret(st)
        if isinstance(st, ast.Raise):
            need(st.exc is None, f"{self.fname}: raise with value")
            return "SRaise"
        if isinstance(st, (ast.Assign, ast.AnnAssign, ast.Expr, ast.AugAssign)):
            return self.simple(st)
        raise TranslateError(f"{self.fname}: statement kind {type(st).__name__} (fail closed)")

    def block(self, stmts):
        return seq([self.stmt(s) for s in stmts])


FS_FUNC = re.compile(r"^(os\.|shutil\.|tempfile\.|path_obj\.|target_path\.|io\.)|^(open|atomic_write_octave|validate_octave_path)$"
                     r"|\.(read|write|read_text|write_text|exists|unlink|mkdir|rename|replace|touch|open|is_symlink|stat)$"
                     r"|^self\._validate_path$")
# guards that decide WHICH reads/compares run: CAS guards, the dry-run guard, and the mode dispatch (normalize falls into the
# content-mode `else:` branch and reads the file a second time -- the model transcribes that)
GUARD_NAMES = ("base_hash", "file_exists", "corrections_only", "normalize_mode", "changes")


def call_sites(stmts):
    """Ordered descriptors of file-system call sites and CAS/dry guards: 'call|<text>|<handler>' / 'if|<test>'."""
    out = []

    def handler_kind(tr):
        kinds = []
        for h in tr.handlers:
            last = h.body[-1]
            k = "return" if isinstance(last, ast.Return) else ("raise" if isinstance(last, ast.Raise) else "swallow")
            kinds.append((u(h.type) if h.type else "bare") + ":" + k)
        return ",".join(kinds)

    def walk(node, ctx):
        if isinstance(node, ast.Try):
            hk = handler_kind(node)
            for s in node.body:
                walk(s, hk)
            for h in node.handlers:
                for s in h.body:
                    walk(s, ctx)
            for s in node.orelse + node.finalbody:
                walk(s, ctx)
            return
        if isinstance(node, ast.If):
            names = {n.id for n in ast.walk(node.test) if isinstance(n, ast.Name)}
            guard = bool(names & set(GUARD_NAMES))
            if guard:
                out.append("if|" + u(node.test))
            for n in ast.walk(node.test):
                visit_call(n, ctx)
            for s in node.body:
                walk(s, ctx)
            if guard and node.orelse:
                out.append("else|" + u(node.test))
            for s in node.orelse:
                walk(s, ctx)
            if guard:
                out.append("endif|" + u(node.test))
            return
        if isinstance(node, (ast.With, ast.For, ast.While)):
            hdr = node.items if isinstance(node, ast.With) else [node.iter] if isinstance(node, ast.For) else [node.test]
            for h in hdr:
                for n in ast.walk(h):
                    visit_call(n, ctx)
            for s in node.body + getattr(node, "orelse", []):
                walk(s, ctx)
            return
        if isinstance(node, (ast.FunctionDef, ast.AsyncFunctionDef, ast.ClassDef)):
            raise TranslateError("nested definition in write path")
        for n in ast.walk(node):
            visit_call(n, ctx)

    def visit_call(n, ctx):
        if isinstance(n, ast.Call) and FS_FUNC.search(u(n.func)) and not u(n.func).startswith("sys.stdin"):
            out.append(f"call|{u(n)[:70]}|{ctx}")

    for s in stmts:
        walk(s, "none")
    return out


def generate(src):
    out = [HEADER, "From OV Require Import Base.Strs Fs.ProtoSyntax.\n\n"]
    # ---- WriteTool.execute ------------------------------------------------------------
    wmod = parse_file(src / "mcp" / "write.py")
    ex = find_def(wmod, "execute", cls="WriteTool")
    need(isinstance(ex, ast.AsyncFunctionDef), "WriteTool.execute is not async def")
    has_await = any(isinstance(n, (ast.Await, ast.AsyncFor, ast.AsyncWith)) for n in ast.walk(ex))
    body = ex.body
    tries = [i for i, s in enumerate(body) if isinstance(s, ast.Try)]
    need(tries, "execute: no top-level try (WRITE FILE block)")
    bi = tries[-1]
    need(bi == len(body) - 2 and u(body[-1]) == "return result", "execute: WRITE FILE try is not followed by exactly `return result`")
    guard = body[bi - 1]
    dry_ok = (isinstance(guard, ast.If) and u(guard.test) == "corrections_only" and len(guard.body) == 1
              and u(guard.body[0]) == "return result" and not guard.orelse)
    tr = Tr("execute", ["target_path"], ["canonical_content"])
    block = tr.stmt(body[bi])
    out.append("(* WRITE FILE block of WriteTool.execute (mcp/write.py) *)\n")
    out.append(f"Definition wt_write_block : stmt :=\n  {block}.\n\n")
    out.append(f"Definition wt_dry_guard_before_block : bool := {'true' if dry_ok else 'false'}.\n")
    out.append(f"Definition wt_execute_has_await : bool := {'true' if has_await else 'false'}.\n")
    pre = call_sites(body[: bi - 1] if dry_ok else body[:bi])
    out.append("(* file-system call sites and base_hash / file_exists guards of execute() BEFORE the block, in source order *)\n")
    out.append(f"Definition wt_pre_sites : list (list N) :=\n  {coq_list([coq_str(x) for x in pre], '(list N)')}.\n\n")
    # ---- atomic_write_octave --------------------------------------------------------------
    fmod = parse_file(src / "core" / "file_ops.py")
    aw = find_def(fmod, "atomic_write_octave")
    b = [s for s in aw.body if not (isinstance(s, ast.Expr) and isinstance(s.value, ast.Constant))]
    need(u(b[0]) == "path_obj = Path(target_path)", "atomic_write_octave: first statement")
    need(u(b[1]) == "path_valid, path_error = validate_octave_path(target_path)", "atomic_write_octave: validation call")
    need(isinstance(b[2], ast.If) and u(b[2].test) == "not path_valid" and len(b[2].body) == 1
         and isinstance(b[2].body[0], ast.Return), "atomic_write_octave: validation guard")
    tr2 = Tr("atomic_write_octave", ["target_path"], ["content"])
    need(tr2.ret(b[2].body[0]) == "(SReturn (RetErr E_PATH))", "atomic_write_octave: validation failure is not a path error")
    rest = b[3:]
    need(u(rest[-2]) == "canonical_hash = compute_hash(content)", "atomic_write_octave: hash of written content")
    out.append("(* core/file_ops.py atomic_write_octave, from the validation on *)\n")
    out.append(f"Definition fo_atomic_write : stmt :=\n  {seq(['SValidate', tr2.block(rest)])}.\n\n")
    # ---- CLI write ----------------------------------------------------------------------------
    cmod = parse_file(src / "cli" / "main.py")
    cw = find_def(cmod, "write")
    sites = call_sites(cw.body)
    out.append("(* file-system call sites of the CLI `write` command *)\n")
    out.append(f"Definition cli_write_sites : list (list N) :=\n  {coq_list([coq_str(x) for x in sites], '(list N)')}.\n")
    return {"WriteGen.v": "".join(out)}
