"""core/projector.py, mcp/eject.py, cli/main.py (eject + converters) -> Gen/ProjectorGen.v

CONSUMED by Proj/Projector.v, Proj/Convert.v:
  projector_modes        every `mode == <lit>` branch of project(): (mode, keep list | none, lossy, fields_omitted)
  projector_default      the final else branch (same record shape)
  convert_node_classes   node classes _ast_to_dict / _convert_block turn into dict entries (1 Assignment, 2 Block)
  convert_value_classes  isinstance order of _convert_value (1 LiteralZoneValue, 2 ListValue, 3 InlineMap,
                         4 HolographicValue, 5 dict = nested META block); the body of every case is checked to be the
                         expression the model implements (zone dict literal / recursive list / recursive dict over
                         .pairs / value.raw_pattern / recursive dict over the dict itself / `return value` fall-through)
  convert_zone_keys      keys of the dict a literal zone is exported as (with the marker value)
  format_markdown_value_classes   isinstance order of _format_markdown_value (same codes; cases 4, 5 and the str()
                         fall-through are checked, the other bodies are pinned as source text)
  cli_convert_value_classes   the same for the CLI copy (no literal-zone / holographic / dict case on the pinned tree)
  eject_format_lossy     per output format of EjectTool.execute: 1 = lossy flag is result.lossy
PINNED (Proj/Pins_Projector.v): normalised sources of _filter_fields, the markdown writers (both copies), the dict
converters (both copies), and the format dispatch of EjectTool.execute and of the CLI eject command.
"""
import ast

from .tlib import HEADER, TranslateError, coq_list, coq_str, coq_strlist, const_eval, find_def, need, parse_file

OUTPUTS = ["ProjectorGen.v"]

NODE_CODES = {"Assignment": 1, "Block": 2}
VALUE_CODES = {"LiteralZoneValue": 1, "ListValue": 2, "InlineMap": 3, "HolographicValue": 4, "dict": 5}
BUILTIN_CLASSES = {"dict"}


def _value_case_bodies(rec):
    """class code -> the only `return` expression (ast.unparse form) the model of _convert_value implements;
    `rec` = name of the recursive converter (eject.py: _convert_value, CLI copy: convert_value)"""
    return {
        2: f"[{rec}(item) for item in value.items]",
        3: f"{{k: {rec}(v) for k, v in value.pairs.items()}}",
        4: "value.raw_pattern",
        5: f"{{k: {rec}(v) for k, v in value.items()}}",
    }


MD_CASE_BODIES = {
    4: "value.raw_pattern",
    5: "', '.join((f'{k}: {_format_markdown_value(v)}' for k, v in value.items()))",
}


def _single_return(stmts, where):
    need(len(stmts) == 1 and isinstance(stmts[0], ast.Return) and stmts[0].value is not None,
         f"{where}: case body is not a single `return <expr>`")
    return ast.unparse(stmts[0].value)


def _check_imported(mod_or_fn, names, where):
    """every AST class named in an isinstance chain is imported from octave_mcp.core.ast_nodes (else: NameError at run time)"""
    imported = set()
    for n in mod_or_fn.body:
        if isinstance(n, ast.ImportFrom) and n.module == "octave_mcp.core.ast_nodes" and n.level == 0:
            imported |= {a.asname or a.name for a in n.names}
    for nm in names:
        need(nm in BUILTIN_CLASSES or nm in imported, f"{where}: class {nm} is used in isinstance() but not imported from core.ast_nodes")


def _strip_doc(fn):
    body = list(fn.body)
    if body and isinstance(body[0], ast.Expr) and isinstance(body[0].value, ast.Constant) and isinstance(body[0].value.value, str):
        body = body[1:]
    return body


def _src(fn):
    class Strip(ast.NodeTransformer):
        def _s(self, node):
            self.generic_visit(node)
            node.body = _strip_doc(node) or [ast.Pass()]
            return node
        visit_FunctionDef = _s
        visit_AsyncFunctionDef = _s
    import copy
    return ast.unparse(Strip().visit(copy.deepcopy(fn)))


def _mode_record(stmts, where):
    """statements of one branch of project() -> (keep|None, lossy, omitted)"""
    keep = None
    src_doc = "doc"
    i = 0
    if isinstance(stmts[0], ast.Assign) and ast.unparse(stmts[0].targets[0]) == "filtered_doc":
        c = stmts[0].value
        need(isinstance(c, ast.Call) and ast.unparse(c.func) == "_filter_fields" and len(c.args) == 1
             and ast.unparse(c.args[0]) == "doc" and len(c.keywords) == 1 and c.keywords[0].arg == "keep",
             f"project[{where}]: unexpected filter call {ast.unparse(c)}")
        keep = const_eval(c.keywords[0].value)
        need(isinstance(keep, list) and all(isinstance(k, str) for k in keep), f"project[{where}]: keep is not a list of strings")
        src_doc = "filtered_doc"
        i = 1
    need(len(stmts) == i + 2, f"project[{where}]: unexpected number of statements")
    need(ast.unparse(stmts[i]) == f"output = emit({src_doc})", f"project[{where}]: output is not emit({src_doc})")
    r = stmts[i + 1]
    need(isinstance(r, ast.Return) and isinstance(r.value, ast.Call) and ast.unparse(r.value.func) == "ProjectionResult"
         and not r.value.args, f"project[{where}]: return shape")
    kw = {k.arg: k.value for k in r.value.keywords}
    need(set(kw) == {"output", "lossy", "fields_omitted", "filtered_doc"}, f"project[{where}]: ProjectionResult fields {sorted(kw)}")
    need(ast.unparse(kw["output"]) == "output" and ast.unparse(kw["filtered_doc"]) == src_doc, f"project[{where}]: result wiring")
    lossy = const_eval(kw["lossy"])
    om = const_eval(kw["fields_omitted"])
    need(isinstance(lossy, bool) and isinstance(om, list), f"project[{where}]: lossy/fields_omitted not literal")
    return keep, lossy, om


def _isinstance_chain(fn, var, codes, where):
    """The if/elif isinstance(var, C) chain at the top of fn (or of a for-loop body) -> [code]."""
    out = []
    stmts = _strip_doc(fn)
    ifs = [s for s in stmts if isinstance(s, ast.If)]
    need(len(ifs) == 1, f"{where}: expected exactly one isinstance chain, found {len(ifs)}")
    cur = ifs[0]
    cases = {}
    names = []
    while True:
        t = cur.test
        need(isinstance(t, ast.Call) and ast.unparse(t.func) == "isinstance" and len(t.args) == 2 and not t.keywords
             and ast.unparse(t.args[0]) == var
             and isinstance(t.args[1], ast.Name) and t.args[1].id in codes, f"{where}: unknown test `{ast.unparse(t)}`")
        code = codes[t.args[1].id]
        need(code not in cases, f"{where}: class {t.args[1].id} tested twice")
        out.append(code)
        names.append(t.args[1].id)
        cases[code] = cur.body
        if not cur.orelse:
            # no else branch: the fall-through is whatever follows the chain in the function body
            rest = stmts[stmts.index(ifs[0]) + 1:]
            break
        if len(cur.orelse) == 1 and isinstance(cur.orelse[0], ast.If):
            cur = cur.orelse[0]
        else:
            rest = cur.orelse
            need(stmts.index(ifs[0]) == len(stmts) - 1, f"{where}: statements after an if/else chain")
            break
    need(stmts.index(ifs[0]) == 0, f"{where}: statements before the isinstance chain")
    return out, ifs[0], cases, rest, names


def _loop_node_classes(fn, loopvar, where):
    loops = [s for s in _strip_doc(fn) if isinstance(s, ast.For) and ast.unparse(s.target) == loopvar]
    need(len(loops) == 1, f"{where}: expected one `for {loopvar}` loop")
    body = loops[0].body
    need(len(body) == 1 and isinstance(body[0], ast.If), f"{where}: loop body shape")
    out = []
    cur = body[0]
    while True:
        t = cur.test
        need(isinstance(t, ast.Call) and ast.unparse(t.func) == "isinstance" and ast.unparse(t.args[0]) == loopvar
             and isinstance(t.args[1], ast.Name) and t.args[1].id in NODE_CODES, f"{where}: unknown node test `{ast.unparse(t)}`")
        out.append(NODE_CODES[t.args[1].id])
        if not cur.orelse:
            break
        need(len(cur.orelse) == 1 and isinstance(cur.orelse[0], ast.If), f"{where}: node dispatch has an else branch")
        cur = cur.orelse[0]
    return out


def generate(src):
    pmod = parse_file(src / "core" / "projector.py")
    proj = find_def(pmod, "project")
    body = _strip_doc(proj)
    need(len(body) == 1 and isinstance(body[0], ast.If), "project: body is not a single if-chain")
    modes = []
    cur = body[0]
    default = None
    while True:
        t = cur.test
        need(isinstance(t, ast.Compare) and ast.unparse(t.left) == "mode" and len(t.ops) == 1 and isinstance(t.ops[0], ast.Eq)
             and isinstance(t.comparators[0], ast.Constant) and isinstance(t.comparators[0].value, str),
             f"project: unknown test `{ast.unparse(t)}`")
        name = t.comparators[0].value
        modes.append((name,) + _mode_record(cur.body, name))
        if len(cur.orelse) == 1 and isinstance(cur.orelse[0], ast.If):
            cur = cur.orelse[0]
        else:
            need(len(cur.orelse) >= 1, "project: no default branch")
            default = _mode_record(cur.orelse, "else")
            break
    # ---- eject.py converters ----
    emod = parse_file(src / "mcp" / "eject.py")
    a2d = find_def(emod, "_ast_to_dict")
    cb = find_def(emod, "_convert_block")
    cv = find_def(emod, "_convert_value")
    n1 = _loop_node_classes(a2d, "section", "eject._ast_to_dict")
    n2 = _loop_node_classes(cb, "child", "eject._convert_block")
    need(n1 == n2, "eject: _ast_to_dict and _convert_block handle different node classes")
    vclasses, first_if, vcases, vrest, vnames = _isinstance_chain(cv, "value", VALUE_CODES, "eject._convert_value")
    for code, want in _value_case_bodies("_convert_value").items():
        if code in vcases:
            got = _single_return(vcases[code], f"eject._convert_value[class {code}]")
            need(got == want, f"eject._convert_value[class {code}]: returns `{got}`, the model implements `{want}`")
    need(_single_return(vrest, "eject._convert_value[else]") == "value", "eject._convert_value: fall-through is not `return value`")
    fmv = find_def(emod, "_format_markdown_value")
    mclasses, _, mcases, mrest, mnames = _isinstance_chain(fmv, "value", VALUE_CODES, "eject._format_markdown_value")
    for code, want in MD_CASE_BODIES.items():
        if code in mcases:
            got = _single_return(mcases[code], f"eject._format_markdown_value[class {code}]")
            need(got == want, f"eject._format_markdown_value[class {code}]: returns `{got}`, the model implements `{want}`")
    need(_single_return(mrest, "eject._format_markdown_value[else]") == "str(value)",
         "eject._format_markdown_value: fall-through is not `return str(value)`")
    _check_imported(emod, set(vnames) | set(mnames) | set(NODE_CODES), "eject.py")
    zone_keys = None
    if 1 in vclasses:
        r = first_if.body[0]
        need(isinstance(r, ast.Return) and isinstance(r.value, ast.Dict), "eject._convert_value: zone export is not a dict literal")
        zone_keys = []
        for k, v in zip(r.value.keys, r.value.values):
            need(isinstance(k, ast.Constant) and isinstance(k.value, str), "zone export key not literal")
            need(ast.unparse(v) in ("True", "value.content", "value.info_tag", "value.fence_marker"),
                 f"zone export value `{ast.unparse(v)}` not understood")
            zone_keys.append((k.value, ast.unparse(v)))
    ex = find_def(emod, "execute", cls="EjectTool")
    # per format: which expression is returned as "lossy"
    fmt_lossy = []
    for n in ast.walk(ex):
        if isinstance(n, ast.If) and isinstance(n.test, ast.Compare) and ast.unparse(n.test.left) == "output_format" \
                and isinstance(n.test.comparators[0], ast.Constant):
            fmt = n.test.comparators[0].value
            rets = [s for s in n.body if isinstance(s, ast.Return)]
            need(len(rets) == 1 and isinstance(rets[0].value, ast.Dict), f"eject.execute[{fmt}]: return shape")
            d = {k.value: ast.unparse(v) for k, v in zip(rets[0].value.keys, rets[0].value.values) if isinstance(k, ast.Constant)}
            need("lossy" in d, f"eject.execute[{fmt}]: no lossy field")
            fmt_lossy.append((fmt, 1 if d["lossy"] == "result.lossy" else 0))
    need([f for f, _ in fmt_lossy] == ["json", "yaml", "markdown", "gbnf"], f"eject.execute: format chain changed: {fmt_lossy}")
    # ---- cli copies ----
    cmod = parse_file(src / "cli" / "main.py")
    ca2d = find_def(cmod, "_ast_to_dict")
    inner = {n.name: n for n in ca2d.body if isinstance(n, ast.FunctionDef)}
    need(set(inner) == {"convert_value", "convert_block"}, "cli._ast_to_dict: inner functions changed")
    cn1 = _loop_node_classes(ca2d, "section", "cli._ast_to_dict")
    cn2 = _loop_node_classes(inner["convert_block"], "child", "cli.convert_block")
    need(cn1 == cn2 == n1, "cli: node classes differ from eject.py")
    cvclasses, _, ccases, crest, cnames = _isinstance_chain(inner["convert_value"], "value", VALUE_CODES, "cli.convert_value")
    for code, want in _value_case_bodies("convert_value").items():
        if code in ccases:
            got = _single_return(ccases[code], f"cli.convert_value[class {code}]")
            need(got == want, f"cli.convert_value[class {code}]: returns `{got}`, the model implements `{want}`")
    need(_single_return(crest, "cli.convert_value[else]") == "value", "cli.convert_value: fall-through is not `return value`")
    _check_imported(ca2d, set(cnames) | set(NODE_CODES), "cli._ast_to_dict")
    pins = {
        "src_filter_fields": _src(find_def(pmod, "_filter_fields")),
        "src_ast_to_dict": _src(a2d), "src_convert_value": _src(cv), "src_convert_block": _src(cb),
        "src_format_markdown_value": _src(fmv),
        "src_ast_to_markdown": _src(find_def(emod, "_ast_to_markdown")),
        "src_block_to_markdown": _src(find_def(emod, "_block_to_markdown")),
        "src_cli_ast_to_dict": _src(ca2d),
        "src_cli_ast_to_markdown": _src(find_def(cmod, "_ast_to_markdown")),
        "src_cli_block_to_markdown": _src(find_def(cmod, "_block_to_markdown")),
        "src_cli_eject": _src(find_def(cmod, "eject")),
    }
    # the format dispatch + projection call of EjectTool.execute, from `result = project(...)` on
    stmts = _strip_doc(ex)
    k = [i for i, s in enumerate(stmts) if ast.unparse(s).startswith("result = project(")]
    need(len(k) == 1, "eject.execute: projection call not found")
    pins["src_eject_execute_tail"] = "\n".join(ast.unparse(s) for s in stmts[k[0]:])
    out = [HEADER]

    def mode_rec(keep, lossy, om):
        ks = f"Some {coq_strlist(keep)}" if keep is not None else "None"
        return f"({ks}, {'true' if lossy else 'false'}, {coq_strlist(om)})"
    out.append("(* project(): (mode, (keep list | None = whole document, lossy, fields_omitted)) in source order *)\n")
    out.append("Definition projector_modes : list (list N * (option (list (list N)) * bool * list (list N))) :=\n  "
               + coq_list([f"({coq_str(m)}, {mode_rec(k, l, o)})" for m, k, l, o in modes]) + ".\n")
    out.append(f"Definition projector_default : option (list (list N)) * bool * list (list N) := {mode_rec(*default)}.\n")
    out.append(f"Definition convert_node_classes : list N := {coq_list([str(x) for x in n1], 'N')}.\n")
    out.append(f"Definition convert_value_classes : list N := {coq_list([str(x) for x in vclasses], 'N')}.\n")
    out.append(f"Definition format_markdown_value_classes : list N := {coq_list([str(x) for x in mclasses], 'N')}.\n")
    out.append(f"Definition cli_convert_value_classes : list N := {coq_list([str(x) for x in cvclasses], 'N')}.\n")
    zk = zone_keys or []
    out.append("(* literal zone export: (dict key, source of the value expression) *)\n")
    out.append("Definition convert_zone_keys : list (list N * list N) := "
               + coq_list([f"({coq_str(k)}, {coq_str(v)})" for k, v in zk], "(list N * list N)") + ".\n")
    out.append("Definition eject_format_lossy : list (list N * N) := "
               + coq_list([f"({coq_str(f)}, {v})" for f, v in fmt_lossy], "(list N * N)") + ".\n")
    for kname, v in pins.items():
        out.append(f"Definition projector_{kname} : list N := {coq_str(v)}.\n")
    return {"ProjectorGen.v": "".join(out)}
