"""C20 translator (fail closed).

  core/parser.py  -> Gen/ParserLoopsGen.v
      * the cursor API (source text of Parser.current / advance / expect, every write to self.pos) -- pinned in Coq
      * every `while` loop of class Parser as a skeleton (guard + body) over the statement language of
        Tools/ParserLoops.v: advance / expect / call of a cursor-touching method / exit (break,return,raise) /
        continue / if / nested loop.  Anything not understood raises TranslateError.
      * MAX_NESTING_DEPTH and the prologue of parse_list / the guard of _check_deep_nesting

  mcp/{validate,write,eject,compile_grammar}.py, mcp/server.py -> Gen/ExnFlowGen.v
      * per tool execute(): ordered call sites with the stack of enclosing `try` handlers (classes caught);
        sites inside an `except` body are protected only by OUTER try statements
      * per tool: every `return` site with the shape of the returned value (dict literal keys / helper / variable)
      * helper envelopes (_error_envelope, _error_response) and the initial `result = {...}` keys
      * server.handle_call_tool call sites (same format)
"""
from __future__ import annotations

import ast

from .tlib import HEADER, TranslateError, coq_list, coq_str, coq_strlist, find_def, module_assign, need, parse_file

OUTPUTS = ["ParserLoopsGen.v", "ExnFlowGen.v"]

# ======================================================================================================
# part 1: parser loops
# ======================================================================================================


def _strip_doc(body):
    if body and isinstance(body[0], ast.Expr) and isinstance(body[0].value, ast.Constant) \
            and isinstance(body[0].value.value, str):
        return body[1:]
    return body


def _src(body):
    return "\n".join(ast.unparse(s) for s in _strip_doc(body))


def _is_self_call(c, name=None):
    return isinstance(c, ast.Call) and isinstance(c.func, ast.Attribute) and isinstance(c.func.value, ast.Name) \
        and c.func.value.id == "self" and (name is None or c.func.attr == name)


def _tokentype_name(e):
    if isinstance(e, ast.Attribute) and isinstance(e.value, ast.Name) and e.value.id == "TokenType":
        return e.attr
    return None


class _ParserLoops:
    def __init__(self, mod):
        self.mod = mod
        cs = [n for n in mod.body if isinstance(n, ast.ClassDef) and n.name == "Parser"]
        need(len(cs) == 1, "class Parser not found exactly once")
        self.cls = cs[0]
        self.methods = {n.name: n for n in self.cls.body if isinstance(n, (ast.FunctionDef, ast.AsyncFunctionDef))}
        need(not any(isinstance(n, ast.AsyncFunctionDef) for n in self.methods.values()), "async method in Parser")
        self.touching = self._touching()
        self.sets = {}
        self.loops = []
        self.counter = 0
        # STABLE loop ids: "<method>#<k>", k = ordinal of the `while` among ALL while statements of that method in source
        # order (nested ones included).  Line numbers shift with every edit of parser.py; ids change only when a loop is
        # added to / removed from / reordered within its own method.  pl_line is kept as a diagnostic field only.
        self.loop_ids = {}
        for name, fn in self.methods.items():
            whs = sorted((n for n in ast.walk(fn) if isinstance(n, ast.While)), key=lambda n: (n.lineno, n.col_offset))
            for k, wh in enumerate(whs):
                self.loop_ids[id(wh)] = f"{name}#{k}"

    # ---- which methods (transitively) move the cursor -----------------------------------------
    def _touching(self):
        direct = set()
        calls = {}
        for name, fn in self.methods.items():
            cs = set()
            for n in ast.walk(fn):
                if _is_self_call(n):
                    cs.add(n.func.attr)
                if isinstance(n, (ast.Assign, ast.AugAssign, ast.AnnAssign)):
                    tgts = n.targets if isinstance(n, ast.Assign) else [n.target]
                    for t in tgts:
                        for sub in ast.walk(t):
                            if isinstance(sub, ast.Attribute) and isinstance(sub.value, ast.Name) \
                                    and sub.value.id == "self" and sub.attr == "pos":
                                need(name in ("__init__", "advance"),
                                     f"Parser.{name} writes self.pos (only __init__/advance may)")
                                if name == "advance":
                                    direct.add(name)
                # any other way to reach the cursor: setattr / passing self around -> fail closed
                if isinstance(n, ast.Call):
                    for a in list(n.args) + [k.value for k in n.keywords]:
                        need(not (isinstance(a, ast.Name) and a.id == "self"),
                             f"Parser.{name}: `self` passed as an argument at line {n.lineno}")
                    fn_name = ast.unparse(n.func)
                    need(fn_name not in ("setattr", "getattr", "exec", "eval"),
                         f"Parser.{name}: {fn_name}() at line {n.lineno}")
            calls[name] = cs
        need("advance" in direct, "Parser.advance does not write self.pos")
        touching = set(direct)
        changed = True
        while changed:
            changed = False
            for name, cs in calls.items():
                if name not in touching and cs & touching:
                    touching.add(name)
                    changed = True
        for name, cs in calls.items():
            for c in cs:
                need(c in self.methods, f"Parser.{name} calls unknown method self.{c}()")
        return touching

    # ---- token sets -------------------------------------------------------------------------------
    def _set_of(self, e):
        """-> frozenset of TokenType member names, or None when the expression is not a token set."""
        if isinstance(e, (ast.Tuple, ast.Set, ast.List)):
            names = [_tokentype_name(x) for x in e.elts]
            if all(n is not None for n in names):
                return frozenset(names)
            return None
        if isinstance(e, ast.Name):
            loc = self._local_set(e.id)
            if loc is not None:
                return loc
            if e.id in self.sets:
                return self.sets[e.id]
            try:
                v = module_assign(self.mod, e.id)
            except TranslateError:
                return None
            if isinstance(v, ast.Call) and ast.unparse(v.func) in ("frozenset", "set") and len(v.args) == 1:
                s = self._set_of(v.args[0])
            else:
                s = self._set_of(v)
            if s is not None:
                self.sets[e.id] = s
            return s
        return None

    def _local_set(self, name):
        """a local variable of the current method bound ONCE to a literal set/tuple of TokenType members and
        otherwise only extended by `.add(TokenType.X)`: the union (an over-approximation of its value)."""
        fn = getattr(self, "cur_fn", None)
        if fn is None:
            return None
        stores = [n for n in ast.walk(fn) if isinstance(n, ast.Name) and n.id == name and isinstance(n.ctx, (ast.Store, ast.Del))]
        if len(stores) != 1:
            return None
        members = None
        for n in ast.walk(fn):
            if isinstance(n, (ast.Assign, ast.AnnAssign)):
                tgts = n.targets if isinstance(n, ast.Assign) else [n.target]
                if any(isinstance(t, ast.Name) and t.id == name for t in tgts):
                    if len(tgts) != 1 or not isinstance(n.value, (ast.Set, ast.Tuple, ast.List)):
                        return None
                    names = [_tokentype_name(x) for x in n.value.elts]
                    if any(x is None for x in names):
                        return None
                    members = set(names)
        if members is None:
            return None
        for n in ast.walk(fn):
            if isinstance(n, ast.Attribute) and isinstance(n.value, ast.Name) and n.value.id == name:
                # only `.add(TokenType.X)` is allowed as an attribute use
                ok = False
                for c in ast.walk(fn):
                    if isinstance(c, ast.Call) and c.func is n and n.attr == "add" and len(c.args) == 1 \
                            and _tokentype_name(c.args[0]) is not None:
                        members.add(_tokentype_name(c.args[0]))
                        ok = True
                if not ok:
                    return None
        return frozenset(members)

    # ---- conditions -------------------------------------------------------------------------------
    def _is_cur_type(self, e):
        return isinstance(e, ast.Attribute) and e.attr == "type" and _is_self_call(e.value, "current") \
            and not e.value.args and not e.value.keywords

    def _no_touch(self, e, where):
        for n in ast.walk(e):
            if _is_self_call(n) and n.func.attr in self.touching:
                raise TranslateError(f"{where}: cursor-moving call self.{n.func.attr}() inside a condition (line {n.lineno})")

    def cond(self, e, idx_var, where):
        self._no_touch(e, where)
        if isinstance(e, ast.BoolOp):
            parts = [self.cond(v, idx_var, where) for v in e.values]
            op = "PAnd" if isinstance(e.op, ast.And) else "POr"
            out = parts[-1]
            for p in reversed(parts[:-1]):
                out = f"({op} {p} {out})"
            return out
        if isinstance(e, ast.UnaryOp) and isinstance(e.op, ast.Not):
            return f"(PNot {self.cond(e.operand, idx_var, where)})"
        if isinstance(e, ast.Compare) and len(e.ops) == 1:
            op, rhs = e.ops[0], e.comparators[0]
            if self._is_cur_type(e.left):
                if isinstance(op, (ast.Eq, ast.NotEq)):
                    nm = _tokentype_name(rhs)
                    if nm is not None:
                        c = f"(PCur {'true' if nm == 'EOF' else 'false'})"
                        return c if isinstance(op, ast.Eq) else f"(PNot {c})"
                if isinstance(op, (ast.In, ast.NotIn)):
                    s = self._set_of(rhs)
                    if s is not None:
                        c = f"(PCur {'true' if 'EOF' in s else 'false'})"
                        return c if isinstance(op, ast.In) else f"(PNot {c})"
            if idx_var is not None and isinstance(op, ast.Lt) and isinstance(e.left, ast.Name) and e.left.id == idx_var \
                    and ast.unparse(rhs) == "len(self.tokens)":
                return "PIdx"
        return "POpaque"

    # ---- statements -------------------------------------------------------------------------------
    def _calls_of(self, node, where):
        """cursor-relevant calls of a simple statement / expression, in source order."""
        out = []
        for n in ast.walk(node):
            if isinstance(n, (ast.Lambda, ast.FunctionDef, ast.AsyncFunctionDef, ast.ListComp, ast.SetComp,
                              ast.DictComp, ast.GeneratorExp, ast.Await, ast.Yield, ast.YieldFrom, ast.NamedExpr)):
                for m in ast.walk(n):
                    if _is_self_call(m) and m.func.attr in self.touching:
                        raise TranslateError(f"{where}: cursor-moving call inside {type(n).__name__} (line {n.lineno})")
            if _is_self_call(n) and n.func.attr in self.touching:
                out.append(n)
        out.sort(key=lambda c: (c.lineno, c.col_offset))
        res = []
        for c in out:
            if c.func.attr == "advance":
                need(not c.args and not c.keywords, f"{where}: advance() with arguments")
                res.append("PAdv")
            elif c.func.attr == "expect":
                need(len(c.args) == 1 and _tokentype_name(c.args[0]) is not None, f"{where}: expect() argument shape")
                res.append(f"(PExpect {'true' if _tokentype_name(c.args[0]) == 'EOF' else 'false'})")
            else:
                res.append(f"(PCall {coq_str(c.func.attr)})")
        return res

    def block(self, stmts, idx_var, where, in_index_loop):
        items = []
        for st in stmts:
            items += self.stmt(st, idx_var, where, in_index_loop)
        out = "BNil"
        for it in reversed(items):
            out = f"(BCons {it} {out})"
        return out

    def stmt(self, st, idx_var, where, in_index_loop):
        w = f"{where}:{getattr(st, 'lineno', '?')}"
        if isinstance(st, ast.If):
            c = self.cond(st.test, idx_var, w)
            return [f"(PIf {c}\n      {self.block(st.body, idx_var, where, in_index_loop)}\n      {self.block(st.orelse, idx_var, where, in_index_loop)})"]
        if isinstance(st, ast.While):
            lid = self.loop(st, where)
            return [f"(PLoop {coq_str(lid)})"]
        if isinstance(st, (ast.Break, ast.Raise)):
            pre = self._calls_of(st, w) if isinstance(st, ast.Raise) else []
            return pre + ["PExit"]
        if isinstance(st, ast.Return):
            pre = self._calls_of(st, w) if st.value is not None else []
            return pre + ["PExit"]
        if isinstance(st, ast.Continue):
            return ["PCont"]
        if isinstance(st, (ast.Pass, ast.Assert)):
            if isinstance(st, ast.Assert):
                self._no_touch(st, w)
            return []
        if isinstance(st, ast.AugAssign) and idx_var is not None and isinstance(st.target, ast.Name) \
                and st.target.id == idx_var:
            need(isinstance(st.op, ast.Add) and isinstance(st.value, ast.Constant) and st.value.value == 1,
                 f"{w}: index variable {idx_var} updated other than by += 1")
            return ["PAdv"]
        if isinstance(st, (ast.Assign, ast.AugAssign, ast.AnnAssign, ast.Expr)):
            if idx_var is not None:
                tgts = st.targets if isinstance(st, ast.Assign) else ([st.target] if not isinstance(st, ast.Expr) else [])
                for t in tgts:
                    for sub in ast.walk(t):
                        need(not (isinstance(sub, ast.Name) and sub.id == idx_var),
                             f"{w}: index variable {idx_var} assigned inside its loop")
            calls = self._calls_of(st, w)
            need(not (in_index_loop and calls), f"{w}: cursor-moving call inside an index loop")
            return calls
        if isinstance(st, ast.For):
            # a for loop over a finite sequence: allowed only when it neither moves the cursor nor leaves the while
            for n in ast.walk(st):
                if _is_self_call(n) and n.func.attr in self.touching:
                    raise TranslateError(f"{w}: cursor-moving call inside a for loop in a while body")
                if isinstance(n, (ast.Return, ast.Raise, ast.While)):
                    raise TranslateError(f"{w}: return/raise/while inside a for loop in a while body")
                if idx_var is not None and isinstance(n, ast.Name) and n.id == idx_var and isinstance(n.ctx, ast.Store):
                    raise TranslateError(f"{w}: index variable assigned in a for loop")
            return []
        raise TranslateError(f"{w}: statement {type(st).__name__} inside a while loop is not understood")

    def loop(self, wh: ast.While, fname):
        need(not wh.orelse, f"{fname}:{wh.lineno}: while/else")
        # index loop?  guard contains `VAR < len(self.tokens)`
        idx_var = None
        for n in ast.walk(wh.test):
            if isinstance(n, ast.Compare) and len(n.ops) == 1 and isinstance(n.ops[0], ast.Lt) \
                    and isinstance(n.left, ast.Name) and ast.unparse(n.comparators[0]) == "len(self.tokens)":
                idx_var = n.left.id
        has_cur = any(self._is_cur_type(n) for n in ast.walk(wh.test))
        need(not (idx_var is not None and has_cur), f"{fname}:{wh.lineno}: guard mixes an index bound and current()")
        guard = self.cond(wh.test, idx_var, f"{fname}:{wh.lineno}")
        body = self.block(wh.body, idx_var, fname, idx_var is not None)
        need(id(wh) in self.loop_ids and self.loop_ids[id(wh)].split("#")[0] == fname, f"{fname}:{wh.lineno}: loop without a stable id")
        lid = self.loop_ids[id(wh)]
        self.loops.append((wh.lineno, lid, fname, idx_var is not None, guard, body))
        return lid

    def run(self):
        for name, fn in self.methods.items():
            self.cur_fn = fn
            self._walk_fn(fn.body, name)
        self.cur_fn = None
        # module-level functions must not contain while loops that touch a Parser (parse(), parse_meta_only() ...)
        for n in self.mod.body:
            if isinstance(n, ast.FunctionDef):
                for m in ast.walk(n):
                    if isinstance(m, ast.While):
                        raise TranslateError(f"module-level function {n.name} contains a while loop (line {m.lineno})")
        self.loops.sort()
        return self.loops

    def _walk_fn(self, stmts, fname):
        """find the OUTERMOST while loops of a method (nested ones are reached through loop())."""
        for st in stmts:
            if isinstance(st, ast.While):
                self.loop(st, fname)
            elif isinstance(st, (ast.If,)):
                self._walk_fn(st.body, fname)
                self._walk_fn(st.orelse, fname)
            elif isinstance(st, (ast.For, ast.With)):
                self._walk_fn(st.body, fname)
                self._walk_fn(getattr(st, "orelse", []), fname)
            elif isinstance(st, ast.Try):
                self._walk_fn(st.body, fname)
                for h in st.handlers:
                    self._walk_fn(h.body, fname)
                self._walk_fn(st.orelse, fname)
                self._walk_fn(st.finalbody, fname)
            elif isinstance(st, (ast.FunctionDef, ast.AsyncFunctionDef, ast.ClassDef)):
                raise TranslateError(f"{fname}: nested def/class at line {st.lineno}")
            else:
                for n in ast.walk(st):
                    if isinstance(n, ast.While):
                        raise TranslateError(f"{fname}: while loop in unexpected position (line {st.lineno})")


def _gen_parser_loops(src):
    mod = parse_file(src / "core" / "parser.py")
    pl = _ParserLoops(mod)
    loops = pl.run()
    need(len(loops) >= 1, "no while loop found in class Parser")
    n_while = sum(1 for n in ast.walk(pl.cls) if isinstance(n, ast.While))
    need(n_while == len(loops), f"{n_while} while loops in class Parser but {len(loops)} translated")
    mx = module_assign(mod, "MAX_NESTING_DEPTH")
    need(isinstance(mx, ast.Constant) and isinstance(mx.value, int), "MAX_NESTING_DEPTH is not an int literal")
    # prologue of parse_list: statements before the first while, reduced to the nesting-relevant operations
    plist = pl.methods.get("parse_list")
    need(plist is not None, "Parser.parse_list missing")
    prologue = []
    for st in _strip_doc(plist.body):
        if isinstance(st, ast.While):
            break
        s = ast.unparse(st)
        if "expect(" in s or "bracket_depth" in s or "_check_deep_nesting" in s:
            prologue.append(s)
    chk = pl.methods.get("_check_deep_nesting")
    need(chk is not None, "Parser._check_deep_nesting missing")
    chk_src = []
    for st in _strip_doc(chk.body)[:2]:
        if isinstance(st, ast.If):
            chk_src.append("if " + ast.unparse(st.test) + ": " + type(st.body[0]).__name__
                           + " " + (ast.unparse(st.body[0].exc.func) if isinstance(st.body[0], ast.Raise)
                                    and isinstance(st.body[0].exc, ast.Call) else ""))
        else:
            chk_src.append(ast.unparse(st))
    # every write to self.bracket_depth, by method
    depth_writes = []
    for name, fn in pl.methods.items():
        for n in ast.walk(fn):
            if isinstance(n, (ast.Assign, ast.AugAssign)):
                tgts = n.targets if isinstance(n, ast.Assign) else [n.target]
                for t in tgts:
                    if isinstance(t, ast.Attribute) and t.attr == "bracket_depth":
                        depth_writes.append(f"{name}: {ast.unparse(n)}")
    out = [HEADER, "From OV Require Import Tools.ExnFlowLang.\n\n"]
    out.append(f"Definition parser_max_nesting_depth : N := {mx.value}.\n")
    for nm in ("current", "advance", "expect"):
        need(nm in pl.methods, f"Parser.{nm} missing")
        out.append(f"Definition parser_{nm}_src : list N := {coq_str(_src(pl.methods[nm].body))}.\n")
    out.append(f"Definition parser_touching_methods : list (list N) := {coq_strlist(sorted(pl.touching))}.\n")
    out.append(f"Definition parser_parse_list_prologue : list (list N) := {coq_strlist(prologue)}.\n")
    out.append(f"Definition parser_check_deep_nesting_head : list (list N) := {coq_strlist(chk_src)}.\n")
    out.append(f"Definition parser_bracket_depth_writes : list (list N) := {coq_strlist(sorted(depth_writes))}.\n")
    items = []
    need(len({lid for _, lid, *_ in loops}) == len(loops), "loop ids are not unique")
    for line, lid, fname, is_idx, guard, body in loops:
        items.append(f"(* {lid} *) mkLoop {coq_str(lid)} {line} {coq_str(fname)} {'true' if is_idx else 'false'}\n    {guard}\n    {body}")
    out.append("(* every `while` of class Parser: stable id `method#ordinal-within-method`, line (DIAGNOSTIC ONLY: nothing may key\n"
               "   on it), method, index-loop?, guard, body skeleton; nested loops are referenced by id *)\n")
    out.append(f"Definition parser_loops : list ploop :=\n  {coq_list(items)}.\n")
    return "".join(out)


# ======================================================================================================
# part 2: exception flow of the tools
# ======================================================================================================
TOOLS = [("validate", "mcp/validate.py", "ValidateTool"), ("write", "mcp/write.py", "WriteTool"),
         ("eject", "mcp/eject.py", "EjectTool"), ("compile_grammar", "mcp/compile_grammar.py", "CompileGrammarTool")]

CATCH_ALL = ("Exception", "BaseException")


def _handler_classes(h: ast.ExceptHandler):
    if h.type is None:
        return ["BaseException"]
    if isinstance(h.type, ast.Tuple):
        return [ast.unparse(x) for x in h.type.elts]
    return [ast.unparse(h.type)]


class _Flow:
    """Ordered call sites of a function body with the stack of protecting try statements."""

    def __init__(self, where):
        self.where = where
        self.sites = []     # (line, callee, [[classes of try1], [classes of try2], ...] innermost first)
        self.returns = []   # (line, shape)
        self.raises = []    # (line, exception text, stack)
        self.dict_vars = {}  # name -> keys of the dict literal it was initialised with (top-level assignment)

    def _walk(self, node):
        """ast.walk without the (never evaluated) annotation of a local AnnAssign."""
        if isinstance(node, ast.AnnAssign):
            for part in (node.target, node.value):
                if part is not None:
                    yield from ast.walk(part)
        else:
            yield from ast.walk(node)

    def expr_calls(self, node, stack):
        calls = [n for n in self._walk(node) if isinstance(n, ast.Call)]
        for n in self._walk(node):
            if isinstance(n, (ast.Lambda, ast.Yield, ast.YieldFrom)):
                raise TranslateError(f"{self.where}: {type(n).__name__} at line {n.lineno} is not understood")
        calls.sort(key=lambda c: (c.end_lineno, c.end_col_offset))   # inner calls complete first
        for c in calls:
            self.sites.append((c.lineno, ast.unparse(c.func), [list(x) for x in stack]))
        # implicit operations that may raise: subscripts on non-literal containers are recorded as pseudo-sites
        for n in self._walk(node):
            if isinstance(n, ast.Subscript) and isinstance(n.ctx, ast.Load):
                self.sites.append((n.lineno, "<subscript>" + ast.unparse(n.value), [list(x) for x in stack]))

    def ret_shape(self, v):
        if v is None:
            return "none"
        if isinstance(v, ast.Dict):
            keys = []
            for k in v.keys:
                if k is None:
                    continue    # **spread
                need(isinstance(k, ast.Constant) and isinstance(k.value, str), f"{self.where}: non-literal dict key in return")
                keys.append(k.value)
            return "dict:" + ",".join(keys)
        if isinstance(v, ast.Call) and isinstance(v.func, ast.Attribute) and isinstance(v.func.value, ast.Name) \
                and v.func.value.id == "self":
            return "helper:" + v.func.attr
        if isinstance(v, ast.Name):
            return "var:" + v.id
        return "other:" + ast.unparse(v)[:60]

    def body(self, stmts, stack):
        for st in stmts:
            self.stmt(st, stack)

    def stmt(self, st, stack):
        if isinstance(st, ast.Try):
            need(not st.finalbody or True, "")
            classes = []
            for h in st.handlers:
                classes += _handler_classes(h)
            self.body(st.body, [classes] + stack)
            for h in st.handlers:
                self.body(h.body, stack)          # NOT protected by this try
            self.body(st.orelse, stack)           # else: not protected by this try's handlers
            self.body(st.finalbody, stack)
            return
        if isinstance(st, ast.If):
            self.expr_calls(st.test, stack)
            self.body(st.body, stack)
            self.body(st.orelse, stack)
            return
        if isinstance(st, (ast.For, ast.AsyncFor)):
            self.expr_calls(st.iter, stack)
            self.body(st.body, stack)
            self.body(st.orelse, stack)
            return
        if isinstance(st, ast.While):
            self.expr_calls(st.test, stack)
            self.body(st.body, stack)
            self.body(st.orelse, stack)
            return
        if isinstance(st, (ast.With, ast.AsyncWith)):
            for it in st.items:
                self.expr_calls(it.context_expr, stack)
            self.body(st.body, stack)
            return
        if isinstance(st, ast.Return):
            if st.value is not None:
                self.expr_calls(st.value, stack)
            self.returns.append((st.lineno, self.ret_shape(st.value)))
            return
        if isinstance(st, ast.Raise):
            if st.exc is not None:
                self.expr_calls(st.exc, stack)
            txt = "<reraise>" if st.exc is None else ast.unparse(st.exc.func if isinstance(st.exc, ast.Call) else st.exc)
            self.raises.append((st.lineno, txt, [list(x) for x in stack]))
            return
        if isinstance(st, (ast.Assign, ast.AnnAssign, ast.AugAssign, ast.Expr, ast.Assert, ast.Delete)):
            self.expr_calls(st, stack)
            if isinstance(st, (ast.Assign, ast.AnnAssign)):
                tgt = st.targets[0] if isinstance(st, ast.Assign) else st.target
                if isinstance(tgt, ast.Name) and isinstance(st.value, ast.Dict):
                    keys = [k.value for k in st.value.keys if isinstance(k, ast.Constant) and isinstance(k.value, str)]
                    if tgt.id in self.dict_vars:
                        self.dict_vars[tgt.id] = [k for k in self.dict_vars[tgt.id] if k in keys]
                    else:
                        self.dict_vars[tgt.id] = keys
                elif isinstance(tgt, ast.Name) and tgt.id in self.dict_vars:
                    # re-bound to something that is not a dict literal: its keys are no longer known
                    self.dict_vars[tgt.id] = []
            if isinstance(st, ast.Delete):
                for t in st.targets:
                    if isinstance(t, ast.Subscript) and isinstance(t.value, ast.Name) and t.value.id in self.dict_vars:
                        self.dict_vars[t.value.id] = []
            return
        if isinstance(st, (ast.Pass, ast.Break, ast.Continue, ast.Import, ast.ImportFrom)):
            return
        raise TranslateError(f"{self.where}: statement {type(st).__name__} at line {st.lineno} is not understood")


def _coq_stack(stack):
    return coq_list([coq_strlist(x) for x in stack], "(list (list N))")


def _flow_of(fn, where):
    fl = _Flow(where)
    fl.body(_strip_doc(fn.body), [])
    # `del result[...]` / result.pop / result.clear anywhere would invalidate the key knowledge
    for n in ast.walk(fn):
        if isinstance(n, ast.Call) and isinstance(n.func, ast.Attribute) and isinstance(n.func.value, ast.Name) \
                and n.func.value.id in fl.dict_vars and n.func.attr in ("pop", "clear", "popitem"):
            fl.dict_vars[n.func.value.id] = []
    return fl


def _cmt(text, stack):
    t = text.replace("(*", "( *").replace("*)", "* )").replace('"', "'")
    st = " <- ".join("try[" + ",".join(x) + "]" for x in stack)
    return "(* " + t[:70] + ((" | " + st) if st else "") + " *)"


def _with_ord(sites):
    seen = {}
    out = []
    for ln, callee, stack in sites:
        k = seen.get(callee, 0)
        seen[callee] = k + 1
        out.append((ln, callee, k, stack))
    return out


def _emit_flow(name, fl):
    sites = [f"{_cmt(callee, stack)} mkSite {ln} {coq_str(callee)} {k} {_coq_stack(stack)}"
             for ln, callee, k, stack in _with_ord(fl.sites)]
    rets = [f"{_cmt(shape, [])} ({ln}, {coq_str(shape)})" for ln, shape in fl.returns]
    raises = [f"mkSite {ln} {coq_str(txt)} {k} {_coq_stack(stack)}"
              for ln, txt, k, stack in _with_ord([(ln, 'raise ' + t, stack) for ln, t, stack in fl.raises])]
    dvars = [f"({coq_str(k)}, {coq_strlist(v)})" for k, v in sorted(fl.dict_vars.items())]
    return (f"Definition {name}_sites : list site :=\n  {coq_list(sites, 'site')}.\n"
            f"Definition {name}_raises : list site :=\n  {coq_list(raises, 'site')}.\n"
            f"Definition {name}_returns : list (N * list N) :=\n  {coq_list(rets, '(N * list N)')}.\n"
            f"Definition {name}_dict_vars : list (list N * list (list N)) :=\n  {coq_list(dvars, '(list N * list (list N))')}.\n")


def _call_arg_sources(fn, callee, where):
    """For every statement `x = <callee>(ARG, ...)` / `<callee>(ARG, ...)` of fn (source order): the expression ARG was
    assigned from -- ARG must be a plain local name whose LAST assignment before the call is a simple `ARG = <expr>` in
    the SAME statement list with no other statement in between that mentions ARG (so nothing can have mutated or
    re-bound it).  -> [source text of <expr>].  Anything else is a TranslateError (fail closed)."""
    out = []

    def mentions(node, name):
        return any(isinstance(n, ast.Name) and n.id == name for n in ast.walk(node))

    def has_call(node):
        return [c for c in ast.walk(node) if isinstance(c, ast.Call) and ast.unparse(c.func) == callee]

    def lists(node):
        for f in ("body", "orelse", "finalbody"):
            b = getattr(node, f, None)
            if isinstance(b, list) and b and isinstance(b[0], ast.stmt):
                yield b
        for h in getattr(node, "handlers", []) or []:
            yield h.body

    def visit(stmts):
        for i, st in enumerate(stmts):
            compound = isinstance(st, (ast.If, ast.For, ast.AsyncFor, ast.While, ast.Try, ast.With, ast.AsyncWith))
            if compound:
                heads = [getattr(st, "test", None), getattr(st, "iter", None)] + [it.context_expr for it in getattr(st, "items", [])]
                for h in heads:
                    need(h is None or not has_call(h), f"{where}: {callee} inside the head of a compound statement (line {st.lineno})")
                for b in lists(st):
                    visit(b)
                continue
            for c in sorted(has_call(st), key=lambda c: (c.end_lineno, c.end_col_offset)):
                need(c.args and isinstance(c.args[0], ast.Name), f"{where}: first argument of {callee} at line {c.lineno} is not a local name")
                name = c.args[0].id
                src_expr = None
                for j in range(i - 1, -1, -1):
                    pj = stmts[j]
                    if isinstance(pj, ast.Assign) and len(pj.targets) == 1 and isinstance(pj.targets[0], ast.Name) and pj.targets[0].id == name:
                        src_expr = ast.unparse(pj.value)
                        break
                    need(not mentions(pj, name), f"{where}: `{name}` is used between its assignment and {callee} (line {pj.lineno})")
                need(src_expr is not None, f"{where}: no assignment of `{name}` before {callee} at line {c.lineno} in the same block")
                out.append(src_expr)
    visit(_strip_doc(fn.body))
    return out


def _gen_exnflow(src):
    out = [HEADER, "From OV Require Import Tools.ExnFlowLang.\n\n"]
    helpers = []
    for short, rel, cls in TOOLS:
        mod = parse_file(src / rel)
        fn = find_def(mod, "execute", cls)
        need(isinstance(fn, ast.AsyncFunctionDef), f"{cls}.execute is not async")
        fl = _flow_of(fn, f"{cls}.execute")
        need(fl.returns, f"{cls}.execute has no return")
        out.append(f"(* ---- {cls}.execute ({rel}) ---- *)\n")
        out.append(_emit_flow(f"flow_{short}", fl))
        if short == "eject":
            # what json.dumps is applied to: (ordinal of the json.dumps site, source of the expression its argument was
            # assigned from).  ExnFlow.benign_sites whitelists json.dumps#0 BECAUSE this is _ast_to_dict(...) (C14_dict_native)
            args = _call_arg_sources(fn, "json.dumps", f"{cls}.execute")
            need(len(args) == sum(1 for _, c, _ in fl.sites if c == "json.dumps"), f"{cls}.execute: json.dumps sites and argument sources disagree")
            for nm in ("_ast_to_dict", "_convert_value", "_convert_block"):
                find_def(mod, nm)     # exactly one module-level def ...
                for n in ast.walk(mod):   # ... and never re-bound / imported under that name
                    if isinstance(n, (ast.Import, ast.ImportFrom)):
                        need(all((a.asname or a.name) != nm for a in n.names), f"{rel}: {nm} is also imported")
                    if isinstance(n, (ast.Assign, ast.AnnAssign, ast.AugAssign)):
                        tg = n.targets if isinstance(n, ast.Assign) else [n.target]
                        need(all(not (isinstance(t, ast.Name) and t.id == nm) for t in tg), f"{rel}: {nm} is re-bound")
            items = [f"({k}, {coq_str(a)})" for k, a in enumerate(args)]
            out.append("(* argument provenance of the json.dumps sites of EjectTool.execute *)\n")
            out.append(f"Definition flow_eject_json_dumps_args : list (N * list N) :=\n  {coq_list(items, '(N * list N)')}.\n")
        # helper envelopes used in returns
        for _, shape in fl.returns:
            if shape.startswith("helper:"):
                h = shape[len("helper:"):]
                hf = find_def(mod, h, cls)
                hfl = _flow_of(hf, f"{cls}.{h}")
                keys = None
                for _, hs in hfl.returns:
                    if hs.startswith("dict:"):
                        ks = hs[len("dict:"):].split(",")
                    elif hs.startswith("var:") and hs[4:] in hfl.dict_vars:
                        ks = hfl.dict_vars[hs[4:]]
                    else:
                        raise TranslateError(f"{cls}.{h}: return shape {hs} is not understood")
                    keys = ks if keys is None else [k for k in keys if k in ks]
                need(keys is not None, f"{cls}.{h} has no return")
                entry = (short, h, tuple(keys), tuple((ln, c, tuple(map(tuple, stk))) for ln, c, stk in hfl.sites))
                if entry not in helpers:
                    helpers.append(entry)
    hitems = [f"({coq_str(t)}, {coq_str(h)}, {coq_strlist(list(keys))})" for t, h, keys, _ in helpers]
    out.append("(* envelope helpers: (tool, helper, keys present in every returned dict) *)\n")
    out.append(f"Definition flow_helpers : list (list N * list N * list (list N)) :=\n  {coq_list(hitems)}.\n")
    for t, h, _, sites in helpers:
        items = [f"mkSite {ln} {coq_str(c)} {k} {_coq_stack(stk)}"
                 for ln, c, k, stk in _with_ord([(ln, c, [list(x) for x in stk]) for ln, c, stk in sites])]
        out.append(f"Definition flow_{t}_helper_{h.strip('_')}_sites : list site :=\n  {coq_list(items, 'site')}.\n")
    # server.handle_call_tool
    smod = parse_file(src / "mcp" / "server.py")
    cs = find_def(smod, "create_server")
    hs = [n for n in ast.walk(cs) if isinstance(n, ast.AsyncFunctionDef) and n.name == "handle_call_tool"]
    need(len(hs) == 1, "server.handle_call_tool not found exactly once")
    sfl = _flow_of(hs[0], "server.handle_call_tool")
    out.append("(* ---- server.handle_call_tool ---- *)\n")
    out.append(_emit_flow("flow_server", sfl))
    out.append(f"Definition flow_tools : list (list N * list site * list (N * list N) * list (list N * list (list N))) :=\n  "
               + coq_list([f"({coq_str(s)}, flow_{s}_sites, flow_{s}_returns, flow_{s}_dict_vars)" for s, _, _ in TOOLS]) + ".\n")
    return "".join(out)


def generate(src):
    return {"ParserLoopsGen.v": _gen_parser_loops(src), "ExnFlowGen.v": _gen_exnflow(src)}


# ======================================================================================================
# self-test (run by hand / thorough tier):  python -m translate.exnflow_t
#   mutates a COPY of the source tree, re-runs the translator on it and compiles the obligations against the
#   mutated Gen files in a scratch directory; reports which lemma stops compiling.  /repo is never touched.
# ======================================================================================================
def _mutations():
    def rep(old, new, count=1):
        def f(txt):
            assert txt.count(old) >= 1, f"mutation anchor not found: {old[:50]!r}"
            return txt.replace(old, new, count)
        return f

    def untry(call_text):
        """replace the first `try` whose body contains `call_text` by its body."""
        def f(txt):
            mod = ast.parse(txt)
            done = [False]

            class T(ast.NodeTransformer):
                def visit_Try(self, node):
                    self.generic_visit(node)
                    if not done[0] and any(call_text in ast.unparse(s) for s in node.body) \
                            and not any(isinstance(s, ast.Try) and call_text in ast.unparse(s) for s in node.body):
                        done[0] = True
                        return node.body
                    return node
            mod = T().visit(mod)
            assert done[0], f"no try around {call_text}"
            return ast.unparse(ast.fix_missing_locations(mod))
        return f

    return [
        ("M1 validate: try around parse_with_warnings removed", "mcp/validate.py", untry("parse_with_warnings(content)"), "validate_only_escape_is_path_exists"),
        ("M2 write: try around tokenize removed", "mcp/write.py", untry("tokenize(parse_input)"), "escapes_are_the_known_ones"),
        ("M3 compile_grammar: try around parse removed", "mcp/compile_grammar.py", untry("doc = parse(content)"), "escapes_are_the_known_ones"),
        ("M4 eject: json.dumps no longer applied to the output of _ast_to_dict", "mcp/eject.py",
         rep("            data = _ast_to_dict(result.filtered_doc)\n            output = json.dumps(",
             "            data = result.filtered_doc.meta\n            output = json.dumps("), "eject_json_dumps_argument"),
        ("M4b eject: a second json.dumps (of the raw META) outside any try", "mcp/eject.py",
         rep("            data = _ast_to_dict(result.filtered_doc)\n            output = json.dumps(data, indent=2, ensure_ascii=False)\n",
             "            data = _ast_to_dict(result.filtered_doc)\n            output = json.dumps(data, indent=2, ensure_ascii=False)\n"
             "            meta = result.filtered_doc.meta\n            output += json.dumps(meta)\n"), "eject_only_escape_is_gbnf_contract"),
        ("M4c eject: the converted dict is touched between _ast_to_dict and json.dumps", "mcp/eject.py",
         rep("            data = _ast_to_dict(result.filtered_doc)\n            output = json.dumps(",
             "            data = _ast_to_dict(result.filtered_doc)\n            data['RAW'] = result.filtered_doc\n            output = json.dumps("),
         "TranslateError"),
        ("M5 validate: a return without status", "mcp/validate.py",
         rep("        if content is None and file_path is None:\n",
             "        if content == 'x':\n            return {'canonical': content}\n        if content is None and file_path is None:\n"),
         "envelopes_have_status"),
        ("M6 validate: new unclassified call outside any try", "mcp/validate.py",
         rep("        schema_def = get_builtin_schema(schema_name)\n",
             "        schema_def = get_builtin_schema(schema_name)\n        frobnicate(doc)\n"), "validate_only_escape_is_path_exists"),
        ("M7 write: handler of the lenient parse narrowed to ValueError", "mcp/write.py",
         rep("                    corrections.extend(self._map_parse_warnings_to_corrections(parse_warnings))\n                except Exception as e:",
             "                    corrections.extend(self._map_parse_warnings_to_corrections(parse_warnings))\n                except ValueError as e:"),
         "escapes_are_the_known_ones"),
        ("H1 parser: HARMLESS edit -- 7 comment lines inserted above class Parser and 3 inside parse_document (every line shifts)",
         "core/parser.py",
         lambda txt: rep("class Parser:", "# shift\n" * 7 + "class Parser:")(
             rep("            if self.current().type == TokenType.NEWLINE:\n                self.advance()\n                continue\n\n            # Parse section",
                 "            # shift\n            # shift\n            # shift\n            if self.current().type == TokenType.NEWLINE:\n                self.advance()\n                continue\n\n            # Parse section")(txt)),
         "all obligations still hold"),
        ("H2 parser: a new (consuming) while inserted BEFORE the item loop of parse_list (ids of that method shift)", "core/parser.py",
         rep("        self._check_deep_nesting(bracket_token)\n\n        items: list[Any] = []",
             "        self._check_deep_nesting(bracket_token)\n\n        while self.current().type == TokenType.NEWLINE:\n            self.advance()\n\n        items: list[Any] = []"),
         "parser_loops_ok_without_calls"),
        ("P1 parser: advance() dropped from the NEWLINE branch of parse_document", "core/parser.py",
         rep("            if self.current().type == TokenType.NEWLINE:\n                self.advance()\n                continue\n\n            # Parse section (assignment or block) with pending comments",
             "            if self.current().type == TokenType.NEWLINE:\n                continue\n\n            # Parse section (assignment or block) with pending comments"),
         "parser_loops_consume"),
        ("P2 parser: EOF conjunct dropped from a bracket-skipping guard", "core/parser.py",
         rep("            while bracket_depth > 0 and self.current().type != TokenType.EOF:\n                if self.current().type == TokenType.LIST_START:\n                    bracket_depth += 1\n                elif self.current().type == TokenType.LIST_END:\n                    bracket_depth -= 1\n                self.advance()\n            return None\n\n        # Capture mode",
             "            while bracket_depth > 0:\n                if self.current().type == TokenType.LIST_START:\n                    bracket_depth += 1\n                elif self.current().type == TokenType.LIST_END:\n                    bracket_depth -= 1\n                self.advance()\n            return None\n\n        # Capture mode"),
         "parser_loops_ok"),
        ("P3 parser: MAX_NESTING_DEPTH raised", "core/parser.py", rep("MAX_NESTING_DEPTH = 100", "MAX_NESTING_DEPTH = 100000"), "pin_parser_max_nesting_depth"),
        ("P4 parser: advance() no longer clamps", "core/parser.py",
         rep("        if self.pos < len(self.tokens) - 1:\n            self.pos += 1\n        return token", "        self.pos += 1\n        return token"),
         "pin_parser_advance_src"),
        ("P5 parser: backtracking write to self.pos", "core/parser.py",
         rep("        token = self.current()\n\n        if token.type == TokenType.STRING:", "        token = self.current()\n        self.pos = 0\n\n        if token.type == TokenType.STRING:"),
         "TranslateError"),
        ("P6 parser: EOF exit test dropped from the parse_list loop", "core/parser.py",
         rep("            if self.current().type in (TokenType.LIST_END, TokenType.EOF, TokenType.ENVELOPE_END):\n                break\n\n            # Parse item value",
             "            if self.current().type in (TokenType.LIST_END, TokenType.ENVELOPE_END):\n                break\n\n            # Parse item value"),
         "parser_loops_ok"),
        ("P7 parser: nesting check moved after the loop (prologue changed)", "core/parser.py",
         rep("        self._check_deep_nesting(bracket_token)\n\n        items: list[Any] = []", "        items: list[Any] = []"),
         "pin_parser_parse_list_prologue"),
    ]


def selftest(verbose=True):
    import shutil
    import subprocess
    import tempfile
    from pathlib import Path
    verif = Path(__file__).resolve().parents[2]
    th = verif / "coq" / "theories"
    src = Path("/repo/src/octave_mcp")
    results = []
    for title, rel, mut, expect in _mutations():
        d = Path(tempfile.mkdtemp(prefix="c20mut"))
        try:
            tree = d / "octave_mcp"
            shutil.copytree(src, tree, ignore=shutil.ignore_patterns("__pycache__"))
            (tree / rel).write_text(mut((tree / rel).read_text()))
            try:
                files = generate(tree)
            except TranslateError as e:
                got = "TranslateError"
                results.append((title, expect, got, got == expect, str(e)[:120]))
                continue
            t = d / "T"
            t.mkdir()
            for fname, text in files.items():
                (t / fname).write_text(text)
            # copies of the obligation files, re-pointed at the mutated Gen files
            for name in ("ExnFlowPinsParser", "ExnFlowLoopsObl", "ExnFlow"):
                txt = (th / "Tools" / f"{name}.v").read_text()
                extra = []
                for lib in ("Gen.ParserLoopsGen", "Gen.ExnFlowGen", "Tools.ExnFlowPinsParser"):
                    if lib in txt:
                        txt = txt.replace(" " + lib, "")
                        extra.append(f"From T Require Import {lib.split('.')[1]}.")
                txt = txt.replace("From OV Require Import.", "")
                # insert the re-pointed imports after the last `Require Import` line of the header
                lines = txt.split("\n")
                last = max(i for i, ln in enumerate(lines[:40]) if "Require Import" in ln or ln.startswith("  Tools."))
                lines[last + 1:last + 1] = extra
                txt = "\n".join(lines)
                (t / f"{name}.v").write_text(txt)
            got = "all obligations still hold"
            detail = ""
            for f in ("ParserLoopsGen", "ExnFlowGen", "ExnFlowPinsParser", "ExnFlowLoopsObl", "ExnFlow"):
                p = subprocess.run(["timeout", "300", "coqc", "-Q", str(th), "OV", "-Q", str(t), "T", "-w", "none", str(t / f"{f}.v")],
                                   cwd=d, stdout=subprocess.PIPE, stderr=subprocess.STDOUT, text=True)
                if p.returncode != 0:
                    m = __import__("re").search(r'line (\d+), characters', p.stdout)
                    ln = int(m.group(1)) if m else 0
                    lines = (t / f"{f}.v").read_text().splitlines()
                    lemma = "?"
                    for k in range(min(ln, len(lines)) - 1, -1, -1):
                        mm = __import__("re").match(r"\s*(?:Lemma|Theorem)\s+(\w+)", lines[k])
                        if mm:
                            lemma = mm.group(1)
                            break
                    got = lemma
                    detail = p.stdout.strip().splitlines()[-1][:120] if p.stdout.strip() else ""
                    break
            results.append((title, expect, got, got == expect, detail))
        finally:
            shutil.rmtree(d, ignore_errors=True)
    if verbose:
        for title, expect, got, ok, detail in results:
            print(("ok   " if ok else "MISS ") + f"{title}: expected break at {expect}; got {got}  {detail}")
    return results


if __name__ == "__main__":
    import sys
    rs = selftest()
    sys.exit(0 if all(r[3] for r in rs) else 1)
