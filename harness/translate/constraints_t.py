"""constraints.py / validator.py / mcp/validate.py -> Gen/ConstraintsGen.v

Extracted (fail closed):
  * per *Constraint class: the error-code literals of `evaluate` in source order           (CONSUMED by Cst/Constraints.v)
  * per *Constraint class: the control-flow skeleton of `evaluate` (messages dropped)      (PINNED  by Cst/Pins_Constraints.v)
  * TYPE type_map  (name -> python type names)                                             (CONSUMED)
  * DATE regex text                                                                        (PINNED; hand scanner date_shape)
  * ConstraintChain.evaluate / detect_conflicts / _split_parts / parse / _parse_atom skeletons   (PINNED)
  * parse dispatch table: (kind, prefix, suffix, slice offset, class) in if-chain order    (CONSUMED by Cst/ChainParse.v)
  * conflict code of ConstraintChain.evaluate                                              (CONSUMED)
  * validator.py: skeletons of _validate_unknown_fields/_validate_section, (policy, code, severity) table,
    missing-REQ code, default policy                                                       (CONSUMED / PINNED)
  * mcp/validate.py: whether the tool looks at `severity` at all                           (PINNED; finding C08-warn-invalid)
"""
import ast
import copy

from .tlib import HEADER, TranslateError, coq_list, coq_str, coq_strlist, find_def, need, parse_file

OUTPUTS = ["ConstraintsGen.v"]

CLASSES = ["RequiredConstraint", "OptionalConstraint", "ConstConstraint", "EnumConstraint", "TypeConstraint",
           "RegexConstraint", "DirConstraint", "AppendOnlyConstraint", "RangeConstraint", "MaxLengthConstraint",
           "MinLengthConstraint", "DateConstraint", "Iso8601Constraint", "LiteralConstraint", "LangConstraint"]

DROP_KW = {"message", "expected", "got", "constraint", "reason", "constraint1", "constraint2"}


class _Skel(ast.NodeTransformer):
    """Drop message-like keyword arguments of error constructors and the arguments of raised exceptions."""

    def visit_Call(self, node):
        self.generic_visit(node)
        fn = ast.unparse(node.func)
        if fn in ("ValidationError", "ConstraintConflictError", "SchemaExtractionWarning"):
            need(not node.args, f"{fn} called with positional arguments")
            node.keywords = [k for k in node.keywords if k.arg not in DROP_KW]
        return node

    def visit_Raise(self, node):
        if node.exc is not None and isinstance(node.exc, ast.Call):
            node = ast.Raise(exc=ast.Name(id=ast.unparse(node.exc.func), ctx=ast.Load()), cause=None)
        return node


def _strip_doc(body):
    return [s for s in body if not (isinstance(s, ast.Expr) and isinstance(s.value, ast.Constant)
                                    and isinstance(s.value.value, str))]


def skeleton(fn: ast.FunctionDef) -> str:
    f = copy.deepcopy(fn)
    for n in ast.walk(f):
        if isinstance(n, (ast.FunctionDef, ast.AsyncFunctionDef, ast.For, ast.While, ast.If, ast.Try, ast.With)):
            for attr in ("body", "orelse", "finalbody"):
                if hasattr(n, attr) and isinstance(getattr(n, attr), list):
                    new = _strip_doc(getattr(n, attr))
                    if attr == "body" and not new:
                        new = [ast.Pass()]
                    setattr(n, attr, new)
    f.returns = None
    f.decorator_list = []
    for a in f.args.args + f.args.kwonlyargs:
        a.annotation = None
    f = _Skel().visit(f)
    ast.fix_missing_locations(f)
    txt = ast.unparse(f)
    # annotations of local variables are irrelevant
    return txt


class _Codes(ast.NodeVisitor):
    def __init__(self, allow_forwarded):
        self.codes = []
        self.allow_forwarded = allow_forwarded

    def visit_Call(self, node):
        if ast.unparse(node.func) == "ValidationError":
            kw = {k.arg: k.value for k in node.keywords}
            if self.allow_forwarded and "code" in kw and ast.unparse(kw["code"]) == "error.code":
                self.codes.append("<forwarded>")
            else:
                need("code" in kw and isinstance(kw["code"], ast.Constant) and isinstance(kw["code"].value, str),
                     "ValidationError without literal code")
                self.codes.append(kw["code"].value)
        self.generic_visit(node)


def codes_of(fn, allow_forwarded=False):
    v = _Codes(allow_forwarded)
    v.visit(fn)
    return v.codes


def _type_map(fn):
    for n in ast.walk(fn):
        tgt = None
        if isinstance(n, ast.AnnAssign) and isinstance(n.target, ast.Name) and n.target.id == "type_map":
            tgt = n.value
        elif isinstance(n, ast.Assign) and len(n.targets) == 1 and isinstance(n.targets[0], ast.Name) \
                and n.targets[0].id == "type_map":
            tgt = n.value
        if tgt is not None:
            need(isinstance(tgt, ast.Dict), "type_map is not a dict literal")
            out = []
            for k, v in zip(tgt.keys, tgt.values):
                need(isinstance(k, ast.Constant) and isinstance(k.value, str), "type_map key not a literal")
                if isinstance(v, ast.Name):
                    tys = [v.id]
                elif isinstance(v, ast.Tuple) and all(isinstance(x, ast.Name) for x in v.elts):
                    tys = [x.id for x in v.elts]
                else:
                    raise TranslateError("type_map value not a type name / tuple of names")
                for t in tys:
                    need(t in ("str", "int", "float", "bool", "list", "dict"), f"type_map: python type {t} not modelled")
                out.append((k.value, tys))
            return out
    raise TranslateError("type_map not found in TypeConstraint.evaluate")


def _date_regex(fn):
    found = []
    for n in ast.walk(fn):
        if isinstance(n, ast.Call) and ast.unparse(n.func) == "re.match":
            need(len(n.args) == 2 and isinstance(n.args[0], ast.Constant) and not n.keywords, "re.match shape in DATE")
            found.append(n.args[0].value)
    need(len(found) == 1, "DATE: expected exactly one re.match")
    return found[0]


def _parse_table(fn):
    """The if/elif dispatch of ConstraintChain.parse -> [(kind, prefix, suffix, offset, class)]."""
    loops = [n for n in fn.body if isinstance(n, ast.For)]
    need(len(loops) == 1, "parse: expected one for-loop")
    body = _strip_doc(loops[0].body)
    need(len(body) == 2 and ast.unparse(body[0]) == "part = part.strip()" and isinstance(body[1], ast.If),
         "parse: loop body shape")
    cur = body[1]
    table = []
    while True:
        t = cur.test
        classes = [ast.unparse(c.func) for c in ast.walk(ast.Module(body=cur.body, type_ignores=[]))
                   if isinstance(c, ast.Call) and ast.unparse(c.func).endswith("Constraint")]
        need(len(classes) == 1, f"parse: branch {ast.unparse(t)[:40]} builds {classes}")
        if isinstance(t, ast.Compare) and ast.unparse(t.left) == "part" and len(t.ops) == 1 and isinstance(t.ops[0], ast.Eq) \
                and isinstance(t.comparators[0], ast.Constant):
            table.append((0, t.comparators[0].value, "", 0, classes[0]))
        elif isinstance(t, ast.BoolOp) and isinstance(t.op, ast.And) and len(t.values) == 2:
            a, b = t.values
            need(isinstance(a, ast.Call) and ast.unparse(a.func) == "part.startswith" and isinstance(a.args[0], ast.Constant)
                 and isinstance(b, ast.Call) and ast.unparse(b.func) == "part.endswith" and isinstance(b.args[0], ast.Constant),
                 "parse: prefix/suffix test shape")
            offs = []
            for s in ast.walk(ast.Module(body=cur.body, type_ignores=[])):
                if isinstance(s, ast.Subscript) and ast.unparse(s.value) == "part" and isinstance(s.slice, ast.Slice):
                    need(isinstance(s.slice.lower, ast.Constant) and ast.unparse(s.slice.upper) == "-1", "parse: slice shape")
                    offs.append(s.slice.lower.value)
            need(len(offs) == 1, "parse: expected one part[k:-1] slice per branch")
            table.append((1, a.args[0].value, b.args[0].value, offs[0], classes[0]))
        else:
            raise TranslateError(f"parse: unexpected test {ast.unparse(t)[:60]}")
        if len(cur.orelse) == 1 and isinstance(cur.orelse[0], ast.If):
            cur = cur.orelse[0]
        else:
            need(len(cur.orelse) == 1 and isinstance(cur.orelse[0], ast.Raise), "parse: final else must raise")
            break
    return table


def _unknown_table(fn):
    """_validate_unknown_fields: [(policy member, code, severity)] from `if policy == UnknownFieldPolicy.X` branches."""
    out = []
    for n in ast.walk(fn):
        if isinstance(n, ast.If) and isinstance(n.test, ast.Compare) and ast.unparse(n.test.left) == "policy":
            pol = ast.unparse(n.test.comparators[0])
            need(pol.startswith("UnknownFieldPolicy."), "unknown-fields policy test shape")
            errs = []
            for c in ast.walk(ast.Module(body=n.body, type_ignores=[])):
                if isinstance(c, ast.Call) and ast.unparse(c.func) == "ValidationError":
                    kw = {k.arg: k.value for k in c.keywords}
                    need(isinstance(kw.get("code"), ast.Constant) and isinstance(kw.get("severity"), ast.Constant),
                         "unknown-fields ValidationError needs literal code and severity")
                    need(ast.unparse(kw.get("field_path")) == "f'{section_key}.{field_name}'", "unknown-fields field_path shape")
                    errs.append((kw["code"].value, kw["severity"].value))
            need(len(errs) == 1, "unknown-fields: one error constructor per policy branch")
            out.append((pol.split(".")[1], errs[0][0], errs[0][1]))
    need(len(out) >= 2, "unknown-fields: policy branches not found")
    return out


def generate(src):
    mod = parse_file(src / "core" / "constraints.py")
    out = [HEADER]
    codes, skels = [], []
    for cls in CLASSES:
        ev = find_def(mod, "evaluate", cls)
        codes.append((cls, codes_of(ev)))
        skels.append((cls, skeleton(ev)))
    # every Constraint subclass of the module must be known (a new kind must be modelled)
    subs = [n.name for n in mod.body if isinstance(n, ast.ClassDef) and any(ast.unparse(b) == "Constraint" for b in n.bases)]
    need(sorted(subs) == sorted(CLASSES), f"constraint classes changed: {sorted(set(subs) ^ set(CLASSES))}")
    out.append("(* error-code literals of each evaluate(), in source order *)\n")
    out.append("Definition cst_codes : list (list N * list (list N)) :=\n  " +
               coq_list([f"({coq_str(c)}, {coq_strlist(cs)})" for c, cs in codes]) + ".\n")
    out.append("(* control-flow skeleton of each evaluate() (ast.unparse, message-like arguments dropped) *)\n")
    out.append("Definition cst_eval_skeletons : list (list N * list N) :=\n  " +
               coq_list([f"({coq_str(c)}, {coq_str(s)})" for c, s in skels]) + ".\n")
    tm = _type_map(find_def(mod, "evaluate", "TypeConstraint"))
    out.append("Definition cst_type_map : list (list N * list (list N)) :=\n  " +
               coq_list([f"({coq_str(k)}, {coq_strlist(v)})" for k, v in tm]) + ".\n")
    out.append(f"Definition cst_date_regex : list N := {coq_str(_date_regex(find_def(mod, 'evaluate', 'DateConstraint')))}.\n")
    chain_ev = find_def(mod, "evaluate", "ConstraintChain")
    cc = codes_of(chain_ev)
    need(len(cc) == 1, "ConstraintChain.evaluate: expected one conflict code")
    out.append(f"Definition cst_conflict_code : list N := {coq_str(cc[0])}.\n")
    for name, fn in (("chain_evaluate", chain_ev),
                     ("detect_conflicts", find_def(mod, "detect_conflicts", "ConstraintChain")),
                     ("split_parts", find_def(mod, "_split_parts", "ConstraintChain")),
                     ("parse", find_def(mod, "parse", "ConstraintChain")),
                     ("parse_atom", find_def(mod, "_parse_atom"))):
        out.append(f"Definition cst_skel_{name} : list N := {coq_str(skeleton(fn))}.\n")
    pt = _parse_table(find_def(mod, "parse", "ConstraintChain"))
    out.append("(* parse dispatch: (0 = equality | 1 = startswith/endswith, prefix, suffix, slice start, class) in if-chain order *)\n")
    out.append("Definition cst_parse_table : list (N * list N * list N * N * list N) :=\n  " +
               coq_list([f"({k}, {coq_str(p)}, {coq_str(s)}, {o}, {coq_str(c)})" for k, p, s, o, c in pt]) + ".\n")
    # ---- validator.py (document level) ----
    vmod = parse_file(src / "core" / "validator.py")
    uf = find_def(vmod, "_validate_unknown_fields", "Validator")
    vs = find_def(vmod, "_validate_section", "Validator")
    ut = _unknown_table(uf)
    out.append("(* _validate_unknown_fields: (policy, code, severity); any other policy value produces nothing *)\n")
    out.append("Definition val_unknown_table : list (list N * list N * list N) :=\n  " +
               coq_list([f"({coq_str(p)}, {coq_str(c)}, {coq_str(s)})" for p, c, s in ut]) + ".\n")
    out.append(f"Definition val_skel_unknown_fields : list N := {coq_str(skeleton(uf))}.\n")
    out.append(f"Definition val_skel_validate_section : list N := {coq_str(skeleton(vs))}.\n")
    vcodes = codes_of(vs, allow_forwarded=True)
    need(len(vcodes) >= 1, "_validate_section: no literal error code")
    out.append(f"Definition val_section_codes : list (list N) := {coq_strlist(vcodes)}.\n")
    # default severity of validator.ValidationError
    sev = None
    for n in vmod.body:
        if isinstance(n, ast.ClassDef) and n.name == "ValidationError":
            for st in n.body:
                if isinstance(st, ast.AnnAssign) and isinstance(st.target, ast.Name) and st.target.id == "severity":
                    v = st.value
                    need(isinstance(v, ast.Call) and ast.unparse(v.func) == "field", "severity default shape")
                    kw = {k.arg: k.value for k in v.keywords}
                    need(isinstance(kw.get("default"), ast.Constant), "severity default literal")
                    sev = kw["default"].value
    need(isinstance(sev, str), "validator.ValidationError.severity default not found")
    out.append(f"Definition val_default_severity : list N := {coq_str(sev)}.\n")
    # policy enum members
    members = []
    for n in vmod.body:
        if isinstance(n, ast.ClassDef) and n.name == "UnknownFieldPolicy":
            for st in n.body:
                if isinstance(st, ast.Assign) and isinstance(st.value, ast.Constant) and isinstance(st.value.value, str):
                    members.append((st.targets[0].id, st.value.value))
    need(len(members) == 3, "UnknownFieldPolicy members")
    out.append("Definition val_policy_members : list (list N * list N) :=\n  " +
               coq_list([f"({coq_str(a)}, {coq_str(b)})" for a, b in members]) + ".\n")
    # ---- mcp/validate.py: does the tool distinguish severities at all? ----
    tsrc = (src / "mcp" / "validate.py").read_text()
    tmod = ast.parse(tsrc)
    mentions = any((isinstance(n, ast.Attribute) and n.attr == "severity") or
                   (isinstance(n, ast.Constant) and n.value == "severity") for n in ast.walk(tmod))
    out.append("(* mcp/validate.py reads the severity of validator errors somewhere *)\n")
    out.append(f"Definition tool_reads_severity : bool := {'true' if mentions else 'false'}.\n")
    return {"ConstraintsGen.v": "".join(out)}
