"""core/sealer.py (+ the `seal` / `validate --verify-seal` commands of cli/main.py) -> Gen/SealGen.v

CONSUMED by Seal/Seal.v (the model is driven by these, so a renamed field / status / literal flows into the model and
every theorem is re-checked against it):
  seal_compute_fields      compute_seal dict literal, source order: (key, (kind, prefix, suffix)); kind 0 literal,
                           1 decimal line count len(content.split(sep)), 2 hexdigest of the content
  seal_split_sep           the separator of content.split(...)
  seal_compute_optional    key set under `if grammar_version is not None`
  seal_child_fields        Assignment children of the new SEAL section, source order: (assignment key, (seal_data key, strip chars))
  seal_child_optional      (membership key, (assignment key, seal_data key)) of the conditional GRAMMAR child
  seal_new_id / seal_new_key      Section(section_id=.., key=..) built by seal_document
  seal_extract_key / seal_remove_key   the literal compared with `.key` in extract_seal / _remove_seal_section
  seal_verify_key / seal_verify_default / seal_verify_strip   seal_data.get(<key>, <default>) and .strip(<chars>)
  seal_status_missing / seal_status_equal / seal_status_differs   SealStatus member returned by each branch of verify_seal
                           (1 VERIFIED, 2 INVALID, 3 NO_SEAL)
  seal_cli_exit_rules      `octave validate --verify-seal`: (status code, needs --require-seal) pairs that exit 1
PINNED (Seal/Pins_Seal.v): which emit is called (module, name, argument), the hash call, the comparison operator, the
keyword set of the two Document(...) constructions (trailing_comments is NOT copied), the filter predicate shape,
the dict semantics of extract_seal, and the order parse -> seal_document -> emit of the CLI `seal` command.
Fail closed: every function body must match its statement template exactly (string literals are holes).
"""
import ast
import re

from .tlib import HEADER, TranslateError, coq_list, coq_str, find_def, need, parse_file

OUTPUTS = ["SealGen.v"]

LIT = r"""(?:'(?:[^'\\]|\\.)*'|"(?:[^"\\]|\\.)*")"""


def _strip_doc(fn):
    body = list(fn.body)
    if body and isinstance(body[0], ast.Expr) and isinstance(body[0].value, ast.Constant) and isinstance(body[0].value.value, str):
        body = body[1:]
    return body


def _tmpl(t):
    """template -> regex: text is literal, <name> is a string-literal hole, <~> is an ignored string literal"""
    out = []
    pos = 0
    for m in re.finditer(r"<(~|[a-z_0-9]+)>", t):
        out.append(re.escape(t[pos:m.start()]))
        out.append(LIT if m.group(1) == "~" else f"(?P<{m.group(1)}>{LIT})")
        pos = m.end()
    out.append(re.escape(t[pos:]))
    return re.compile("".join(out) + r"\Z", re.S)


DOC_KW = ("Document(name=doc.name, meta=doc.meta.copy() if doc.meta else {}, sections=%s, has_separator=doc.has_separator, "
          "raw_frontmatter=doc.raw_frontmatter, grammar_version=doc.grammar_version)")

T_COMPUTE = [
    "lines = content.split(<sep>)",
    "line_count = len(lines)",
    "hash_value = hashlib.sha256(content.encode('utf-8')).hexdigest()",
    None,   # the dict literal, handled structurally
    "if grammar_version is not None:\n    seal[<gkey>] = grammar_version",
    "return seal",
]
T_SEAL = [
    "doc_without_seal = _remove_seal_section(doc)",
    "canonical_content = emit(doc_without_seal)",
    "seal_data = compute_seal(canonical_content, doc.grammar_version)",
    None,   # the children list, handled structurally
    "if <gin> in seal_data:\n    seal_children.append(Assignment(key=<gchild>, value=seal_data[<gget>]))",
    "seal_section = Section(section_id=<sid>, key=<skey>, children=seal_children)",
    "sealed_doc = " + DOC_KW % "list(doc_without_seal.sections) + [seal_section]",
    "return sealed_doc",
]
T_EXTRACT = [
    "for section in doc.sections:\n    if isinstance(section, Section) and section.key == <xkey>:\n"
    "        seal_data: dict[str, Any] = {}\n        for child in section.children:\n"
    "            if isinstance(child, Assignment):\n                seal_data[child.key] = child.value\n"
    "        return seal_data if seal_data else None",
    "return None",
]
T_VERIFY = [
    "seal_data = extract_seal(doc)",
    None,   # no-seal branch (status extracted)
    "stored_hash = seal_data.get(<vkey>, <vdefault>)",
    "if isinstance(stored_hash, str):\n    stored_hash = stored_hash.strip(<vstrip>)",
    "doc_without_seal = _remove_seal_section(doc)",
    "canonical_content = emit(doc_without_seal)",
    "computed_hash = hashlib.sha256(canonical_content.encode('utf-8')).hexdigest()",
    None,   # comparison (statuses extracted)
]
T_REMOVE = [
    "filtered_sections = [s for s in doc.sections if not (isinstance(s, Section) and s.key == <rkey>)]",
    "return " + DOC_KW % "filtered_sections",
]

STATUS_CODE = {"VERIFIED": 1, "INVALID": 2, "NO_SEAL": 3}


def _match_some(fn, templates, special):
    """like _match_body, but statements whose template is None are handed to special[i](stmt)"""
    stmts = _strip_doc(fn)
    need(len(stmts) == len(templates), f"{fn.name}: {len(stmts)} statements, the model was written against {len(templates)}")
    got = {}
    for i, (s, t) in enumerate(zip(stmts, templates)):
        if t is None:
            got.update(special[i](s))
            continue
        src = ast.unparse(s)
        m = _tmpl(t).match(src)
        need(m is not None, f"{fn.name}: statement {i + 1} not understood: `{src[:160]}`")
        for k, v in m.groupdict().items():
            val = ast.literal_eval(v)
            need(isinstance(val, str), f"{fn.name}: hole {k} is not a string literal")
            got[k] = val
    return got


def _status_of_return(ret, where, want_kw):
    need(isinstance(ret, ast.Return) and isinstance(ret.value, ast.Call) and ast.unparse(ret.value.func) == "SealVerificationResult"
         and not ret.value.args, f"{where}: not a `return SealVerificationResult(...)`")
    kws = {k.arg: k.value for k in ret.value.keywords}
    need(set(kws) == want_kw, f"{where}: keyword set {sorted(kws)}")
    st = ast.unparse(kws["status"])
    need(st.startswith("SealStatus.") and st[len("SealStatus."):] in STATUS_CODE, f"{where}: unknown status `{st}`")
    need(isinstance(kws["message"], ast.Constant) and isinstance(kws["message"].value, str), f"{where}: message is not a literal")
    if "expected_hash" in kws:
        need(ast.unparse(kws["expected_hash"]) == "computed_hash" and ast.unparse(kws["actual_hash"]) == "stored_hash",
             f"{where}: hash fields changed")
    return STATUS_CODE[st[len("SealStatus."):]]


def _compute_dict(stmt):
    need(isinstance(stmt, ast.AnnAssign) and ast.unparse(stmt.target) == "seal" and isinstance(stmt.value, ast.Dict),
         "compute_seal: `seal` is not assigned a dict literal")
    fields = []
    for k, v in zip(stmt.value.keys, stmt.value.values):
        need(isinstance(k, ast.Constant) and isinstance(k.value, str), "compute_seal: non-literal dict key")
        if isinstance(v, ast.Constant) and isinstance(v.value, str):
            fields.append((k.value, 0, v.value, ""))
            continue
        need(isinstance(v, ast.JoinedStr), f"compute_seal[{k.value}]: value is neither a literal nor an f-string")
        pre, suf, kind, seen = "", "", None, False
        for part in v.values:
            if isinstance(part, ast.Constant):
                if seen:
                    suf += part.value
                else:
                    pre += part.value
            else:
                need(isinstance(part, ast.FormattedValue) and part.format_spec is None and part.conversion == -1 and not seen,
                     f"compute_seal[{k.value}]: f-string shape")
                name = ast.unparse(part.value)
                need(name in ("line_count", "hash_value"), f"compute_seal[{k.value}]: unknown interpolated name {name}")
                kind = 1 if name == "line_count" else 2
                seen = True
        need(seen, f"compute_seal[{k.value}]: f-string without interpolation")
        fields.append((k.value, kind, pre, suf))
    need(len({f[0] for f in fields}) == len(fields), "compute_seal: duplicate dict keys")
    return {"compute_fields": fields}


def _children_list(stmt):
    need(isinstance(stmt, ast.AnnAssign) and ast.unparse(stmt.target) == "seal_children" and isinstance(stmt.value, ast.List),
         "seal_document: seal_children is not a list literal")
    out = []
    for e in stmt.value.elts:
        src = ast.unparse(e)
        m = _tmpl("Assignment(key=<k>, value=seal_data[<g>])").match(src)
        strip = ""
        if m is None:
            m = _tmpl("Assignment(key=<k>, value=seal_data[<g>].strip(<s>))").match(src)
            need(m is not None, f"seal_document: child not understood: `{src}`")
            strip = ast.literal_eval(m.group("s"))
        out.append((ast.literal_eval(m.group("k")), ast.literal_eval(m.group("g")), strip))
    return {"child_fields": out}


def _verify_missing(stmt):
    need(isinstance(stmt, ast.If) and ast.unparse(stmt.test) == "seal_data is None" and len(stmt.body) == 1 and not stmt.orelse,
         "verify_seal: the missing-seal guard changed")
    return {"status_missing": _status_of_return(stmt.body[0], "verify_seal[missing]", {"status", "message"})}


def _verify_compare(stmt):
    need(isinstance(stmt, ast.If) and len(stmt.body) == 1 and len(stmt.orelse) == 1, "verify_seal: comparison statement shape")
    t = stmt.test
    need(isinstance(t, ast.Compare) and len(t.ops) == 1 and isinstance(t.ops[0], ast.Eq) and ast.unparse(t.left) == "computed_hash"
         and ast.unparse(t.comparators[0]) == "stored_hash", f"verify_seal: comparison is `{ast.unparse(t)}`, not a full equality")
    kw = {"status", "expected_hash", "actual_hash", "message"}
    return {"status_equal": _status_of_return(stmt.body[0], "verify_seal[equal]", kw),
            "status_differs": _status_of_return(stmt.orelse[0], "verify_seal[differs]", kw)}


def _cli(src):
    mod = parse_file(src / "cli" / "main.py")
    seal = find_def(mod, "seal")
    tries = [s for s in _strip_doc(seal) if isinstance(s, ast.Try)]
    need(len(tries) == 1, "cli.seal: expected one try block")
    flow = [ast.unparse(s) for s in tries[0].body if isinstance(s, ast.Assign)]
    want = ["input_path = Path(file)", "content = input_path.read_text(encoding='utf-8')", "doc = parse(content)",
            "sealed_doc = seal_document(doc)", "output_content = emit(sealed_doc)"]
    need(flow == want, f"cli.seal: read -> parse -> seal_document -> emit flow changed: {flow}")
    imports = sorted(ast.unparse(s) for s in _strip_doc(seal) if isinstance(s, ast.ImportFrom))
    need("from octave_mcp.core.emitter import emit" in imports and "from octave_mcp.core.parser import parse" in imports
         and "from octave_mcp.core.sealer import seal_document" in imports, "cli.seal: imports changed")
    val = find_def(mod, "validate")
    tries = [s for s in _strip_doc(val) if isinstance(s, ast.Try)]
    need(len(tries) == 1, "cli.validate: expected one try block")
    body = tries[0].body
    need(ast.unparse(body[0]) == "doc = parse(content)", "cli.validate: first statement of the try block is not doc = parse(content)")
    ifs = [s for s in body if isinstance(s, ast.If) and ast.unparse(s.test) == "verify_seal"]
    need(len(ifs) == 2, f"cli.validate: expected two `if verify_seal:` blocks, found {len(ifs)}")
    first = [ast.unparse(s) for s in ifs[0].body]
    need("seal_result = do_verify_seal(doc)" in first and "seal_status = seal_result.status" in first
         and "from octave_mcp.core.sealer import verify_seal as do_verify_seal" in first, "cli.validate: verification call changed")
    rules = []
    for s in ifs[1].body:
        if isinstance(s, ast.ImportFrom):
            continue
        need(isinstance(s, ast.If) and not s.orelse, f"cli.validate: exit rule shape `{ast.unparse(s)[:80]}`")
        need(ast.unparse(s.body[-1]) == "raise SystemExit(1)", "cli.validate: exit rule does not raise SystemExit(1)")
        t = ast.unparse(s.test)
        m = re.fullmatch(r"(require_seal and )?seal_status == SealStatus\.(\w+)", t)
        need(m is not None and m.group(2) in STATUS_CODE, f"cli.validate: exit rule test `{t}`")
        rules.append((STATUS_CODE[m.group(2)], bool(m.group(1))))
    # between parse and verify the document may only be rebound under `if fix and validation_errors:`
    rebinds = [n for n in ast.walk(tries[0]) if isinstance(n, (ast.Assign, ast.AnnAssign))
               and any(isinstance(t, ast.Name) and t.id == "doc" or isinstance(t, ast.Tuple) and any(isinstance(e, ast.Name) and e.id == "doc" for e in t.elts)
                       for t in (n.targets if isinstance(n, ast.Assign) else [n.target]))]
    need(len(rebinds) == 2, f"cli.validate: `doc` is bound {len(rebinds)} times (expected parse + --fix repair)")
    return rules


def generate(src):
    mod = parse_file(src / "core" / "sealer.py")
    imps = [ast.unparse(n) for n in mod.body if isinstance(n, (ast.Import, ast.ImportFrom))]
    need("from octave_mcp.core.emitter import emit" in imps, "sealer.py no longer imports emit from octave_mcp.core.emitter")
    need("import hashlib" in imps, "sealer.py no longer imports hashlib")
    names = [n.name for n in mod.body if isinstance(n, ast.FunctionDef)]
    need(sorted(names) == sorted(["compute_seal", "seal_document", "extract_seal", "verify_seal", "_remove_seal_section"]),
         f"sealer.py: function set changed: {names}")
    for n in mod.body:  # no module-level rebinding of emit / hashlib
        if isinstance(n, (ast.Assign, ast.AnnAssign)):
            raise TranslateError(f"sealer.py: unexpected module-level assignment `{ast.unparse(n)[:60]}`")
    st = [n for n in mod.body if isinstance(n, ast.ClassDef) and n.name == "SealStatus"]
    need(len(st) == 1, "SealStatus not found")
    members = [(s.targets[0].id, s.value.value) for s in st[0].body
               if isinstance(s, ast.Assign) and isinstance(s.value, ast.Constant) and isinstance(s.targets[0], ast.Name)]
    need(members == [("VERIFIED", "VERIFIED"), ("INVALID", "INVALID"), ("NO_SEAL", "NO_SEAL")], f"SealStatus members changed: {members}")
    fns = {n: find_def(mod, n) for n in names}
    sigs = {n: ast.unparse(f.args) for n, f in fns.items()}
    need(sigs == {"compute_seal": "content: str, grammar_version: str | None", "seal_document": "doc: Document",
                  "extract_seal": "doc: Document", "verify_seal": "doc: Document", "_remove_seal_section": "doc: Document"},
         f"sealer.py: signatures changed: {sigs}")
    for f in fns.values():
        need(not f.decorator_list, f"{f.name}: decorated")
    c = _match_some(fns["compute_seal"], T_COMPUTE, {3: _compute_dict})
    s = _match_some(fns["seal_document"], T_SEAL, {3: _children_list})
    x = _match_some(fns["extract_seal"], T_EXTRACT, {})
    v = _match_some(fns["verify_seal"], T_VERIFY, {1: _verify_missing, 7: _verify_compare})
    r = _match_some(fns["_remove_seal_section"], T_REMOVE, {})
    rules = _cli(src)

    out = [HEADER]
    out.append("(* compute_seal: dict literal in source order: (key, (kind, prefix, suffix)); kind 0 literal | 1 line count | 2 hexdigest *)\n")
    out.append("Definition seal_compute_fields : list (list N * (N * list N * list N)) :=\n  "
               + coq_list([f"({coq_str(k)}, ({kind}, {coq_str(p)}, {coq_str(q)}))" for k, kind, p, q in c["compute_fields"]]) + ".\n")
    out.append(f"Definition seal_split_sep : list N := {coq_str(c['sep'])}.\n")
    out.append(f"Definition seal_compute_optional : list N := {coq_str(c['gkey'])}.\n")
    out.append("(* seal_document: children of the new section: (assignment key, (seal_data key, strip chars)) *)\n")
    out.append("Definition seal_child_fields : list (list N * (list N * list N)) :=\n  "
               + coq_list([f"({coq_str(k)}, ({coq_str(g)}, {coq_str(sp)}))" for k, g, sp in s["child_fields"]]) + ".\n")
    out.append(f"Definition seal_child_optional : list N * (list N * list N) := ({coq_str(s['gin'])}, ({coq_str(s['gchild'])}, {coq_str(s['gget'])})).\n")
    out.append(f"Definition seal_new_id : list N := {coq_str(s['sid'])}.\n")
    out.append(f"Definition seal_new_key : list N := {coq_str(s['skey'])}.\n")
    out.append(f"Definition seal_extract_key : list N := {coq_str(x['xkey'])}.\n")
    out.append(f"Definition seal_remove_key : list N := {coq_str(r['rkey'])}.\n")
    out.append(f"Definition seal_verify_key : list N := {coq_str(v['vkey'])}.\n")
    out.append(f"Definition seal_verify_default : list N := {coq_str(v['vdefault'])}.\n")
    out.append(f"Definition seal_verify_strip : list N := {coq_str(v['vstrip'])}.\n")
    out.append("(* SealStatus returned by verify_seal: 1 VERIFIED | 2 INVALID | 3 NO_SEAL *)\n")
    out.append(f"Definition seal_status_missing : N := {v['status_missing']}.\n")
    out.append(f"Definition seal_status_equal : N := {v['status_equal']}.\n")
    out.append(f"Definition seal_status_differs : N := {v['status_differs']}.\n")
    out.append("(* cli validate --verify-seal: (status code, only with --require-seal) -> exit 1 *)\n")
    out.append("Definition seal_cli_exit_rules : list (N * bool) := "
               + coq_list([f"({code}, {'true' if req else 'false'})" for code, req in rules], "(N * bool)") + ".\n")
    out.append("(* structure matched by the translator templates (pinned): emit(doc_without_seal) from octave_mcp.core.emitter, "
               "hashlib.sha256(text.encode('utf-8')).hexdigest(), computed_hash == stored_hash, Document(...) without trailing_comments *)\n")
    out.append(f"Definition seal_emit_callee : list N := {coq_str('octave_mcp.core.emitter.emit(doc_without_seal)')}.\n")
    out.append(f"Definition seal_hash_callee : list N := {coq_str('hashlib.sha256(<text>.encode(utf-8)).hexdigest()')}.\n")
    out.append(f"Definition seal_compare_op : list N := {coq_str('computed_hash == stored_hash')}.\n")
    out.append(f"Definition seal_doc_copied_fields : list (list N) := "
               + coq_list([coq_str(k) for k in ["name", "meta", "sections", "has_separator", "raw_frontmatter", "grammar_version"]]) + ".\n")
    out.append(f"Definition seal_cli_flow : list (list N) := " + coq_list([coq_str(k) for k in ["parse", "seal_document", "emit"]]) + ".\n")
    return {"SealGen.v": "".join(out)}
