"""mcp/validate.py, write.py, eject.py, compile_grammar.py, cli/main.py, schemas/loader.py -> Gen/StatusGen.v

The GUARD TABLE of C10: for every function that builds a response envelope, every site (in source order) that
  * initialises the envelope (`result = {...}`), assigns a tracked key (`result["validation_status"] = ...`),
  * returns (`return result`, `return {...}`, `return self._error_envelope(...)`),
  * (CLI) assigns the local `validation_status`, echoes the `validation_status:` line, raises SystemExit,
together with the conjunction of the enclosing `if`/`elif`/`else`/`try`/`except` tests as boolean expressions
over ATOMS (source text of the test leaves).  Tools/Envelope.v INTERPRETS this table.
A local that is only ever bound to the constants True/False (a FLAG, e.g. `salvaged` in write.execute) and is read
by a guard is emitted with ALL its assignment sites and their guard chains (`status_<tool>_flags`); Envelope.v
evaluates the flag from that table, so the flag is not an opaque fact.
The schema-resolution helpers (core/hydrator.py resolve_hermetic_standard + compute_vocabulary_hash, schemas/loader.py
load_schema / load_schema_by_name / get_schema_search_paths / get_builtin_schema) have no envelope: their decision
table (resolve_hermetic_standard), decorators and the module-level state they mention are emitted and PINNED
(Tools/EnvelopePins.v): a remembered digest / memoised lookup changes them.

Fail closed: any construct that could touch a tracked key or leave the function in a way this walker does not
understand raises TranslateError.
"""
import ast

from .tlib import HEADER, TranslateError, coq_list, coq_str, const_eval, find_def, module_assign, need, parse_file

OUTPUTS = ["StatusGen.v"]

TRACKED = ("validation_status", "valid", "schema_name", "schema_version", "validation_errors",
           "validation_error_count", "status")
RESULT = "result"
MUTATORS = ("update", "pop", "popitem", "setdefault", "clear", "__setitem__", "__delitem__")


# ---------------------------------------------------------------- boolean expressions / values
def b_true():
    return ("T",)


def b_atom(s):
    return ("A", s)


def b_not(b):
    if b[0] == "N":
        return b[1]
    return ("N", b)


def b_and(xs):
    xs = list(xs)
    out = xs[-1]
    for x in reversed(xs[:-1]):
        out = ("&", x, out)
    return out


def b_or(xs):
    xs = list(xs)
    out = xs[-1]
    for x in reversed(xs[:-1]):
        out = ("|", x, out)
    return out


def coq_bexp(b):
    t = b[0]
    if t == "T":
        return "BTrue"
    if t == "A":
        return f"BAtom {coq_str(b[1])}"
    if t == "N":
        return f"BNot ({coq_bexp(b[1])})"
    if t == "&":
        return f"BAnd ({coq_bexp(b[1])}) ({coq_bexp(b[2])})"
    if t == "|":
        return f"BOr ({coq_bexp(b[1])}) ({coq_bexp(b[2])})"
    raise TranslateError("bexp")


def txt_bexp(b):
    t = b[0]
    if t == "T":
        return "true"
    if t == "A":
        return "<" + b[1] + ">"
    if t == "N":
        return "not " + txt_bexp(b[1])
    return "(" + txt_bexp(b[1]) + (" and " if t == "&" else " or ") + txt_bexp(b[2]) + ")"


def coq_val(v):
    t = v[0]
    if t in ("VTrue", "VFalse", "VNone", "VEmptyList"):
        return t
    if t == "VNum":
        return f"VNum {v[1]}"
    return f"{t} {coq_str(v[1])}"


def coq_fields(fs):
    return coq_list([f"({coq_str(k)}, {coq_val(v)})" for k, v in fs], "(str * val)")


def coq_action(a):
    t = a[0]
    if t in ("ARet", "AEcho"):
        return t
    if t in ("AInit", "ARetDict"):
        return f"{t} {coq_fields(a[1])}"
    if t == "ASet":
        return f"ASet {coq_str(a[1])} ({coq_val(a[2])})"
    if t == "ARetCall":
        return f"ARetCall {coq_str(a[1])}"
    if t == "AExit":
        return f"AExit {a[1]}"
    raise TranslateError("action")


# ---------------------------------------------------------------- per-function walker
def _own_nodes(fn):
    """All nodes of fn's body, not descending into nested function/class definitions."""
    out = []
    stack = list(fn.body)
    while stack:
        n = stack.pop()
        out.append(n)
        for c in ast.iter_child_nodes(n):
            if isinstance(c, (ast.FunctionDef, ast.AsyncFunctionDef, ast.ClassDef, ast.Lambda)):
                continue
            stack.append(c)
    return out


def _target_names(t):
    if isinstance(t, ast.Name):
        return [t.id]
    if isinstance(t, (ast.Tuple, ast.List)):
        return [x for e in t.elts for x in _target_names(e)]
    if isinstance(t, ast.Starred):
        return _target_names(t.value)
    return []


class Walker:
    def __init__(self, fn, where, helpers=(), cli=False, result=RESULT):
        self.fn = fn
        self.result = result
        self.where = where
        self.helpers = dict(helpers)   # name -> set of parameter names its guards read
        self.cli = cli
        self.sites = []
        self.try_no = 0
        # assignment positions per local name (parameters count as an assignment at position 0)
        self.assigns = {}
        self.single_rhs = {}
        for a in fn.args.args + fn.args.kwonlyargs + ([fn.args.vararg] if fn.args.vararg else []) \
                + ([fn.args.kwarg] if fn.args.kwarg else []):
            self.assigns.setdefault(a.arg, []).append((0, 0))
        for n in _own_nodes(fn):
            names, rhs = [], None
            if isinstance(n, ast.Assign):
                for t in n.targets:
                    names += _target_names(t)
                if len(n.targets) == 1 and isinstance(n.targets[0], ast.Name):
                    rhs = n.value
            elif isinstance(n, ast.AnnAssign) and n.value is not None:
                names += _target_names(n.target)
                rhs = n.value if isinstance(n.target, ast.Name) else None
            elif isinstance(n, ast.AugAssign):
                names += _target_names(n.target)
            elif isinstance(n, (ast.For, ast.AsyncFor)):
                names += _target_names(n.target)
            elif isinstance(n, (ast.With, ast.AsyncWith)):
                for it in n.items:
                    if it.optional_vars is not None:
                        names += _target_names(it.optional_vars)
            elif isinstance(n, ast.ExceptHandler) and n.name:
                names.append(n.name)
            elif isinstance(n, ast.NamedExpr):
                names += _target_names(n.target)
            elif isinstance(n, ast.comprehension):
                continue
            for nm in names:
                self.assigns.setdefault(nm, []).append((n.lineno, n.col_offset))
                if rhs is not None and len(names) == 1:
                    self.single_rhs.setdefault(nm, []).append(n)
        for k in self.assigns:
            self.assigns[k].sort()
        # FLAGS: locals whose every binding is `name = True` / `name = False` (plain or annotated assignment).  A flag
        # that occurs in a guard is not an opaque atom: its assignment sites (with their guard chains) are emitted as a
        # flag table and Tools/Envelope.v evaluates the flag from them.
        self.flag_cands = set()
        for nm, defs in self.single_rhs.items():
            if len(defs) == len(self.assigns.get(nm, [])) and all(
                    isinstance(d.value, ast.Constant) and isinstance(d.value.value, bool) for d in defs):
                self.flag_cands.add(nm)
        self.flag_sites = {}

    # ---- atoms
    def _version(self, node, pos):
        names = sorted({n.id for n in ast.walk(node) if isinstance(n, ast.Name) and isinstance(n.ctx, ast.Load)})
        suf = ""
        for nm in names:
            pts = self.assigns.get(nm, [])
            if len(pts) > 1:
                suf += "@%d" % sum(1 for p in pts if p < pos)
        return suf

    def atom(self, node, pos):
        return b_atom(ast.unparse(node) + self._version(node, pos))

    def _inlinable(self, name):
        pts = self.assigns.get(name, [])
        defs = self.single_rhs.get(name, [])
        if len(pts) != 1 or len(defs) != 1:
            return None
        rhs = defs[0].value
        if isinstance(rhs, (ast.BoolOp, ast.Compare)) or (isinstance(rhs, ast.UnaryOp) and isinstance(rhs.op, ast.Not)):
            return defs[0]
        return None

    def bexp(self, t, pos=None):
        if pos is None:
            pos = (t.lineno, t.col_offset)
        if isinstance(t, ast.BoolOp):
            parts = [self.bexp(v, pos) for v in t.values]
            return b_and(parts) if isinstance(t.op, ast.And) else b_or(parts)
        if isinstance(t, ast.UnaryOp) and isinstance(t.op, ast.Not):
            return b_not(self.bexp(t.operand, pos))
        if isinstance(t, ast.Call) and isinstance(t.func, ast.Name) and t.func.id == "bool" and len(t.args) == 1 \
                and not t.keywords:
            return self.bexp(t.args[0], pos)
        if isinstance(t, ast.Compare) and len(t.ops) == 1 and isinstance(t.comparators[0], ast.Constant) \
                and t.comparators[0].value is None and isinstance(t.ops[0], (ast.Is, ast.IsNot)):
            pos_form = ast.Compare(left=t.left, ops=[ast.IsNot()], comparators=[ast.Constant(value=None)])
            a = b_atom(ast.unparse(pos_form) + self._version(t.left, pos))
            return a if isinstance(t.ops[0], ast.IsNot) else b_not(a)
        if isinstance(t, ast.Constant) and isinstance(t.value, bool):
            return b_true() if t.value else b_not(b_true())
        if isinstance(t, ast.Name):
            d = self._inlinable(t.id)
            if d is not None:
                need((d.lineno, d.col_offset) < pos, f"{self.where}: {t.id} used before its definition")
                return self.bexp(d.value, (d.lineno, d.col_offset))
        return self.atom(t, pos)

    # ---- values
    def val(self, e, pos):
        if isinstance(e, ast.Constant):
            v = e.value
            if v is True:
                return ("VTrue",)
            if v is False:
                return ("VFalse",)
            if v is None:
                return ("VNone",)
            if isinstance(v, str):
                return ("VStr", v)
            if isinstance(v, int) and 0 <= v < 1000:
                return ("VNum", v)
        if isinstance(e, ast.List) and not e.elts:
            return ("VEmptyList",)
        if isinstance(e, ast.ListComp) and len(e.generators) == 1 and not e.generators[0].ifs \
                and not e.generators[0].is_async and isinstance(e.generators[0].iter, ast.Name):
            it = e.generators[0].iter
            return ("VLenOf", ast.unparse(it) + self._version(it, pos))
        if isinstance(e, ast.Name):
            defs = self.single_rhs.get(e.id, [])
            if len(self.assigns.get(e.id, [])) == 1 and len(defs) == 1 and isinstance(defs[0].value, ast.ListComp):
                d = defs[0]
                need((d.lineno, d.col_offset) < pos, f"{self.where}: {e.id} used before definition")
                return self.val(d.value, (d.lineno, d.col_offset))
        if isinstance(e, ast.Call) and isinstance(e.func, ast.Name) and e.func.id == "len" and len(e.args) == 1:
            a = e.args[0]
            if isinstance(a, ast.Subscript) and isinstance(a.value, ast.Name) and a.value.id == self.result \
                    and isinstance(a.slice, ast.Constant):
                return ("VLenOfKey", a.slice.value)
            if isinstance(a, ast.Call) and isinstance(a.func, ast.Attribute) and a.func.attr == "get" \
                    and isinstance(a.func.value, ast.Name) and a.func.value.id == self.result and len(a.args) == 2 \
                    and isinstance(a.args[0], ast.Constant) and isinstance(a.args[1], ast.List) and not a.args[1].elts:
                return ("VLenOfKey", a.args[0].value)
        return ("VOther", ast.unparse(e))

    def dict_fields(self, d, pos):
        fields = []
        for k, v in zip(d.keys, d.values):
            if k is None:  # **spread
                need(isinstance(v, ast.Name), f"{self.where}: ** of a non-name in an envelope literal")
                self._check_spread(v.id)
                continue
            need(isinstance(k, ast.Constant) and isinstance(k.value, str), f"{self.where}: non-literal envelope key")
            if k.value in TRACKED:
                fields.append((k.value, self.val(v, pos)))
        return fields

    def _check_spread(self, name):
        """A dict spread into an envelope must not carry a tracked key: its literal and every x[...] = store."""
        seen = False
        for n in _own_nodes(self.fn):
            tgts = []
            if isinstance(n, ast.Assign):
                tgts = n.targets
                val = n.value
            elif isinstance(n, ast.AnnAssign):
                tgts = [n.target]
                val = n.value
            else:
                if isinstance(n, ast.Call) and isinstance(n.func, ast.Attribute) and isinstance(n.func.value, ast.Name) \
                        and n.func.value.id == name and n.func.attr in MUTATORS:
                    raise TranslateError(f"{self.where}: {name}.{n.func.attr}() on a dict spread into an envelope")
                continue
            for t in tgts:
                if isinstance(t, ast.Name) and t.id == name:
                    seen = True
                    need(isinstance(val, ast.Dict), f"{self.where}: spread dict {name} not a literal")
                    for k in val.keys:
                        need(isinstance(k, ast.Constant) and k.value not in TRACKED,
                             f"{self.where}: spread dict {name} carries tracked key")
                if isinstance(t, ast.Subscript) and isinstance(t.value, ast.Name) and t.value.id == name:
                    need(isinstance(t.slice, ast.Constant) and t.slice.value not in TRACKED,
                         f"{self.where}: store of a tracked/non-literal key into spread dict {name}")
        need(seen, f"{self.where}: spread dict {name} has no literal definition")

    # ---- statements
    def emit(self, guards, act):
        self.sites.append((list(guards), act))

    def contains_site(self, stmts):
        w = Walker.__new__(Walker)
        w.__dict__.update(self.__dict__)
        w.sites = []
        w.flag_sites = {}
        w.try_no = 1000
        w.walk(stmts, [])
        return bool(w.sites)

    def walk(self, stmts, guards):
        for st in stmts:
            pos = (st.lineno, st.col_offset)
            if isinstance(st, ast.If):
                t = self.bexp(st.test)
                self.walk(st.body, guards + [t])
                self.walk(st.orelse, guards + [b_not(t)])
            elif isinstance(st, ast.Try):
                self.try_no += 1
                k = self.try_no
                calls = [ast.unparse(n.func) for s in st.body for n in ast.walk(s) if isinstance(n, ast.Call)]
                first = None
                for s in st.body:  # first call in source order
                    cs = sorted(((n.lineno, n.col_offset, ast.unparse(n.func)) for n in ast.walk(s)
                                 if isinstance(n, ast.Call)))
                    if cs:
                        first = cs[-1][2] if False else cs[0][2]
                        break
                label = f"exc#{k}:{first or 'nocall'}"
                hatoms = []
                transparent = []
                for h in st.handlers:
                    ty = ast.unparse(h.type) if h.type is not None else "BaseException"
                    is_reraise = len(h.body) == 1 and isinstance(h.body[0], ast.Raise) and h.body[0].exc is None
                    transparent.append(is_reraise)
                    hatoms.append(b_atom(label if len(st.handlers) == 1 else f"{label}:{ty}"))
                body_g = guards + [b_not(a) for a, tr in zip(hatoms, transparent) if not tr]
                self.walk(st.body, body_g)
                for h, a, tr in zip(st.handlers, hatoms, transparent):
                    if tr:
                        continue
                    self.walk(h.body, guards + [a])
                self.walk(st.orelse, body_g)
                need(not self.contains_site(st.finalbody), f"{self.where}: envelope site inside finally")
            elif isinstance(st, (ast.With, ast.AsyncWith)):
                self.walk(st.body, guards)
            elif isinstance(st, (ast.For, ast.AsyncFor, ast.While)):
                need(not self.contains_site(st.body) and not self.contains_site(st.orelse),
                     f"{self.where}: envelope site inside a loop (line {st.lineno})")
            elif isinstance(st, (ast.FunctionDef, ast.AsyncFunctionDef, ast.ClassDef)):
                for n in ast.walk(st):
                    if isinstance(n, ast.Constant) and n.value == "validation_status":
                        raise TranslateError(f"{self.where}: nested definition mentions validation_status")
            elif isinstance(st, ast.Return):
                self.do_return(st, guards, pos)
            elif isinstance(st, (ast.Assign, ast.AnnAssign)):
                tgts = st.targets if isinstance(st, ast.Assign) else [st.target]
                value = st.value
                for t in tgts:
                    if isinstance(t, ast.Name) and t.id == self.result and not self.cli:
                        need(isinstance(value, ast.Dict), f"{self.where}: result bound to a non-literal")
                        self.emit(guards, ("AInit", self.dict_fields(value, pos)))
                    elif isinstance(t, ast.Subscript) and isinstance(t.value, ast.Name) and t.value.id == self.result \
                            and not self.cli:
                        need(isinstance(t.slice, ast.Constant), f"{self.where}: result[<non-literal>] store")
                        if t.slice.value in TRACKED:
                            self.emit(guards, ("ASet", t.slice.value, self.val(value, pos)))
                    elif isinstance(t, ast.Name) and t.id == "validation_status" and self.cli:
                        need(value is not None, f"{self.where}: bare annotation of validation_status")
                        self.emit(guards, ("ASet", "validation_status", self.val(value, pos)))
                    elif isinstance(t, ast.Name) and t.id in self.flag_cands:
                        need(isinstance(value, ast.Constant) and isinstance(value.value, bool), f"{self.where}: flag {t.id}")
                        self.flag_sites.setdefault(t.id, []).append((list(guards), bool(value.value)))
                    elif isinstance(t, (ast.Tuple, ast.List)):
                        need(self.result not in _target_names(t) and "validation_status" not in _target_names(t),
                             f"{self.where}: tuple assignment to {RESULT}/validation_status")
            elif isinstance(st, ast.AugAssign):
                t = st.target
                need(not (isinstance(t, ast.Name) and t.id in (self.result, "validation_status")),
                     f"{self.where}: augmented assignment to {RESULT}")
                need(not (isinstance(t, ast.Subscript) and isinstance(t.value, ast.Name) and t.value.id == self.result
                          and not (isinstance(t.slice, ast.Constant) and t.slice.value not in TRACKED)),
                     f"{self.where}: augmented assignment to a tracked key")
            elif isinstance(st, ast.Delete):
                for t in st.targets:
                    need(not (isinstance(t, ast.Subscript) and isinstance(t.value, ast.Name) and t.value.id == self.result),
                         f"{self.where}: del result[...]")
            elif isinstance(st, ast.Raise):
                if st.exc is None:
                    continue  # bare re-raise: propagates to the enclosing handler
                if self.cli and isinstance(st.exc, ast.Call) and ast.unparse(st.exc.func) == "SystemExit" \
                        and len(st.exc.args) == 1 and isinstance(st.exc.args[0], ast.Constant):
                    self.emit(guards, ("AExit", int(st.exc.args[0].value)))
                else:
                    raise TranslateError(f"{self.where}: raise {ast.unparse(st.exc)[:40]} not modelled")
            elif isinstance(st, ast.Expr):
                v = st.value
                if isinstance(v, ast.Await):
                    v = v.value
                if isinstance(v, ast.Call) and isinstance(v.func, ast.Attribute) and isinstance(v.func.value, ast.Name) \
                        and v.func.value.id == self.result and v.func.attr in MUTATORS:
                    raise TranslateError(f"{self.where}: result.{v.func.attr}() not modelled")
                if self.cli and isinstance(v, ast.Call) and ast.unparse(v.func) == "click.echo" and v.args:
                    a0 = v.args[0]
                    txt = "".join(x.value for x in a0.values if isinstance(x, ast.Constant)) \
                        if isinstance(a0, ast.JoinedStr) else ""
                    if "validation_status" in txt:
                        need(txt.strip() == "validation_status:" and any(
                            isinstance(x, ast.FormattedValue) and isinstance(x.value, ast.Name)
                            and x.value.id == "validation_status" for x in a0.values),
                            f"{self.where}: unexpected validation_status echo")
                        need(not any(k.arg == "err" for k in v.keywords), f"{self.where}: status echoed to stderr")
                        self.emit(guards, ("AEcho",))
            elif isinstance(st, (ast.Assert, ast.Pass, ast.Import, ast.ImportFrom, ast.Continue, ast.Break,
                                 ast.Global, ast.Nonlocal)):
                continue
            else:
                raise TranslateError(f"{self.where}: statement {type(st).__name__} not modelled (line {st.lineno})")

    def do_return(self, st, guards, pos):
        v = st.value
        if self.cli:
            raise TranslateError(f"{self.where}: return inside a CLI command")
        need(v is not None, f"{self.where}: bare return")
        if isinstance(v, ast.Name) and v.id == self.result:
            self.emit(guards, ("ARet",))
        elif isinstance(v, ast.Dict):
            self.emit(guards, ("ARetDict", self.dict_fields(v, pos)))
        elif isinstance(v, ast.Call) and isinstance(v.func, ast.Attribute) and isinstance(v.func.value, ast.Name) \
                and v.func.value.id == "self" and v.func.attr in self.helpers:
            # parameters the helper's guards read must be forwarded under the same name
            for p in sorted(self.helpers[v.func.attr]):
                kw = [k for k in v.keywords if k.arg == p]
                need(len(kw) == 1 and isinstance(kw[0].value, ast.Name) and kw[0].value.id == p,
                     f"{self.where}: helper {v.func.attr} reads `{p}` but the call does not forward {p}={p}")
            self.emit(guards, ("ARetCall", v.func.attr))
        else:
            raise TranslateError(f"{self.where}: return of {ast.unparse(v)[:50]} not modelled")


def _atoms_of(b, acc):
    if b[0] == "A":
        acc.add(b[1])
    elif b[0] == "N":
        _atoms_of(b[1], acc)
    elif b[0] in "&|":
        _atoms_of(b[1], acc)
        _atoms_of(b[2], acc)


def flags_of(w):
    """[(flag, [(guards, value)])] for every flag local that occurs in a guard of an emitted site.  Fail closed when an
    assignment of such a flag was not visited by the walk (inside a loop / nested definition / comprehension)."""
    import re
    atoms = set()
    for g, _ in w.sites:
        for b in g:
            _atoms_of(b, atoms)
    for sites in w.flag_sites.values():
        for g, _ in sites:
            for b in g:
                _atoms_of(b, atoms)
    out = []
    for nm in sorted(w.flag_cands):
        if not any(re.fullmatch(re.escape(nm) + r"(@\d+)?", a) for a in atoms):
            continue
        sites = w.flag_sites.get(nm, [])
        need(len(sites) == len(w.assigns[nm]),
             f"{w.where}: flag `{nm}` is used in a guard but {len(w.assigns[nm]) - len(sites)} of its assignments are in "
             "statements the walker does not enter (loop / nested definition)")
        for g, _ in sites:
            sub = set()
            for b in g:
                _atoms_of(b, sub)
            need(not any(re.fullmatch(re.escape(x) + r"(@\d+)?", a) for a in sub for x in w.flag_cands),
                 f"{w.where}: assignment of flag `{nm}` is guarded by another flag")
        out.append((nm, sites))
    return out


def tool_tables(mod, cls, where, helper_names, result=RESULT):
    helpers = {}
    tables = []
    for hn in helper_names:
        fn = find_def(mod, hn, cls)
        w = Walker(fn, f"{where}.{hn}", result=result)
        w.walk(fn.body, [])
        need(any(a[0] in ("ARet", "ARetDict") for _, a in w.sites), f"{where}.{hn}: helper never returns an envelope")
        atoms = set()
        for g, _ in w.sites:
            for b in g:
                _atoms_of(b, atoms)
        params = {a.arg for a in fn.args.args}
        reads = set()
        for a in atoms:
            base = a.split("@")[0]
            try:
                names = {n.id for n in ast.walk(ast.parse(base, mode="eval")) if isinstance(n, ast.Name)}
            except SyntaxError:
                names = set()
            reads |= names & params
        helpers[hn] = reads
        tables.append((hn, w.sites))
    fn = find_def(mod, "execute", cls)
    w = Walker(fn, f"{where}.execute", helpers, result=result)
    w.walk(fn.body, [])
    # (falling off the end without a return is detected by the interpreter in Tools/Envelope.v: result None)
    need(w.sites and w.sites[-1][1][0] in ("ARet", "ARetDict", "ARetCall"),
         f"{where}.execute: last envelope site is not a return")
    # every mention of the key outside the walked functions (other methods of the class) is an error
    for n in [x for x in mod.body if isinstance(x, ast.ClassDef) and x.name == cls][0].body:
        if isinstance(n, (ast.FunctionDef, ast.AsyncFunctionDef)) and n.name not in ("execute",) + tuple(helper_names):
            for c in ast.walk(n):
                if isinstance(c, ast.Constant) and c.value == "validation_status" and not (
                        isinstance(n.body[0], ast.Expr) and c is getattr(n.body[0], "value", None)):
                    raise TranslateError(f"{where}.{n.name}: mentions validation_status outside execute/helpers")
    return [("execute", w.sites)] + tables, flags_of(w)


def cli_table(mod, name):
    fn = find_def(mod, name)
    w = Walker(fn, f"cli.{name}", cli=True)
    w.walk(fn.body, [])
    need(any(a[0] == "AEcho" for _, a in w.sites), f"cli.{name}: no validation_status echo")
    return [(name, w.sites)], flags_of(w)


def emit_flags(name, flags, out):
    out.append(f"(* {name}: flag locals read by the guards (assignment sites in source order)\n")
    items = []
    for nm, sites in flags:
        rows = []
        for g, v in sites:
            gtxt = " & ".join(txt_bexp(b) for b in g) or "always"
            out.append(("     " + nm + " = " + str(v) + "  under  " + gtxt).replace("(*", "( *").replace("*)", "* )") + "\n")
            rows.append(f"({coq_list([coq_bexp(b) for b in g], 'bexp')}, {'true' if v else 'false'})")
        items.append(f"({coq_str(nm)},\n  {coq_list(rows, '(list bexp * bool)')})")
    out.append("*)\n")
    out.append(f"Definition status_{name}_flags : list flag_table :=\n {coq_list(items, 'flag_table')}.\n\n")


def emit_tables(name, tables_flags, out):
    tables, flags = tables_flags
    emit_flags(name, flags, out)
    items = []
    for fname, sites in tables:
        rows = []
        for g, a in sites:
            rows.append(f"mk_site {coq_list([coq_bexp(b) for b in g], 'bexp')}\n     ({coq_action(a)})")
        out.append(f"(* {name}.{fname}\n")
        for g, a in sites:
            gtxt = " & ".join(txt_bexp(b) for b in g) or "always"
            out.append(("     " + gtxt + "  ==>  " + repr(a)).replace("(*", "( *").replace("*)", "* )") + "\n")
        out.append("*)\n")
        items.append(f"({coq_str(fname)},\n  {coq_list(rows, 'site')})")
    out.append(f"Definition status_{name} : list fn_table :=\n {coq_list(items, 'fn_table')}.\n\n")


# ---------------------------------------------------------------- schema-resolution helpers (no envelope; pinned)
def _module_state_read(mod, fn):
    """module-level names BOUND BY ASSIGNMENT in `mod` that `fn` mentions (imports / defs / classes are not state)"""
    bound = set()
    for st in mod.body:
        tgts = []
        if isinstance(st, ast.Assign):
            tgts = st.targets
        elif isinstance(st, (ast.AnnAssign, ast.AugAssign)):
            tgts = [st.target]
        for t in tgts:
            bound.update(_target_names(t))
    used = {n.id for n in ast.walk(fn) if isinstance(n, ast.Name)}
    for n in ast.walk(fn):
        if isinstance(n, (ast.Global, ast.Nonlocal)):
            used.update(n.names)
    return sorted(bound & used)


def resolution_rows(fn, where):
    """Decision table of a straight-line/if-only resolver: rows (guard texts, `return <expr>` | `raise <Type>`), the
    definitions of its locals and every other effect (source text), in source order.  Anything else: fail closed."""
    rows, defs = [], []

    def walk(stmts, guards):
        for st in stmts:
            if isinstance(st, ast.Expr) and isinstance(st.value, ast.Constant):
                continue
            if isinstance(st, ast.If):
                t = ast.unparse(st.test)
                walk(st.body, guards + [t])
                walk(st.orelse, guards + ["not (" + t + ")"])
            elif isinstance(st, ast.Return):
                need(st.value is not None, f"{where}: bare return")
                rows.append((list(guards), "return " + ast.unparse(st.value)))
            elif isinstance(st, ast.Raise):
                need(st.exc is not None, f"{where}: bare raise")
                e = st.exc.func if isinstance(st.exc, ast.Call) else st.exc
                rows.append((list(guards), "raise " + ast.unparse(e)))
            elif isinstance(st, ast.Assign) and len(st.targets) == 1 and isinstance(st.targets[0], ast.Name):
                defs.append((list(guards), st.targets[0].id + " = " + ast.unparse(st.value)))
            elif isinstance(st, ast.AnnAssign) and isinstance(st.target, ast.Name) and st.value is not None:
                defs.append((list(guards), st.target.id + " = " + ast.unparse(st.value)))
            elif isinstance(st, (ast.Assign, ast.AugAssign, ast.AnnAssign, ast.Expr, ast.Delete)):
                defs.append((list(guards), "effect " + ast.unparse(st)))     # stores into containers, calls, ...
            elif isinstance(st, (ast.Pass, ast.Assert)):
                continue
            else:
                raise TranslateError(f"{where}: statement {type(st).__name__} not modelled (line {st.lineno})")
    walk(fn.body, [])
    for n in ast.walk(fn):
        need(not isinstance(n, ast.NamedExpr), f"{where}: assignment expression")
    return rows, defs


def emit_resolution(src, out):
    def rowlist(rs):
        return coq_list([f"({coq_list([coq_str(g) for g in gs], 'str')}, {coq_str(a)})" for gs, a in rs], "(list str * str)")
    hmod = parse_file(src / "core" / "hydrator.py")
    fn = find_def(hmod, "resolve_hermetic_standard")
    rows, defs = resolution_rows(fn, "hydrator.resolve_hermetic_standard")
    out.append("(* core/hydrator.py resolve_hermetic_standard (the route of schema='latest' / 'frozen@sha256:..' in octave_write)\n")
    for gs, a in defs:
        out.append(("     [" + " & ".join(gs) + "]  " + a).replace("(*", "( *").replace("*)", "* )") + "\n")
    for gs, a in rows:
        out.append(("     " + (" & ".join(gs) or "always") + "  ==>  " + a).replace("(*", "( *").replace("*)", "* )") + "\n")
    out.append("*)\n")
    out.append(f"Definition status_hermetic_rows : list (list str * str) :=\n {rowlist(rows)}.\n")
    out.append(f"Definition status_hermetic_defs : list (list str * str) :=\n {rowlist(defs)}.\n")
    # per resolver function: decorators and module-level assigned names it mentions (memoisation = remembered identity)
    lmod = parse_file(src / "schemas" / "loader.py")
    items = []
    for label, mod, name in (("hydrator.resolve_hermetic_standard", hmod, "resolve_hermetic_standard"),
                             ("hydrator.compute_vocabulary_hash", hmod, "compute_vocabulary_hash"),
                             ("loader.load_schema", lmod, "load_schema"),
                             ("loader.load_schema_by_name", lmod, "load_schema_by_name"),
                             ("loader.get_schema_search_paths", lmod, "get_schema_search_paths"),
                             ("loader.get_builtin_schema", lmod, "get_builtin_schema")):
        f = find_def(mod, name)
        decos = [ast.unparse(d) for d in f.decorator_list]
        state = _module_state_read(mod, f)
        items.append(f"({coq_str(label)}, {coq_list([coq_str(d) for d in decos], 'str')}, {coq_list([coq_str(x) for x in state], 'str')})")
    out.append("(* (resolver function, decorators, module-level assigned names it mentions) *)\n")
    out.append(f"Definition status_resolver_state : list (str * list str * list str) :=\n {coq_list(items, '(str * list str * list str)')}.\n\n")


def generate(src):
    out = [HEADER.replace("Open Scope N_scope.", "From OV Require Import Base.Strs Tools.EnvelopeSyntax.\nOpen Scope N_scope.")]
    out.append("(* C10 guard table: see harness/translate/status_t.py and Tools/EnvelopeSyntax.v *)\n\n")
    # (table, file, class, envelope helpers, name of the envelope variable or None when every return is a literal)
    specs = [("validate", "mcp/validate.py", "ValidateTool", ["_error_envelope"], RESULT),
             ("write", "mcp/write.py", "WriteTool", ["_error_envelope"], RESULT),
             ("eject", "mcp/eject.py", "EjectTool", [], None),
             ("grammar", "mcp/compile_grammar.py", "CompileGrammarTool", ["_error_response"], None)]
    for name, rel, cls, helpers, resvar in specs:
        mod = parse_file(src / rel)
        emit_tables(name, tool_tables(mod, cls, name, helpers, resvar), out)
    cli = parse_file(src / "cli" / "main.py")
    emit_tables("cli_validate", cli_table(cli, "validate"), out)
    emit_tables("cli_write", cli_table(cli, "write"), out)
    emit_resolution(src, out)
    # ---- constants the facts are defined against
    vmod = parse_file(src / "mcp" / "validate.py")
    profiles = sorted(const_eval(module_assign(vmod, "VALID_PROFILES")))
    default_profile = const_eval(module_assign(vmod, "DEFAULT_PROFILE"))
    need(isinstance(default_profile, str), "DEFAULT_PROFILE")
    gmod = parse_file(src / "mcp" / "compile_grammar.py")
    formats = sorted(const_eval(module_assign(gmod, "VALID_FORMATS")))
    lmod = parse_file(src / "schemas" / "loader.py")
    pat = const_eval(module_assign(lmod, "SCHEMA_NAME_PATTERN"))
    need(isinstance(pat, str), "SCHEMA_NAME_PATTERN")
    bd = module_assign(lmod, "BUILTIN_SCHEMA_DEFINITIONS")
    need(isinstance(bd, ast.Dict), "BUILTIN_SCHEMA_DEFINITIONS literal")
    builtin = []
    for k, v in zip(bd.keys, bd.values):
        need(isinstance(k, ast.Constant) and isinstance(v, ast.Dict), "BUILTIN_SCHEMA_DEFINITIONS entry")
        sub = [kk.value for kk in v.keys if isinstance(kk, ast.Constant)]
        builtin.append((k.value, "name" in sub, "version" in sub))
    # load_schema_by_name: first statement after the docstring is the pattern guard returning None
    lf = find_def(lmod, "load_schema_by_name")
    body = [s for s in lf.body if not (isinstance(s, ast.Expr) and isinstance(s.value, ast.Constant))]
    g0 = body[0]
    need(isinstance(g0, ast.If) and len(g0.body) == 1 and isinstance(g0.body[0], ast.Return)
         and isinstance(g0.body[0].value, ast.Constant) and g0.body[0].value.value is None and not g0.orelse,
         "load_schema_by_name: first statement is not `if <pattern guard>: return None`")
    guard_txt = ast.unparse(g0.test)
    gb = find_def(lmod, "get_builtin_schema")
    gb_body = [s for s in gb.body if not (isinstance(s, ast.Expr) and isinstance(s.value, ast.Constant))]
    need(len(gb_body) == 1 and isinstance(gb_body[0], ast.Return), "get_builtin_schema: not a single return")
    out.append(f"Definition status_valid_profiles : list str := {coq_list([coq_str(p) for p in profiles], 'str')}.\n")
    out.append(f"Definition status_default_profile : str := {coq_str(default_profile)}.\n")
    out.append(f"Definition status_valid_formats : list str := {coq_list([coq_str(p) for p in formats], 'str')}.\n")
    out.append(f"Definition status_schema_name_pattern : str := {coq_str(pat)}.\n")
    out.append(f"Definition status_loader_name_guard : str := {coq_str(guard_txt)}.\n")
    out.append(f"Definition status_get_builtin_return : str := {coq_str(ast.unparse(gb_body[0].value))}.\n")
    rows = [f"({coq_str(k)}, {'true' if a else 'false'}, {'true' if b else 'false'})" for k, a, b in builtin]
    out.append("(* builtin dict schemas: (key, has 'name', has 'version') *)\n")
    out.append(f"Definition status_builtin_dict_schemas : list (str * bool * bool) := {coq_list(rows, '(str * bool * bool)')}.\n")
    return {"StatusGen.v": "".join(out)}
