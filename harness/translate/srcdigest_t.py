"""every module of octave_mcp -> Gen/SrcDigestGen.v : one digest per function / method and one per module for the
module-level statements.

The lexer, parser and emitter models (Lex/Lexer.v, Syn/Parser.v, Syn/Emitter.v) are written by hand against the source
text; what ties them to the code is the correspondence run.  These digests pin the exact text each model was written
against (comments, blank lines and docstrings do not count: the digest is taken over the ast.unparse of the function with
docstrings removed).  A function that changes breaks `Syn/Pins_SrcDigest.v`, i.e. a proof obligation of C01..C05 and C07,
which makes the check search for a failing input with the deep streams and otherwise report no-failing-input-found."""
import ast
import hashlib

from .tlib import HEADER, coq_str, need, parse_file

OUTPUTS = ["SrcDigestGen.v"]


def module_list(src):
    """every non-empty module of the package: [(short name, relative path)]"""
    out = []
    for p in sorted(src.rglob("*.py")):
        rel = p.relative_to(src).as_posix()
        if "__pycache__" in rel or rel.startswith("resources/") or not p.read_text().strip():
            continue
        short = rel[:-3].replace("/", "_")
        if short.endswith("___init__"):
            short = short[:-9] + "_pkg" if short != "__init__" else "pkg"
        if short == "__init__":
            short = "pkg"
        out.append((short, rel))
    return out


def _strip_doc(node):
    for n in ast.walk(node):
        if isinstance(n, (ast.FunctionDef, ast.AsyncFunctionDef, ast.ClassDef, ast.Module)) and n.body \
                and isinstance(n.body[0], ast.Expr) and isinstance(n.body[0].value, ast.Constant) \
                and isinstance(n.body[0].value.value, str):
            n.body = n.body[1:] or [ast.Pass()]
    return node


def _dg(node):
    return hashlib.sha256(ast.unparse(_strip_doc(node)).encode()).hexdigest()[:16]


def digests(src):
    out = []
    for short, rel in module_list(src):
        mod = parse_file(src / rel)
        rest = []
        names = []
        for node in mod.body:
            if isinstance(node, (ast.FunctionDef, ast.AsyncFunctionDef)):
                out.append((short, f"dg_{short}_{node.name}", _dg(node)))
                names.append(node.name)
            elif isinstance(node, ast.ClassDef):
                crest = []
                for m in node.body:
                    if isinstance(m, (ast.FunctionDef, ast.AsyncFunctionDef)):
                        out.append((short, f"dg_{short}_{node.name}_{m.name}", _dg(m)))
                        names.append(f"{node.name}.{m.name}")
                    else:
                        crest.append(m)
                hdr = ast.ClassDef(name=node.name, bases=node.bases, keywords=node.keywords, body=crest or [ast.Pass()],
                                   decorator_list=node.decorator_list)
                if hasattr(node, "type_params"):
                    hdr.type_params = node.type_params
                rest.append(ast.fix_missing_locations(hdr))
            elif isinstance(node, (ast.Import, ast.ImportFrom)):
                continue
            else:
                rest.append(node)
        m2 = ast.Module(body=rest or [ast.Pass()], type_ignores=[])
        out.append((short, f"dg_{short}_module_level", _dg(m2)))
        out.append((short, f"dg_{short}_function_names", hashlib.sha256("\n".join(names).encode()).hexdigest()[:16]))
    need(len({n for _, n, _ in out}) == len(out), "duplicate digest names (overloaded / redefined functions)")
    return out


def generate(src):
    out = [HEADER]
    cur = None
    for mod, name, d in digests(src):
        if mod != cur:
            out.append(f"(* MODULE {mod} *)\n")
            cur = mod
        out.append(f"Definition {name} : list N := {coq_str(d)}.\n")
    return {"SrcDigestGen.v": "".join(out)}
