"""emitter.py -> Gen/EmitterGen.v : patterns, reserved words, escape chains, guard order of needs_quotes."""
import ast

from .tlib import (HEADER, TranslateError, coq_list, coq_str, coq_strlist, const_eval, find_def, module_assign, need,
                   parse_file, replace_chain)

OUTPUTS = ["EmitterGen.v"]


def _guards(fn: ast.FunctionDef):
    """Top-level `if T: return C` sequence of a function, plus the final `return C`."""
    out = []
    for st in fn.body:
        if isinstance(st, ast.Expr) and isinstance(st.value, ast.Constant) and isinstance(st.value.value, str):
            continue  # docstring
        if isinstance(st, ast.If):
            need(not st.orelse and len(st.body) == 1 and isinstance(st.body[0], ast.Return)
                 and isinstance(st.body[0].value, ast.Constant), f"{fn.name}: unexpected if-shape")
            out.append((ast.unparse(st.test), repr(st.body[0].value.value)))
        elif isinstance(st, ast.Return):
            need(isinstance(st.value, ast.Constant), f"{fn.name}: non-constant final return")
            out.append(("<else>", repr(st.value.value)))
        else:
            raise TranslateError(f"{fn.name}: unexpected statement {type(st).__name__}")
    return out


def generate(src):
    mod = parse_file(src / "core" / "emitter.py")
    env = {}
    env["_UNICODE_OPS"] = const_eval(module_assign(mod, "_UNICODE_OPS"))
    pats = {}
    for name in ("IDENTIFIER_PATTERN", "ANNOTATION_PATTERN", "VARIABLE_PATTERN", "EXPRESSION_PATTERN"):
        pats[name] = const_eval(module_assign(mod, name), env)
        need(isinstance(pats[name], str), f"{name} is not a string pattern")
    always = const_eval(module_assign(mod, "_ALWAYS_QUOTE_KEYS"))
    nq = find_def(mod, "needs_quotes")
    guards = _guards(nq)
    reserved = None
    for n in ast.walk(nq):
        if isinstance(n, ast.Compare) and len(n.ops) == 1 and isinstance(n.ops[0], ast.In) \
                and isinstance(n.comparators[0], ast.Tuple):
            reserved = const_eval(n.comparators[0])
    need(reserved is not None, "needs_quotes: reserved-word tuple not found")
    # every .replace chain in the module (escape sites), with the function it occurs in
    chains = []
    for fn in [n for n in mod.body if isinstance(n, ast.FunctionDef)]:
        seen = set()
        for n in ast.walk(fn):
            if isinstance(n, ast.Call) and isinstance(n.func, ast.Attribute) and n.func.attr == "replace" \
                    and id(n) not in seen:
                # only outermost call of a chain
                base, ch = replace_chain(n)
                cur = n
                while isinstance(cur, ast.Call) and isinstance(cur.func, ast.Attribute) and cur.func.attr == "replace":
                    seen.add(id(cur))
                    cur = cur.func.value
                chains.append((fn.name, ch))
    need(len(chains) >= 1, "no escape chain found in emitter.py")
    # multiline threshold: `return non_absent_count >= K` in _needs_multiline
    nm = find_def(mod, "_needs_multiline")
    thr = None
    for n in ast.walk(nm):
        if isinstance(n, ast.Compare) and isinstance(n.left, ast.Name) and n.left.id == "non_absent_count" \
                and isinstance(n.ops[0], ast.GtE):
            thr = const_eval(n.comparators[0])
    need(isinstance(thr, int), "_needs_multiline threshold not found")
    out = [HEADER]
    for name, p in pats.items():
        out.append(f"Definition emitter_{name.lower()} : list N := {coq_str(p)}.\n")
    out.append(f"Definition emitter_unicode_ops : list N := {coq_str(env['_UNICODE_OPS'])}.\n")
    out.append(f"Definition emitter_reserved : list (list N) := {coq_strlist(list(reserved))}.\n")
    out.append(f"Definition emitter_always_quote_keys : list (list N) := {coq_strlist(sorted(always))}.\n")
    out.append(f"Definition emitter_multiline_threshold : N := {thr}.\n")
    items = []
    for fname, ch in chains:
        pairs = coq_list([f"({coq_str(a)}, {coq_str(b)})" for a, b in ch], "(list N * list N)")
        items.append(f"({coq_str(fname)}, {pairs})")
    out.append("(* every `.replace(..)` chain of emitter.py: (function name, ordered (old,new) pairs) *)\n")
    out.append(f"Definition emitter_escape_sites : list (list N * list (list N * list N)) :=\n  {coq_list(items)}.\n")
    g = coq_list([f"({coq_str(t)}, {coq_str(r)})" for t, r in guards])
    out.append("(* needs_quotes: ordered (test source, returned constant) *)\n")
    out.append(f"Definition emitter_needs_quotes_guards : list (list N * list N) :=\n  {g}.\n")
    return {"EmitterGen.v": "".join(out)}
