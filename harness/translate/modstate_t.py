"""all modules of octave_mcp -> Gen/ModStateGen.v   (consumed by Tools/ModuleState.v, Tools/Server.v; property C06)

What is extracted (fail closed: anything the walker cannot classify raises TranslateError):

  ms_bindings        every module-level and class-level binding  (module, qualified name, kind code, detail)
  ms_mutations       every syntactic mutation site of such a binding
                     (module of the site, function, mutated module, mutated name, how)
  ms_escapes         uses of a MUTABLE module/class-level binding that hand the object itself to other code
                     (argument / return / alias / stored in a container): the object may be changed elsewhere
  ms_toplevel_calls  module-level expression statements other than docstrings (side effects at import)
  ms_lazy_imports    imports executed inside functions (write-once process state: sys.modules)
  ms_tool_classes    the classes of mcp/*.py (long lived objects) ; ms_tool_fields their instance fields
                     (self.X assigned in __init__) ; ms_tool_attr_writes every write to self.X / self.X[..] /
                     self.X.mutator() OUTSIDE __init__ ; ms_server_closure the objects create_server() keeps alive
  ms_tool_awaits     every `await` / `async for` / `async with` inside those classes (scheduling points)
  ms_unordered_iter  every order-revealing consumption of a syntactically set-typed expression that is not
                     under sorted(...) (for / comprehension / list() / tuple() / join / str / f-string / pop / ...)
  ms_sorted_sets     every sorted(<set-typed>) site (the reporting functions the permutation lemmas model)
  ms_ambient         every use of hash(), id(), random, uuid, time, datetime.now-like, os.environ/getenv, locale,
                     getcwd/Path.cwd/Path.home, absolute()/resolve(), tempfile, text-mode open() without encoding,
                     sys.argv/..., threading/socket/platform (category, module, function, what)
  schema_search_order / schema_filename_patterns   from schemas/loader.py
"""
from __future__ import annotations

import ast
from pathlib import Path

from .tlib import HEADER, TranslateError, coq_list, coq_str, need, parse_file

OUTPUTS = ["ModStateGen.v"]

# kind codes (mirrored in Tools/ModuleState.v)
K_IMM, K_REGEX, K_FROZENSET, K_TUPLE, K_MUT_LIST, K_MUT_DICT, K_MUT_SET, K_INSTANCE, K_FIELD, K_ALIAS, K_TYPE = range(11)
KIND_NAMES = ["immutable-literal", "compiled-regex", "frozenset", "tuple", "mutable-list", "mutable-dict", "mutable-set",
              "class-instance", "dataclass-field", "alias", "type-alias"]
MUTABLE_KINDS = (K_MUT_LIST, K_MUT_DICT, K_MUT_SET)

MUTATORS = {"append", "extend", "insert", "remove", "pop", "clear", "sort", "reverse", "add", "update", "discard",
            "setdefault", "popitem", "__setitem__", "__delitem__", "difference_update", "intersection_update",
            "symmetric_difference_update", "appendleft", "popleft", "extendleft", "rotate", "move_to_end",
            "__setattr__", "__delattr__", "__iadd__", "__ior__", "__iand__", "__isub__", "__ixor__", "__imul__"}
# methods of list/dict/set/frozenset that do not change the receiver
PURE_METHODS = {"get", "keys", "values", "items", "copy", "index", "count", "union", "intersection", "difference",
                "symmetric_difference", "issubset", "issuperset", "isdisjoint", "__contains__", "__getitem__",
                "__len__", "__iter__"}
SET_BINOPS = (ast.Sub, ast.BitAnd, ast.BitOr, ast.BitXor)
SET_RET_METHODS = {"union", "intersection", "difference", "symmetric_difference", "copy"}
ORDER_INSENSITIVE_CONSUMERS = {"set", "frozenset", "sorted", "any", "all", "sum", "min", "max", "len"}
ORDER_REVEALING_CALLS = {"list", "tuple", "enumerate", "iter", "next", "str", "repr", "zip", "map", "filter", "reversed",
                         "dict"}

AMBIENT_MODULES = {"random", "uuid", "time", "locale", "secrets", "socket", "platform", "getpass", "tempfile",
                   "threading", "multiprocessing", "signal", "resource", "gc", "weakref", "atexit"}
OS_AMBIENT = {"environ", "getenv", "getenvb", "putenv", "unsetenv", "getcwd", "getcwdb", "chdir", "getpid", "getppid",
              "urandom", "times", "cpu_count", "getlogin", "uname", "umask", "getuid", "geteuid", "getgid",
              "get_terminal_size", "ctermid", "getloadavg"}
SYS_AMBIENT = {"argv", "path", "stdin", "getdefaultencoding", "getfilesystemencoding", "platform", "maxsize", "hash_info",
               "flags", "executable", "modules", "getrecursionlimit", "setrecursionlimit", "version", "version_info",
               "byteorder", "getsizeof", "stdout", "stderr"}
DATETIME_AMBIENT = {"now", "utcnow", "today", "fromtimestamp", "utcfromtimestamp", "astimezone", "timestamp", "strftime",
                    "ctime"}
PATH_AMBIENT = {"cwd", "home", "expanduser", "absolute", "resolve"}
DYNAMIC_STATE_CALLS = {"globals", "setattr", "delattr", "vars", "exec", "eval", "__import__"}


def _src(e, n=70):
    s = ast.unparse(e).replace("\n", " ")
    return s if len(s) <= n else s[: n - 3] + "..."


# --------------------------------------------------------------------------------------------------------------
# scopes
class Scope:
    def __init__(self, node, parent, qual):
        self.node, self.parent, self.qual = node, parent, qual
        self.locals = set()
        self.globals_decl = set()
        self.settyped = set()      # local names assigned from a set-typed expression / annotated set[...]


def _target_names(t, out):
    if isinstance(t, ast.Name):
        out.add(t.id)
    elif isinstance(t, (ast.Tuple, ast.List)):
        for e in t.elts:
            _target_names(e, out)
    elif isinstance(t, ast.Starred):
        _target_names(t.value, out)


def _own_nodes(fn):
    """Nodes of a function body, not descending into nested defs/lambdas/classes (comprehensions are descended)."""
    stack = list(fn.body) if not isinstance(fn, ast.Lambda) else [fn.body]
    while stack:
        n = stack.pop()
        yield n
        for c in ast.iter_child_nodes(n):
            if isinstance(c, (ast.FunctionDef, ast.AsyncFunctionDef, ast.ClassDef, ast.Lambda)):
                continue
            stack.append(c)


def _bound_names(fn):
    names, glob = set(), set()
    a = fn.args
    for arg in a.posonlyargs + a.args + a.kwonlyargs + ([a.vararg] if a.vararg else []) + ([a.kwarg] if a.kwarg else []):
        names.add(arg.arg)
    if isinstance(fn, ast.Lambda):
        return names, glob
    for st in fn.body:
        if isinstance(st, (ast.FunctionDef, ast.AsyncFunctionDef, ast.ClassDef)):
            names.add(st.name)
    for n in _own_nodes(fn):
        if isinstance(n, (ast.FunctionDef, ast.AsyncFunctionDef, ast.ClassDef)):
            names.add(n.name)
        elif isinstance(n, ast.Assign):
            for t in n.targets:
                _target_names(t, names)
        elif isinstance(n, (ast.AnnAssign, ast.AugAssign)):
            _target_names(n.target, names)
        elif isinstance(n, (ast.For, ast.AsyncFor)):
            _target_names(n.target, names)
        elif isinstance(n, ast.comprehension):
            _target_names(n.target, names)
        elif isinstance(n, (ast.With, ast.AsyncWith)):
            for it in n.items:
                if it.optional_vars is not None:
                    _target_names(it.optional_vars, names)
        elif isinstance(n, ast.ExceptHandler) and n.name:
            names.add(n.name)
        elif isinstance(n, (ast.Import, ast.ImportFrom)):
            for al in n.names:
                names.add((al.asname or al.name).split(".")[0])
        elif isinstance(n, ast.NamedExpr):
            _target_names(n.target, names)
        elif isinstance(n, ast.Global):
            glob.update(n.names)
        elif isinstance(n, ast.Nonlocal):
            pass
        elif isinstance(n, (ast.MatchAs, ast.MatchStar)) and getattr(n, "name", None):
            names.add(n.name)
    return names - glob, glob


# --------------------------------------------------------------------------------------------------------------
class ModInfo:
    def __init__(self, rel, tree):
        self.rel = rel                  # e.g. "core/routing"
        self.tree = tree
        self.bindings = {}              # qualified name -> (kind, detail)   (module-level "X", class-level "C.X")
        self.order = []                 # qualified names in source order
        self.imports = {}               # local name -> ("mod", dotted) | ("from", dotted module, name)
        self.classes = {}               # class name -> ClassDef
        self.funcs_set_ret = set()      # functions annotated -> set[...]
        self.toplevel_calls = []
        self.set_attrs = set()          # attribute names X for which some class assigns self.X = <set-typed> / X: set[...]


def _ann_is_set(ann):
    if ann is None:
        return False
    s = ast.unparse(ann).replace("typing.", "")
    return s.startswith(("set[", "frozenset[", "Set[", "FrozenSet[", "AbstractSet[", "MutableSet[")) or s in ("set", "frozenset")


def _classify_value(e, mi: ModInfo, cls=None):
    """-> (kind, detail)"""
    if isinstance(e, ast.Constant):
        return K_IMM, type(e.value).__name__
    if isinstance(e, ast.JoinedStr):
        return K_IMM, "f-string"
    if isinstance(e, ast.UnaryOp):
        k, d = _classify_value(e.operand, mi, cls)
        need(k == K_IMM, f"{mi.rel}: unary op on non-literal at module level: {_src(e)}")
        return K_IMM, d
    if isinstance(e, ast.BinOp):
        kl, dl = _classify_value(e.left, mi, cls)
        kr, dr = _classify_value(e.right, mi, cls)
        if kl in (K_IMM, K_ALIAS) and kr in (K_IMM, K_ALIAS):
            return K_IMM, "expr"
        if kl == K_TYPE or kr == K_TYPE:
            return K_TYPE, "union-type"
        if kl in (K_FROZENSET,) and kr in (K_FROZENSET,):
            return K_FROZENSET, "frozenset-expr"
        if kl == K_TUPLE and kr == K_TUPLE:
            return K_TUPLE, "tuple-expr"
        raise TranslateError(f"{mi.rel}: module-level binary expression not classified: {_src(e)}")
    if isinstance(e, ast.Tuple):
        for x in e.elts:
            k, _ = _classify_value(x, mi, cls)
            if k in MUTABLE_KINDS:
                return K_MUT_LIST, "tuple-with-mutable-element"
        return K_TUPLE, f"tuple/{len(e.elts)}"
    if isinstance(e, (ast.List, ast.ListComp)):
        flat = isinstance(e, ast.List) and all(_is_flat(x) for x in e.elts)
        return K_MUT_LIST, "list" + (f"/{len(e.elts)}" if isinstance(e, ast.List) else "-comp") + (" flat" if flat else "")
    if isinstance(e, (ast.Dict, ast.DictComp)):
        flat = isinstance(e, ast.Dict) and all(v is not None and _is_flat(v) for v in e.values)
        return K_MUT_DICT, "dict" + (f"/{len(e.keys)}" if isinstance(e, ast.Dict) else "-comp") + (" flat" if flat else "")
    if isinstance(e, (ast.Set, ast.SetComp)):
        return K_MUT_SET, "set" + (f"/{len(e.elts)}" if isinstance(e, ast.Set) else "-comp") + " flat"
    if isinstance(e, ast.Lambda):
        return K_ALIAS, "lambda"
    if isinstance(e, ast.Subscript):
        base = _src(e.value)
        if isinstance(e.value, ast.Name) and e.value.id in mi.bindings:
            # X = TABLE["k"]  : element of a module-level container; immutable iff the element is a literal
            return K_ALIAS, f"element-of {base}"
        return K_TYPE, f"generic {base}"
    if isinstance(e, ast.Name):
        if e.id in mi.bindings:
            return mi.bindings[e.id]
        return K_ALIAS, f"name {e.id}"
    if isinstance(e, ast.Attribute):
        return K_ALIAS, f"attr {_src(e)}"
    if isinstance(e, ast.Call):
        fn = _src(e.func)
        if fn in ("frozenset",):
            return K_FROZENSET, "frozenset()"
        if fn in ("re.compile",):
            flags = [_src(a) for a in e.args[1:]] + [_src(k.value) for k in e.keywords]
            need(not any("LOCALE" in f or f.endswith(".L") for f in flags), f"{mi.rel}: re.LOCALE flag (locale dependent)")
            return K_REGEX, "re.compile"
        if fn == "tuple":
            return K_TUPLE, "tuple()"
        if fn in ("list", "sorted", "collections.deque", "deque"):
            return K_MUT_LIST, fn + "()"
        if fn in ("dict", "defaultdict", "collections.defaultdict", "OrderedDict", "collections.OrderedDict", "Counter",
                  "collections.Counter", "WeakValueDictionary", "weakref.WeakValueDictionary", "ChainMap"):
            return K_MUT_DICT, fn + "()"
        if fn == "set":
            return K_MUT_SET, "set()"
        if fn in ("field", "dataclasses.field"):
            need(cls is not None, f"{mi.rel}: dataclasses.field() outside a class body")
            fac = [k for k in e.keywords if k.arg in ("default_factory", "default")]
            return K_FIELD, "field(" + ", ".join(f"{k.arg}={_src(k.value, 30)}" for k in fac) + ")"
        if fn in ("TypeVar", "typing.TypeVar", "NewType", "typing.NewType", "namedtuple", "collections.namedtuple"):
            return K_TYPE, fn
        if fn in ("lru_cache", "functools.lru_cache", "cache", "functools.cache", "cached_property"):
            raise TranslateError(f"{mi.rel}: memoisation object at module/class level: {_src(e)}")
        return K_INSTANCE, fn
    if isinstance(e, ast.IfExp):
        k1, d1 = _classify_value(e.body, mi, cls)
        k2, _ = _classify_value(e.orelse, mi, cls)
        need(k1 == k2, f"{mi.rel}: conditional module-level value of two kinds: {_src(e)}")
        return k1, d1
    raise TranslateError(f"{mi.rel}: module-level value not classified: {type(e).__name__} {_src(e)}")


def _is_flat(e):
    """literal whose value cannot be mutated: constants and tuples of such (so reading it out of a container leaks nothing)"""
    if isinstance(e, ast.Constant):
        return True
    if isinstance(e, ast.Tuple):
        return all(_is_flat(x) for x in e.elts)
    if isinstance(e, ast.JoinedStr):
        return True
    if isinstance(e, ast.BinOp):
        return _is_flat(e.left) and _is_flat(e.right)
    if isinstance(e, ast.Attribute) and isinstance(e.value, ast.Name) and e.value.id[:1].isupper():
        return True   # Enum member such as TokenType.X
    return False


def _decorators(node):
    return [_src(d) for d in node.decorator_list]


def _scan_body(body, mi: ModInfo, cls=None, mut_sites=None):
    """Module body (cls None) or class body."""
    pref = (cls + ".") if cls else ""
    for i, st in enumerate(body):
        if isinstance(st, ast.Expr):
            if isinstance(st.value, ast.Constant) and isinstance(st.value.value, str):
                continue  # docstring / bare string
            if isinstance(st.value, ast.Constant) and st.value.value is Ellipsis:
                continue
            need(isinstance(st.value, ast.Call), f"{mi.rel}: module/class-level expression statement {_src(st.value)}")
            mi.toplevel_calls.append((pref.rstrip("."), _src(st.value)))
        elif isinstance(st, (ast.Import, ast.ImportFrom)):
            need(cls is None, f"{mi.rel}: import inside class body")
            _record_import(st, mi)
        elif isinstance(st, (ast.FunctionDef, ast.AsyncFunctionDef)):
            for d in _decorators(st):
                need(not any(x in d for x in ("lru_cache", "cache", "cached_property", "singledispatch")),
                     f"{mi.rel}: memoising/dispatching decorator {d} on {pref}{st.name} (hidden module state)")
            if st.returns is not None and _ann_is_set(st.returns):
                mi.funcs_set_ret.add(st.name)
        elif isinstance(st, ast.ClassDef):
            need(cls is None, f"{mi.rel}: nested class {pref}{st.name}")
            mi.classes[st.name] = st
            _scan_body(st.body, mi, cls=st.name, mut_sites=mut_sites)
        elif isinstance(st, ast.Assign):
            kd = _classify_value(st.value, mi, cls)
            for t in st.targets:
                names = set()
                if isinstance(t, ast.Name) or isinstance(t, (ast.Tuple, ast.List)):
                    _target_names(t, names)
                    need(isinstance(t, ast.Name) or kd[0] in (K_IMM, K_TUPLE), f"{mi.rel}: tuple-unpacking module binding of kind {kd}")
                    for nm in sorted(names):
                        _add_binding(mi, pref + nm, kd, mut_sites)
                else:
                    # X[...] = v  /  X.a = v  at module level: a mutation site executed at import
                    base = _base_name(t)
                    need(base is not None, f"{mi.rel}: module-level assignment target {_src(t)}")
                    mut_sites.append((mi.rel, "<module>", mi.rel, pref + base, "import-time store " + _src(t, 40)))
        elif isinstance(st, ast.AnnAssign):
            need(isinstance(st.target, ast.Name), f"{mi.rel}: annotated module-level target {_src(st.target)}")
            if st.value is None:
                if cls is not None:
                    # dataclass field without default / bare annotation: per-instance, no class-level object
                    continue
                continue
            kd = _classify_value(st.value, mi, cls)
            _add_binding(mi, pref + st.target.id, kd, mut_sites)
            if cls is not None and _ann_is_set(st.annotation):
                mi.set_attrs.add(st.target.id)
        elif isinstance(st, ast.AugAssign):
            base = _base_name(st.target)
            need(base is not None, f"{mi.rel}: module-level augmented assignment {_src(st.target)}")
            mut_sites.append((mi.rel, "<module>", mi.rel, pref + base, "import-time augmented assignment"))
        elif isinstance(st, ast.Delete):
            for t in st.targets:
                base = _base_name(t)
                need(base is not None, f"{mi.rel}: module-level del {_src(t)}")
                mut_sites.append((mi.rel, "<module>", mi.rel, pref + base, "import-time del"))
        elif isinstance(st, ast.If):
            test = _src(st.test)
            need(cls is None and test in ("TYPE_CHECKING", "typing.TYPE_CHECKING", "__name__ == '__main__'"),
                 f"{mi.rel}: module-level `if {test}` not understood")
            _scan_body(st.body, mi, cls, mut_sites)
            _scan_body(st.orelse, mi, cls, mut_sites)
        elif isinstance(st, ast.Try):
            need(cls is None, f"{mi.rel}: try in class body")
            _scan_body(st.body, mi, cls, mut_sites)
            for h in st.handlers:
                _scan_body(h.body, mi, cls, mut_sites)
            _scan_body(st.orelse, mi, cls, mut_sites)
            _scan_body(st.finalbody, mi, cls, mut_sites)
        elif isinstance(st, ast.Pass):
            continue
        else:
            raise TranslateError(f"{mi.rel}: module/class-level statement {type(st).__name__} not understood (line {st.lineno})")


def _add_binding(mi, q, kd, mut_sites):
    if q in mi.bindings:
        # rebinding of a module-level name at import time (e.g. in try/except fallbacks)
        mut_sites.append((mi.rel, "<module>", mi.rel, q, "rebound at import time"))
    else:
        mi.order.append(q)
    mi.bindings[q] = kd


def _record_import(st, mi):
    if isinstance(st, ast.Import):
        for al in st.names:
            mi.imports[(al.asname or al.name).split(".")[0]] = ("mod", al.name if al.asname else al.name.split(".")[0])
    else:
        need(st.level == 0 or st.module is not None or True, "relative import")
        modname = ("." * st.level) + (st.module or "")
        for al in st.names:
            need(al.name != "*", f"{mi.rel}: star import from {modname}")
            mi.imports[al.asname or al.name] = ("from", modname, al.name)


def _base_name(t):
    """Name at the root of an attribute/subscript chain."""
    while isinstance(t, (ast.Attribute, ast.Subscript, ast.Starred)):
        t = t.value
    return t.id if isinstance(t, ast.Name) else None


def _chain(t):
    """x.a.b[..].c -> ('x', ['a','b','[]','c'])"""
    parts = []
    while isinstance(t, (ast.Attribute, ast.Subscript)):
        parts.append(t.attr if isinstance(t, ast.Attribute) else "[]")
        t = t.value
    parts.reverse()
    return (t.id if isinstance(t, ast.Name) else None), parts


# --------------------------------------------------------------------------------------------------------------
class Walker:
    """Walks every function of one module; resolves names against scopes; records sites."""

    def __init__(self, mi: ModInfo, mods: dict, out: dict):
        self.mi, self.mods, self.out = mi, mods, out
        self.parents = {}
        for n in ast.walk(mi.tree):
            for c in ast.iter_child_nodes(n):
                self.parents[id(c)] = n

    # ---- resolution -------------------------------------------------------------------------------------------
    def resolve(self, name, scope):
        """-> None (local / builtin / unknown)  |  (module rel, qualified binding)  |  ('<extmod>', dotted)"""
        s = scope
        imp = None
        while s is not None:
            if name in s.globals_decl:
                break
            if name in s.locals:
                imp = getattr(s, "local_imports", {}).get(name)
                if imp is None:
                    return None
                break
            s = s.parent
        if imp is None:
            if name in self.mi.bindings:
                return (self.mi.rel, name)
            if name in self.mi.classes:
                return ("<class>", name)
            imp = self.mi.imports.get(name)
        if imp is None:
            return None
        if imp[0] == "mod":
            return ("<extmod>", imp[1])
        modname, nm = imp[1], imp[2]
        rel = _rel_of(modname, self.mi.rel)
        if rel is not None and rel in self.mods:
            other = self.mods[rel]
            if nm in other.bindings:
                return (rel, nm)
            if nm in other.classes:
                return ("<class>", rel + ":" + nm)
            return None
        if rel is not None and (rel + "/" + nm) in self.mods:
            return ("<pkgmod>", rel + "/" + nm)
        return ("<extname>", modname + "." + nm)

    def kind_of(self, res):
        if res is None or res[0].startswith("<"):
            return None
        return self.mods[res[0]].bindings[res[1]][0]

    # ---- set-typedness ------------------------------------------------------------------------------------------
    def is_set(self, e, scope):
        if isinstance(e, (ast.Set, ast.SetComp)):
            return True
        if isinstance(e, ast.Call):
            fn = e.func
            if isinstance(fn, ast.Name) and fn.id in ("set", "frozenset") and self.resolve(fn.id, scope) is None:
                return True
            if isinstance(fn, ast.Name):
                if fn.id in self.mi.funcs_set_ret and self.resolve(fn.id, scope) is None or \
                        (fn.id in self.mi.funcs_set_ret and fn.id not in self._all_locals(scope)):
                    return True
                imp = self.mi.imports.get(fn.id)
                if imp and imp[0] == "from":
                    rel = _rel_of(imp[1], self.mi.rel)
                    if rel in self.mods and imp[2] in self.mods[rel].funcs_set_ret:
                        return True
            if isinstance(fn, ast.Attribute) and fn.attr in SET_RET_METHODS and self.is_set(fn.value, scope):
                return True
            return False
        if isinstance(e, ast.BinOp) and isinstance(e.op, SET_BINOPS):
            return self.is_set(e.left, scope) or self.is_set(e.right, scope)
        if isinstance(e, ast.Name):
            s = scope
            while s is not None:
                if e.id in s.locals:
                    return e.id in s.settyped
                s = s.parent
            res = self.resolve(e.id, scope)
            k = self.kind_of(res)
            return k in (K_MUT_SET, K_FROZENSET)
        if isinstance(e, ast.Attribute):
            # obj.X where some class of the package declares X as a set (self.X = set() / X: set[...] / frozenset class attr)
            if e.attr in self.out["set_attr_names"]:
                return True
            return False
        if isinstance(e, ast.IfExp):
            return self.is_set(e.body, scope) or self.is_set(e.orelse, scope)
        if isinstance(e, ast.NamedExpr):
            return self.is_set(e.value, scope)
        return False

    def _all_locals(self, scope):
        out = set()
        s = scope
        while s is not None:
            out |= s.locals
            s = s.parent
        return out

    # ---- walking ------------------------------------------------------------------------------------------------
    def run(self):
        top = Scope(self.mi.tree, None, "<module>")
        self._walk_defs(self.mi.tree.body, top, "", None)
        # module-level statements themselves (import-time code) are also scanned for sites
        for st in self.mi.tree.body:
            if not isinstance(st, (ast.FunctionDef, ast.AsyncFunctionDef, ast.ClassDef)):
                self._scan_nodes([st], top, "<module>", None, None)

    def _walk_defs(self, body, scope, qual, cls):
        for st in body:
            if isinstance(st, (ast.FunctionDef, ast.AsyncFunctionDef)):
                self._function(st, scope, (qual + "." if qual else "") + st.name, cls)
            elif isinstance(st, ast.ClassDef):
                # class body statements (defaults etc.) are import-time code
                for c in st.body:
                    if not isinstance(c, (ast.FunctionDef, ast.AsyncFunctionDef, ast.ClassDef)):
                        self._scan_nodes([c], scope, st.name + ".<classbody>", st.name, None)
                self._walk_defs(st.body, scope, (qual + "." if qual else "") + st.name, st.name)
            elif isinstance(st, (ast.If, ast.Try)):
                for sub in ("body", "orelse", "finalbody"):
                    self._walk_defs(getattr(st, sub, []), scope, qual, cls)
                for h in getattr(st, "handlers", []):
                    self._walk_defs(h.body, scope, qual, cls)

    def _function(self, fn, parent_scope, qual, cls):
        sc = Scope(fn, parent_scope, qual)
        sc.locals, sc.globals_decl = _bound_names(fn)
        # names bound by function-level imports still denote the imported module / object
        tmp = ModInfo(self.mi.rel, None)
        for n in _own_nodes(fn):
            if isinstance(n, (ast.Import, ast.ImportFrom)):
                _record_import(n, tmp)
        sc.local_imports = tmp.imports
        for g in sorted(sc.globals_decl):
            self.out["mutations"].append((self.mi.rel, qual, self.mi.rel, g, "global statement"))
        # set-typed locals: parameters annotated set[...], assignments from set-typed expressions (iterate to fixpoint)
        a = fn.args
        for arg in a.posonlyargs + a.args + a.kwonlyargs:
            if _ann_is_set(arg.annotation):
                sc.settyped.add(arg.arg)
        changed = True
        while changed:
            changed = False
            for n in _own_nodes(fn):
                tgt = None
                if isinstance(n, ast.Assign) and len(n.targets) == 1 and isinstance(n.targets[0], ast.Name):
                    tgt, val, ann = n.targets[0].id, n.value, None
                elif isinstance(n, ast.AnnAssign) and isinstance(n.target, ast.Name):
                    tgt, val, ann = n.target.id, n.value, n.annotation
                elif isinstance(n, ast.NamedExpr):
                    tgt, val, ann = n.target.id, n.value, None
                if tgt is None or tgt in sc.settyped:
                    continue
                if _ann_is_set(ann) or (val is not None and self.is_set(val, sc)):
                    sc.settyped.add(tgt)
                    changed = True
        first_arg = (a.posonlyargs + a.args)[0].arg if (a.posonlyargs + a.args) else None
        self._scan_nodes(fn.body, sc, qual, cls, first_arg if cls else None, fn=fn)
        # nested defs
        for n in _own_nodes(fn):
            if isinstance(n, (ast.FunctionDef, ast.AsyncFunctionDef)):
                self._function(n, sc, qual + "." + n.name, None)
            elif isinstance(n, ast.ClassDef):
                # function-local class: no module-level object; its class body must hold no containers, methods are walked
                for c in n.body:
                    if isinstance(c, (ast.FunctionDef, ast.AsyncFunctionDef)):
                        self._function(c, sc, qual + "." + n.name + "." + c.name, None)
                    elif isinstance(c, ast.Expr) and isinstance(c.value, ast.Constant):
                        continue
                    else:
                        raise TranslateError(f"{self.mi.rel}: statement {type(c).__name__} in body of function-local class "
                                             f"{n.name} ({qual})")
            elif isinstance(n, ast.Lambda):
                lsc = Scope(n, sc, qual + ".<lambda>")
                lsc.locals, _ = _bound_names(n)
                self._scan_nodes([n.body], lsc, qual + ".<lambda>", None, None)

    # ---- site detection -----------------------------------------------------------------------------------------
    def _scan_nodes(self, body, scope, qual, cls, selfname, fn=None):
        M = self.mi.rel
        out = self.out
        is_tool = M.startswith("mcp/") and cls is not None and (cls, M) in self.out["long_lived"]
        in_init = fn is not None and fn.name in ("__init__", "__post_init__")

        def nodes():
            stack = list(body)
            while stack:
                n = stack.pop()
                yield n
                for c in ast.iter_child_nodes(n):
                    if isinstance(c, (ast.FunctionDef, ast.AsyncFunctionDef, ast.ClassDef, ast.Lambda)):
                        continue
                    stack.append(c)

        def store_site(t, how):
            base, parts = _chain(t)
            if base is None:
                # e.g. f(x).attr = v, self.a().b = ...
                root = t
                while isinstance(root, (ast.Attribute, ast.Subscript)):
                    root = root.value
                if isinstance(root, ast.Call) and _src(root.func) in ("globals", "vars", "locals"):
                    out["mutations"].append((M, qual, M, "<dynamic>", f"{how} through {_src(root.func)}()"))
                return
            if not parts:
                # plain name store: only interesting with `global`
                if base in scope.globals_decl:
                    out["mutations"].append((M, qual, M, base, f"rebinding ({how}) under global"))
                return
            # cls.attr = v  /  self.__class__.attr = v  /  type(self).attr  /  ClassName.attr = v
            if selfname is not None and base == selfname and cls is not None:
                if fn is not None and (fn.name == "__new__" or "classmethod" in _decorators(fn)):
                    out["mutations"].append((M, qual, M, cls + "." + parts[0], f"{how} through {selfname}. (class object)"))
                    return
                if parts[0] == "__class__" and len(parts) > 1:
                    out["mutations"].append((M, qual, M, cls + "." + parts[1], f"{how} through self.__class__"))
                    return
                if parts[0] == "__dict__":
                    out["mutations"].append((M, qual, M, cls + ".<dynamic>", f"{how} through self.__dict__"))
                    return
                if is_tool:
                    (out["tool_fields"] if in_init and len(parts) == 1 and how == "assignment" else out["tool_attr_writes"]).append(
                        (M, cls, parts[0], qual if not in_init else "__init__", how))
                return
            res = self.resolve(base, scope)
            if res is None:
                return
            if res[0] == "<class>":
                cname = res[1]
                out["mutations"].append((M, qual, M if ":" not in cname else cname.split(":")[0],
                                         cname.split(":")[-1] + "." + parts[0], f"{how} on class attribute"))
                return
            if res[0] in ("<extmod>", "<pkgmod>", "<extname>"):
                # mod.X = v / mod.X[k] = v : state of another module
                out["mutations"].append((M, qual, res[1], ".".join(p for p in parts if p != "[]") or "<module>",
                                         f"{how} on attribute of imported module/object {base}"))
                return
            out["mutations"].append((M, qual, res[0], res[1], f"{how} {_src(t, 40)}"))

        for n in nodes():
            # ---------------- stores ----------------
            if isinstance(n, ast.Assign):
                for t in n.targets:
                    for tt in (t.elts if isinstance(t, (ast.Tuple, ast.List)) else [t]):
                        store_site(tt, "assignment")
            elif isinstance(n, ast.AnnAssign) and n.value is not None:
                store_site(n.target, "assignment")
            elif isinstance(n, ast.AugAssign):
                store_site(n.target, "augmented assignment")
                if isinstance(n.target, ast.Name):
                    res = self.resolve(n.target.id, scope) if n.target.id in scope.globals_decl else None
                    if res:
                        out["mutations"].append((M, qual, res[0], res[1], "augmented assignment under global"))
            elif isinstance(n, ast.Delete):
                for t in n.targets:
                    store_site(t, "del")
            elif isinstance(n, (ast.For, ast.AsyncFor)):
                for tt in ast.walk(n.target):
                    if isinstance(tt, (ast.Attribute, ast.Subscript)):
                        store_site(tt, "for-target")
            # ---------------- calls ----------------
            if isinstance(n, ast.Call):
                f = n.func
                fname = _src(f)
                if isinstance(f, ast.Name) and f.id in DYNAMIC_STATE_CALLS and self.resolve(f.id, scope) is None \
                        and f.id not in self._all_locals(scope):
                    if f.id in ("setattr", "delattr"):
                        tgt = _src(n.args[0]) if n.args else "?"
                        if is_tool and selfname and tgt == selfname:
                            out["tool_attr_writes"].append((M, cls, "<dynamic>", qual, f.id))
                        else:
                            out["mutations"].append((M, qual, M, "<dynamic>", f"{f.id}({tgt}, ...)"))
                    else:
                        out["mutations"].append((M, qual, M, "<dynamic>", f"{f.id}() call"))
                if isinstance(f, ast.Attribute):
                    base, parts = _chain(f)
                    meth = f.attr
                    recv = f.value
                    # mutator on a module-level / class-level binding (possibly through subscripts/attributes)
                    if base is not None and meth in MUTATORS:
                        rb, rparts = _chain(recv)
                        if selfname is not None and rb == selfname and cls is not None and rparts:
                            if fn is not None and (fn.name == "__new__" or "classmethod" in _decorators(fn)):
                                out["mutations"].append((M, qual, M, cls + "." + rparts[0], f".{meth}() through class object"))
                            elif is_tool and not in_init:
                                out["tool_attr_writes"].append((M, cls, rparts[0], qual, f".{meth}()"))
                            elif not is_tool and rparts[0] in self._class_level_mutables(cls):
                                out["mutations"].append((M, qual, M, cls + "." + rparts[0], f".{meth}() on class-level container through self"))
                        else:
                            res = self.resolve(rb, scope) if rb else None
                            if res is not None:
                                if res[0] == "<class>":
                                    out["mutations"].append((M, qual, M, res[1].split(":")[-1] + "." + ".".join(rparts),
                                                             f".{meth}() on class attribute"))
                                elif res[0] in ("<extmod>", "<pkgmod>", "<extname>"):
                                    if not (res[0] == "<extmod>" and not rparts):
                                        out["mutations"].append((M, qual, res[1], ".".join(p for p in rparts if p != "[]"),
                                                                 f".{meth}() on object of imported module"))
                                else:
                                    out["mutations"].append((M, qual, res[0], res[1], f".{meth}() {_src(n, 40)}"))
                    # order-revealing method on a set
                    if meth == "pop" and not n.args and self.is_set(recv, scope):
                        out["unordered"].append((M, qual, "set.pop()", _src(n)))
                    if meth == "join" and len(n.args) == 1 and self.is_set(n.args[0], scope):
                        out["unordered"].append((M, qual, "join(set)", _src(n)))
                    if meth in ("extend", "update", "writelines") and len(n.args) == 1 and self.is_set(n.args[0], scope) \
                            and not self.is_set(recv, scope):
                        out["unordered"].append((M, qual, f".{meth}(set)", _src(n)))
                if isinstance(f, ast.Name) and self.resolve(f.id, scope) is None and f.id not in self._all_locals(scope):
                    if f.id in ORDER_REVEALING_CALLS and n.args and any(self.is_set(a, scope) for a in n.args):
                        if not self._under_insensitive(n):
                            out["unordered"].append((M, qual, f"{f.id}(set)", _src(n)))
                    if f.id == "sorted" and n.args and self.is_set(n.args[0], scope):
                        out["sorted_sets"].append((M, qual, _src(n)))
                    if f.id in ("hash", "id"):
                        out["ambient"].append((f.id, M, qual, _src(n)))
                    if f.id == "open":
                        mode = None
                        if len(n.args) >= 2:
                            mode = _src(n.args[1])
                        for k in n.keywords:
                            if k.arg == "mode":
                                mode = _src(k.value)
                        binary = mode is not None and "b" in mode
                        if not binary and not any(k.arg == "encoding" for k in n.keywords):
                            out["ambient"].append(("locale-encoding", M, qual, _src(n)))
                    if f.id in ("print", "input"):
                        pass
                # any starred set argument
                for a_ in n.args:
                    if isinstance(a_, ast.Starred) and self.is_set(a_.value, scope):
                        out["unordered"].append((M, qual, "*set", _src(n)))
            # ---------------- iteration ----------------
            if isinstance(n, (ast.For, ast.AsyncFor)) and self.is_set(n.iter, scope):
                out["unordered"].append((M, qual, "for", _src(n.iter)))
            if isinstance(n, (ast.ListComp, ast.GeneratorExp, ast.DictComp, ast.SetComp)):
                for g in n.generators:
                    if self.is_set(g.iter, scope):
                        if isinstance(n, ast.SetComp) or (isinstance(n, ast.GeneratorExp) and self._under_insensitive(n)):
                            continue
                        out["unordered"].append((M, qual, "comprehension", _src(g.iter)))
            if isinstance(n, ast.FormattedValue) and self.is_set(n.value, scope):
                out["unordered"].append((M, qual, "f-string", _src(n.value)))
            if isinstance(n, ast.Assign) and isinstance(n.targets[0], (ast.Tuple, ast.List)) and self.is_set(n.value, scope):
                out["unordered"].append((M, qual, "unpack", _src(n.value)))
            if isinstance(n, ast.Return) and n.value is not None and self.is_set(n.value, scope) and is_tool:
                out["unordered"].append((M, qual, "return set from tool", _src(n.value)))
            # ---------------- awaits (tool classes only) ----------------
            if is_tool and isinstance(n, (ast.Await, ast.AsyncFor, ast.AsyncWith, ast.Yield, ast.YieldFrom)):
                out["tool_awaits"].append((M, cls, qual, type(n).__name__ + " " + _src(n, 40)))
            # ---------------- lazy imports ----------------
            if isinstance(n, (ast.Import, ast.ImportFrom)) and fn is not None:
                modname = n.module if isinstance(n, ast.ImportFrom) else ",".join(a_.name for a_ in n.names)
                out["lazy_imports"].append((M, qual, ("." * getattr(n, "level", 0)) + (modname or "")))
            # ---------------- ambient inputs (attribute uses) ----------------
            if isinstance(n, ast.Attribute):
                base, parts = _chain(n)
                par = self.parents.get(id(n))
                if isinstance(par, ast.Attribute):
                    pass  # only the outermost attribute of a chain is examined
                elif base is not None:
                    res = self.resolve(base, scope)
                    self._ambient_attr(res, base, parts, n, M, qual)
                else:
                    # (expr).cwd() etc: Path(x).absolute()
                    if n.attr in PATH_AMBIENT and isinstance(par, ast.Call) and par.func is n:
                        out["ambient"].append(("path-" + n.attr, M, qual, _src(par)))
            if isinstance(n, ast.Name) and isinstance(n.ctx, ast.Load):
                res = self.resolve(n.id, scope)
                if res is not None and res[0] == "<extname>":
                    modname, nm = res[1].rsplit(".", 1)
                    par = self.parents.get(id(n))
                    if modname.split(".")[0] in AMBIENT_MODULES and not isinstance(par, ast.Attribute):
                        out["ambient"].append((modname.split(".")[0], M, qual, res[1]))
                    if modname == "os" and nm in OS_AMBIENT and not isinstance(par, ast.Attribute):
                        out["ambient"].append(("os-" + nm, M, qual, res[1]))
                # escapes of mutable module-level objects
                k = self.kind_of(res)
                if k in MUTABLE_KINDS:
                    self._escape(n, res, M, qual)

    def _class_level_mutables(self, cls):
        return {q.split(".", 1)[1] for q, (k, _) in self.mi.bindings.items() if q.startswith(cls + ".") and k in MUTABLE_KINDS}

    def _under_insensitive(self, n):
        p = self.parents.get(id(n))
        return isinstance(p, ast.Call) and isinstance(p.func, ast.Name) and p.func.id in ORDER_INSENSITIVE_CONSUMERS \
            and n in p.args

    def _ambient_attr(self, res, base, parts, n, M, qual):
        out = self.out
        par = self.parents.get(id(n))
        called = isinstance(par, ast.Call) and par.func is n
        text = _src(par if called else n)
        names = [p for p in parts if p != "[]"]
        if res is not None and res[0] == "<extmod>":
            root = res[1].split(".")[0]
            if root in AMBIENT_MODULES:
                out["ambient"].append((root, M, qual, text))
            elif root == "os" and names and names[0] in OS_AMBIENT:
                out["ambient"].append(("os-" + names[0], M, qual, text))
            elif root == "sys" and names and names[0] in SYS_AMBIENT:
                out["ambient"].append(("sys-" + names[0], M, qual, text))
            elif root == "datetime":
                if any(p in DATETIME_AMBIENT for p in names):
                    out["ambient"].append(("datetime", M, qual, text))
            elif root == "re" and names and names[0] in ("LOCALE", "L"):
                out["ambient"].append(("locale", M, qual, text))
            return
        if res is not None and res[0] == "<extname>":
            modname, nm = res[1].rsplit(".", 1)
            root = modname.split(".")[0]
            if root in AMBIENT_MODULES:
                out["ambient"].append((root, M, qual, text))
            elif root == "datetime" and any(p in DATETIME_AMBIENT for p in names):
                out["ambient"].append(("datetime", M, qual, text))
            elif root == "pathlib" and nm == "Path" and names and names[0] in ("cwd", "home"):
                out["ambient"].append(("path-" + names[0], M, qual, text))
            elif root == "os" and nm in OS_AMBIENT:
                out["ambient"].append(("os-" + nm, M, qual, text))
            return
        # method on an arbitrary object: cwd-relative path resolution
        if called and names and names[-1] in PATH_AMBIENT:
            out["ambient"].append(("path-" + names[-1], M, qual, text))

    def _escape(self, n, res, M, qual):
        """`n` is a Load of a mutable module/class-level binding; classify how it is used."""
        par = self.parents.get(id(n))
        # receiver of attribute access
        if isinstance(par, ast.Attribute) and par.value is n:
            gp = self.parents.get(id(par))
            if isinstance(gp, ast.Call) and gp.func is par:
                if par.attr in PURE_METHODS or par.attr in MUTATORS:
                    return  # mutators are recorded as mutation sites
                self.out["escapes"].append((M, qual, res[0], res[1], f"method .{par.attr}()"))
                return
            self.out["escapes"].append((M, qual, res[0], res[1], f"attribute .{par.attr}"))
            return
        if isinstance(par, ast.Subscript) and par.value is n:
            if isinstance(par.ctx, ast.Load):
                # element read: the element may itself be mutable (nested dict/list) unless the literal is flat
                if self.mods[res[0]].bindings[res[1]][1].endswith(" flat"):
                    return
                gp = self.parents.get(id(par))
                if isinstance(gp, (ast.Compare, ast.JoinedStr, ast.FormattedValue)):
                    return
                self.out["escapes"].append((M, qual, res[0], res[1], "element read " + _src(par, 40)))
            return
        if isinstance(par, ast.Compare):
            return  # membership / comparison
        if isinstance(par, (ast.For, ast.AsyncFor)) and par.iter is n:
            return
        if isinstance(par, ast.comprehension) and par.iter is n:
            return
        if isinstance(par, ast.Call) and n in par.args and isinstance(par.func, ast.Name) and \
                par.func.id in ("len", "sorted", "set", "frozenset", "list", "tuple", "dict", "any", "all", "sum", "min",
                                "max", "isinstance", "enumerate", "iter", "str", "repr", "bool"):
            return  # consumed by a builtin that copies / only reads
        if isinstance(par, ast.Starred):
            return
        how = type(par).__name__
        if isinstance(par, ast.Call):
            how = "argument of " + _src(par.func, 30)
        elif isinstance(par, ast.Return):
            how = "returned"
        elif isinstance(par, ast.Dict):
            how = "stored in dict display"
        elif isinstance(par, (ast.Assign, ast.AnnAssign)):
            how = "aliased by assignment"
        elif isinstance(par, ast.keyword):
            how = "keyword argument " + (par.arg or "**")
        self.out["escapes"].append((M, qual, res[0], res[1], how))


def _rel_of(modname, here_rel):
    """'octave_mcp.core.routing' -> 'core/routing' ; relative imports resolved against here_rel."""
    if modname.startswith("."):
        level = len(modname) - len(modname.lstrip("."))
        rest = modname.lstrip(".")
        base = here_rel.split("/")
        # a module 'core/x' is in package 'core'; __init__ modules are named 'core/__init__'
        base = base[:-1]
        for _ in range(level - 1):
            base = base[:-1]
        parts = base + (rest.split(".") if rest else [])
        return "/".join(parts) if parts else "__init__"
    if modname == "octave_mcp":
        return "__init__"
    if modname.startswith("octave_mcp."):
        return modname[len("octave_mcp."):].replace(".", "/")
    return None


# --------------------------------------------------------------------------------------------------------------
def _search_order(src: Path):
    mod = parse_file(src / "schemas" / "loader.py")
    fn = [n for n in mod.body if isinstance(n, ast.FunctionDef) and n.name == "get_schema_search_paths"]
    need(len(fn) == 1, "loader.get_schema_search_paths not found")
    fn = fn[0]
    assigns, order = {}, []
    for st in fn.body:
        if isinstance(st, ast.Expr) and isinstance(st.value, ast.Constant):
            continue
        if isinstance(st, ast.AnnAssign) and isinstance(st.target, ast.Name) and st.target.id == "paths":
            need(isinstance(st.value, ast.List) and not st.value.elts, "paths is not initialised to []")
        elif isinstance(st, ast.Assign) and len(st.targets) == 1 and isinstance(st.targets[0], ast.Name):
            assigns[st.targets[0].id] = st.value
        elif isinstance(st, ast.If):
            need(not st.orelse and len(st.body) == 1, "get_schema_search_paths: unexpected if-shape")
            t = _src(st.test)
            b = st.body[0]
            need(isinstance(b, ast.Expr) and isinstance(b.value, ast.Call) and _src(b.value.func) == "paths.append"
                 and len(b.value.args) == 1 and isinstance(b.value.args[0], ast.Name), "get_schema_search_paths: if-body is not paths.append(name)")
            nm = b.value.args[0].id
            need(t == f"{nm}.exists()", f"get_schema_search_paths: guard {t} is not {nm}.exists()")
            need(nm in assigns, f"get_schema_search_paths: {nm} not assigned")
            order.append(_path_expr(assigns[nm]))
        elif isinstance(st, ast.Return):
            need(_src(st.value) == "paths", "get_schema_search_paths does not return paths")
        else:
            raise TranslateError(f"get_schema_search_paths: statement {type(st).__name__} not understood")
    need(order, "no search path found")
    # filename patterns and loop nesting in load_schema_by_name
    fn2 = [n for n in mod.body if isinstance(n, ast.FunctionDef) and n.name == "load_schema_by_name"]
    need(len(fn2) == 1, "loader.load_schema_by_name not found")
    pats = None
    loops = []
    for n in ast.walk(fn2[0]):
        if isinstance(n, ast.Assign) and _src(n.targets[0]) == "patterns":
            need(isinstance(n.value, ast.List), "patterns is not a list literal")
            pats = []
            for el in n.value.elts:
                need(isinstance(el, ast.JoinedStr) and len(el.values) == 2 and isinstance(el.values[0], ast.FormattedValue)
                     and isinstance(el.values[1], ast.Constant), f"filename pattern shape {_src(el)}")
                who = _src(el.values[0].value)
                need(who in ("schema_name.lower()", "schema_name"), f"filename pattern base {who}")
                pats.append((1 if who.endswith(".lower()") else 0, el.values[1].value))
        if isinstance(n, ast.For):
            loops.append((_src(n.target), _src(n.iter)))
    need(pats, "load_schema_by_name: patterns not found")
    need(loops == [("search_path", "search_paths"), ("pattern", "patterns")] or
         sorted(loops) == sorted([("search_path", "search_paths"), ("pattern", "patterns")]), f"load_schema_by_name loops {loops}")
    # outer loop must be over search paths (first hit in path order, then pattern order)
    outer = [n for n in fn2[0].body if isinstance(n, ast.For)]
    need(len(outer) == 1 and _src(outer[0].iter) == "search_paths", "load_schema_by_name: outer loop is not over search_paths")
    return order, pats


def _path_expr(e):
    """Path(__file__).parent.parent / 'a' / 'b'  -> (0, up, [a,b]) ;  Path.cwd() / 'a' -> (1, 0, [a])"""
    segs = []
    while isinstance(e, ast.BinOp) and isinstance(e.op, ast.Div):
        need(isinstance(e.right, ast.Constant) and isinstance(e.right.value, str), f"path segment {_src(e.right)}")
        segs.append(e.right.value)
        e = e.left
    segs.reverse()
    s = _src(e)
    if s == "Path.cwd()":
        return (1, 0, segs)
    up = 0
    while s.endswith(".parent"):
        s = s[: -len(".parent")]
        up += 1
    need(s == "Path(__file__)" and up >= 1, f"search path base {_src(e)} not understood")
    return (0, up - 1, segs)   # up-1: directories above the directory of loader.py (schemas/)


# --------------------------------------------------------------------------------------------------------------
def _server_closure(mods):
    """Objects create_server() keeps alive for the life of the process: local names captured by the handlers."""
    mi = mods.get("mcp/server")
    need(mi is not None, "mcp/server.py missing")
    fn = [n for n in mi.tree.body if isinstance(n, ast.FunctionDef) and n.name == "create_server"]
    need(len(fn) == 1, "server.create_server not found")
    fn = fn[0]
    loc, _ = _bound_names(fn)
    inner = [n for n in fn.body if isinstance(n, (ast.FunctionDef, ast.AsyncFunctionDef))]
    captured = set()
    writes = []
    for h in inner:
        hl, _ = _bound_names(h)
        for n in ast.walk(h):
            if isinstance(n, ast.Name) and n.id in loc and n.id not in hl:
                captured.add(n.id)
            if isinstance(n, ast.Nonlocal):
                writes.append((h.name, "nonlocal " + ",".join(n.names)))
            if isinstance(n, (ast.Assign, ast.AugAssign, ast.Delete)):
                tg = n.targets if not isinstance(n, ast.AugAssign) else [n.target]
                for t in tg:
                    b = _base_name(t)
                    if b in captured or (b in loc and b not in hl):
                        if not isinstance(t, ast.Name):
                            writes.append((h.name, "store " + _src(t, 40)))
            if isinstance(n, ast.Call) and isinstance(n.func, ast.Attribute) and n.func.attr in MUTATORS:
                b = _base_name(n.func.value)
                if b in loc and b not in hl:
                    writes.append((h.name, _src(n, 40)))
    captured -= {h.name for h in inner}
    return sorted(captured), writes


# --------------------------------------------------------------------------------------------------------------
def collect(src: Path):
    files = sorted(p for p in src.rglob("*.py") if "__pycache__" not in p.parts)
    need(len(files) >= 20, f"only {len(files)} python files under {src}")
    mods = {}
    mut_sites = []
    for p in files:
        rel = str(p.relative_to(src))[:-3]
        tree = parse_file(p)
        mi = ModInfo(rel, tree)
        mods[rel] = mi
    # pass 1: bindings (imports first so that aliases resolve)
    for mi in mods.values():
        for st in mi.tree.body:
            if isinstance(st, (ast.Import, ast.ImportFrom)):
                _record_import(st, mi)
        _scan_body(mi.tree.body, mi, None, mut_sites)
    out = {"mutations": mut_sites, "escapes": [], "tool_fields": [], "tool_attr_writes": [], "tool_awaits": [],
           "unordered": [], "sorted_sets": [], "ambient": [], "lazy_imports": [], "set_attr_names": set()}
    # attribute names that hold sets anywhere in the package (self.X = set() in any method, X: set[...] in class bodies)
    for mi in mods.values():
        out["set_attr_names"] |= mi.set_attrs
        for q, (k, _) in mi.bindings.items():
            if "." in q and k in (K_MUT_SET, K_FROZENSET):
                out["set_attr_names"].add(q.split(".", 1)[1])
        for n in ast.walk(mi.tree):
            tgt = val = ann = None
            if isinstance(n, ast.Assign) and len(n.targets) == 1:
                tgt, val = n.targets[0], n.value
            elif isinstance(n, ast.AnnAssign):
                tgt, val, ann = n.target, n.value, n.annotation
            if isinstance(tgt, ast.Attribute) and isinstance(tgt.value, ast.Name) and tgt.value.id == "self":
                if _ann_is_set(ann) or isinstance(val, (ast.Set, ast.SetComp)) or \
                        (isinstance(val, ast.Call) and _src(val.func) in ("set", "frozenset")):
                    out["set_attr_names"].add(tgt.attr)
    # long-lived objects: BaseTool and every class of mcp/*.py deriving from it (transitively, by base name)
    ll = set()
    changed = True
    while changed:
        changed = False
        for rel, mi in mods.items():
            if not rel.startswith("mcp/"):
                continue
            for cname, c in mi.classes.items():
                bases = {_src(b).split(".")[-1] for b in c.bases}
                if (cname, rel) not in ll and (cname == "BaseTool" or bases & {x for x, _ in ll}):
                    ll.add((cname, rel))
                    changed = True
    need(len(ll) >= 5, f"expected BaseTool and four tools among the long-lived classes, found {sorted(ll)}")
    out["long_lived"] = ll
    # pass 2: sites
    for mi in mods.values():
        Walker(mi, mods, out).run()
    # tool classes
    tool_classes = []
    for rel, mi in mods.items():
        if rel.startswith("mcp/"):
            for cname, c in mi.classes.items():
                tool_classes.append((rel, cname, ",".join(_src(b) for b in c.bases), 1 if (cname, rel) in out["long_lived"] else 0))
    closure, closure_writes = _server_closure(mods)
    order, pats = _search_order(src)
    return mods, out, tool_classes, closure, closure_writes, order, pats


def _row(*cols):
    return "(" + ", ".join(cols) + ")"


def _uniq(rows):
    seen, res = set(), []
    for r in rows:
        if r not in seen:
            seen.add(r)
            res.append(r)
    return res


def generate(src):
    src = Path(src)
    mods, out, tool_classes, closure, closure_writes, order, pats = collect(src)
    o = [HEADER]
    o.append("(* kind codes: " + ", ".join(f"{i}={n}" for i, n in enumerate(KIND_NAMES)) + " *)\n")
    o.append("Definition ms_modules : list (list N) :=\n  " + coq_list([coq_str(m) for m in sorted(mods)]) + ".\n\n")
    S = "list N"

    def cm(*cols):
        return "(* " + " | ".join(str(c) for c in cols).replace("(*", "( *").replace("*)", "* )") + " *)\n   "

    def table(name, comment, rows, ty):
        o.append(f"(* {comment} *)\n")
        o.append(f"Definition {name} : list ({ty}) :=\n  " + coq_list(rows, f"({ty})") + ".\n\n")

    def strrows(tuples, n):
        """each tuple -> readable comment of all columns + Coq row of the first n columns (as strings)"""
        return [cm(*t) + (_row(*[coq_str(str(c)) for c in t[:n]]) if n > 1 else coq_str(str(t[0]))) for t in tuples]

    rows = []
    for rel in sorted(mods):
        mi = mods[rel]
        for q in mi.order:
            k, d = mi.bindings[q]
            rows.append(cm(f"{rel}:{q}", KIND_NAMES[k], d) + _row(coq_str(rel), coq_str(q), f"{k}"))
    table("ms_bindings", "every module-level / class-level binding: (module, qualified name, kind)", rows, f"{S} * {S} * N")
    inst = []
    for rel in sorted(mods):
        mi = mods[rel]
        for q in mi.order:
            k, d = mi.bindings[q]
            if k == K_INSTANCE:
                inst.append((rel, q, d))
    # collapse enum-style classes (all members built by the same constructor) to one row per (module, class, constructor)
    inst2 = _uniq([(rel, q.split(".")[0] + ".*" if "." in q else q, d) for rel, q, d in inst])
    table("ms_instances", "module/class-level objects built by a call: (module, name or Class.*, constructor)", strrows(inst2, 3),
          f"{S} * {S} * {S}")
    table("ms_mutations", "mutation sites: (site module, site function, mutated module, mutated binding)  [how: in the comment]",
          strrows(_uniq([tuple(r) for r in out["mutations"]]), 4), f"{S} * {S} * {S} * {S}")
    table("ms_escapes", "mutable module-level objects handed to other code: (site module, function, owner module, binding, how)",
          strrows(_uniq([tuple(r) for r in out["escapes"]]), 5), f"{S} * {S} * {S} * {S} * {S}")
    tl = []
    for rel in sorted(mods):
        for c, s_ in mods[rel].toplevel_calls:
            tl.append((rel, c, s_))
    table("ms_toplevel_calls", "import-time expression statements: (module, class or empty, call)", strrows(tl, 3), f"{S} * {S} * {S}")
    table("ms_lazy_imports", "imports executed inside functions: (module, function, imported module)",
          strrows(_uniq(out["lazy_imports"]), 3), f"{S} * {S} * {S}")
    table("ms_tool_classes", "classes of mcp/*.py: (module, class, bases, 1 = long-lived tool object | 0 = per-call helper)",
          [cm(a, b, c, d) + _row(coq_str(a), coq_str(b), coq_str(c), str(d)) for a, b, c, d in tool_classes],
          f"{S} * {S} * {S} * N")
    table("ms_tool_fields", "instance fields of the long-lived classes, assigned in __init__: (module, class, field)",
          strrows(_uniq(out["tool_fields"]), 3), f"{S} * {S} * {S}")
    table("ms_tool_attr_writes", "writes to self.<field> OUTSIDE __init__ in the long-lived classes: (module, class, field, method)",
          strrows(_uniq(out["tool_attr_writes"]), 4), f"{S} * {S} * {S} * {S}")
    table("ms_server_closure", "locals of create_server() captured by the request handlers (live for the whole process)",
          strrows([(c,) for c in closure], 1), S)
    table("ms_server_closure_writes", "stores to captured locals inside the handlers: (handler, what)",
          strrows(closure_writes, 2), f"{S} * {S}")
    table("ms_tool_awaits", "scheduling points inside the long-lived classes: (module, class, method, what)",
          strrows(_uniq(out["tool_awaits"]), 4), f"{S} * {S} * {S} * {S}")
    table("ms_unordered_iter", "order-revealing use of a set-typed expression not under sorted: (module, function, construct, expr)",
          strrows(_uniq(out["unordered"]), 4), f"{S} * {S} * {S} * {S}")
    table("ms_sorted_sets", "sorted(<set-typed>) sites: (module, function, expr)",
          strrows(_uniq(out["sorted_sets"]), 3), f"{S} * {S} * {S}")
    table("ms_ambient", "ambient inputs: (category, module, function)  [the expression is in the comment]",
          strrows(_uniq([tuple(r) for r in out["ambient"]]), 3), f"{S} * {S} * {S}")
    o.append("(* schemas/loader.py get_schema_search_paths, in order: (base, levels above schemas/, segments);\n"
             "   base 0 = directory of the installed package (Path(__file__)), base 1 = current working directory *)\n")
    o.append("Definition schema_search_order : list (N * N * list (list N)) :=\n  " +
             coq_list([cm(("package" if b == 0 else "cwd"), "up " + str(u), "/".join(segs)) +
                       _row(str(b), str(u), coq_list([coq_str(x) for x in segs], "(list N)")) for b, u, segs in order]) + ".\n\n")
    o.append("(* load_schema_by_name filename patterns in order: (1 = lower-cased name | 0 = name as given, suffix) *)\n")
    o.append("Definition schema_filename_patterns : list (N * list N) :=\n  " +
             coq_list([cm("lower" if lw else "as-given", sfx) + _row(str(lw), coq_str(sfx)) for lw, sfx in pats]) + ".\n")
    return {"ModStateGen.v": "".join(o)}
