"""core/repair.py (+ the fix/repair stages of mcp/validate.py, mcp/write.py, cli/main.py) -> Gen/RepairGen.v

CONSUMED by Rep/Repair.v : repair_guards (ordered guard codes of repair_value), repair_dispatch (isinstance order of
the constraint loop), rule ids, tier strings, the NUMBER type name, the characters tested by the int/float branch, the ORDERED rejecting guards of the float branch
(repair_float_guards: 1 not finite, 2 zero with a non-zero mantissa) and the mantissa test (split char, lower(), the per-character
digit test: 2 = `ch.isdecimal() and int(ch) != 0` (0b7941a), 1 = membership in a literal ASCII table (80b6126)).
PINNED (Rep/Pins_Repair.v) : normalised source (ast.unparse, docstrings removed) of _attempt_enum_casefold,
_attempt_type_coercion, _repair_ast_node, _apply_schema_repairs, repair, RepairLog.add, RepairEntry.to_dict and of the
three call sites (validate.execute `if fix:`, write.execute lenient repair, cli validate `--fix`).
Fail closed: any guard / branch / call shape that is not recognised raises TranslateError.
"""
import ast

from .tlib import HEADER, TranslateError, coq_list, coq_str, find_def, need, parse_file

OUTPUTS = ["RepairGen.v"]

GUARD_CODES = {
    "isinstance(value, LiteralZoneValue)": 1,
    "not fix": 2,
    "field_def is None": 3,
    "field_def.pattern is None": 4,
    "field_def.pattern.constraints is None": 5,
    "not field_def.pattern.constraints.constraints": 6,
    "value is None": 7,
}
CLASS_CODES = {"EnumConstraint": 1, "TypeConstraint": 2}
FUNC_OF_CLASS = {"EnumConstraint": "_attempt_enum_casefold", "TypeConstraint": "_attempt_type_coercion"}


def _strip_doc(fn):
    body = list(fn.body)
    if body and isinstance(body[0], ast.Expr) and isinstance(body[0].value, ast.Constant) and isinstance(body[0].value.value, str):
        body = body[1:]
    return body


def _src(fn):
    """Normalised source of a function: signature line + unparsed statements without the docstring."""
    head = f"def {fn.name}({ast.unparse(fn.args)})"
    return head + "\n" + "\n".join(ast.unparse(s) for s in _strip_doc(fn))


def _add_call(fn):
    calls = [n for n in ast.walk(fn) if isinstance(n, ast.Call) and ast.unparse(n.func) == "repair_log.add"]
    need(len(calls) == 1, f"{fn.name}: expected exactly one repair_log.add call, found {len(calls)}")
    c = calls[0]
    need(not c.args, f"{fn.name}: repair_log.add with positional arguments")
    return {k.arg: k.value for k in c.keywords}


def _tier_values(src):
    mod = parse_file(src / "core" / "repair_log.py")
    cs = [n for n in mod.body if isinstance(n, ast.ClassDef) and n.name == "RepairTier"]
    need(len(cs) == 1, "RepairTier not found")
    out = {}
    for st in cs[0].body:
        if isinstance(st, ast.Assign) and len(st.targets) == 1 and isinstance(st.targets[0], ast.Name) \
                and isinstance(st.value, ast.Constant) and isinstance(st.value.value, str):
            out[st.targets[0].id] = st.value.value
    need("REPAIR" in out, "RepairTier.REPAIR not found")
    return out, mod


FLOAT_GUARD_NONFINITE = 1
FLOAT_GUARD_UNDERFLOW = 2
DIGIT_TEST_ASCII_TABLE = 1
DIGIT_TEST_DECIMAL_NONZERO = 2
REJECT = "(value, False)"


def _float_guards(stmts):
    """Statements after `coerced = float(value_stripped)` in the float branch -> (ordered guard codes, mantissa info | None).
    Understood, anything else raises:
      `if not math.isfinite(coerced): return (value, False)`                                    -> code 1
      `mantissa = value_stripped[.lower()].split('<c>')[0]`                                      -> binding (once, before its use)
      `if coerced == 0 and any((<digit test> for ch in mantissa)): return (value, False)`       -> code 2, where <digit test> is
           `ch.isdecimal() and int(ch) != 0`   -> digit_test 2 (any Unicode decimal digit whose value is not 0; current source)
           `ch in '<digits>'`                  -> digit_test 1 + the literal table (the ASCII-only test of 80b6126; recognised so
                                                  that a reverted tree still translates -- the generated digit_test differs and the
                                                  pin repair_mantissa_digit_test = 2 breaks)
    """
    guards, mant = [], None
    for st in stmts:
        if isinstance(st, ast.Assign):
            need(mant is None, "type coercion: second binding in the float branch")
            need(len(st.targets) == 1 and isinstance(st.targets[0], ast.Name) and st.targets[0].id == "mantissa",
                 f"type coercion: float branch binds `{ast.unparse(st.targets[0])}`")
            v = st.value
            need(isinstance(v, ast.Subscript) and isinstance(v.slice, ast.Constant) and v.slice.value == 0
                 and type(v.slice.value) is int, f"type coercion: mantissa is not `<split>[0]`: {ast.unparse(v)}")
            call = v.value
            need(isinstance(call, ast.Call) and isinstance(call.func, ast.Attribute) and call.func.attr == "split"
                 and len(call.args) == 1 and not call.keywords and isinstance(call.args[0], ast.Constant)
                 and isinstance(call.args[0].value, str) and len(call.args[0].value) == 1,
                 f"type coercion: mantissa split not understood: {ast.unparse(v)}")
            on = ast.unparse(call.func.value)
            need(on in ("value_stripped", "value_stripped.lower()"), f"type coercion: mantissa taken from `{on}`")
            mant = {"split": ord(call.args[0].value), "lower": 1 if on.endswith(".lower()") else 0, "expr": ast.unparse(v)}
            continue
        need(isinstance(st, ast.If) and not st.orelse and len(st.body) == 1 and isinstance(st.body[0], ast.Return)
             and st.body[0].value is not None and ast.unparse(st.body[0].value) == REJECT,
             f"type coercion: float branch statement is not a rejecting guard: {ast.unparse(st)!r}")
        t = ast.unparse(st.test)
        if t == "not math.isfinite(coerced)":
            guards.append(FLOAT_GUARD_NONFINITE)
            continue
        te = st.test
        need(mant is not None and "digits" not in mant, f"type coercion: unknown float guard `{t}`")
        need(isinstance(te, ast.BoolOp) and isinstance(te.op, ast.And) and len(te.values) == 2
             and ast.unparse(te.values[0]) == "coerced == 0", f"type coercion: unknown float guard `{t}`")
        a = te.values[1]
        need(isinstance(a, ast.Call) and ast.unparse(a.func) == "any" and len(a.args) == 1 and not a.keywords
             and isinstance(a.args[0], ast.GeneratorExp), f"type coercion: unknown float guard `{t}`")
        g = a.args[0]
        need(len(g.generators) == 1 and not g.generators[0].ifs and not g.generators[0].is_async
             and ast.unparse(g.generators[0].target) == "ch" and ast.unparse(g.generators[0].iter) == "mantissa",
             f"type coercion: underflow guard does not scan the mantissa: `{t}`")
        e = g.elt
        if ast.unparse(e) == "ch.isdecimal() and int(ch) != 0":
            need(isinstance(e, ast.BoolOp) and isinstance(e.op, ast.And) and len(e.values) == 2
                 and isinstance(e.values[0], ast.Call) and not e.values[0].args and not e.values[0].keywords
                 and isinstance(e.values[1], ast.Compare) and isinstance(e.values[1].ops[0], ast.NotEq)
                 and isinstance(e.values[1].comparators[0], ast.Constant) and e.values[1].comparators[0].value == 0
                 and type(e.values[1].comparators[0].value) is int,
                 f"type coercion: underflow guard digit test not understood: `{t}`")
            mant["digit_test"] = DIGIT_TEST_DECIMAL_NONZERO
            mant["digits"] = ""
        else:
            need(isinstance(e, ast.Compare) and len(e.ops) == 1 and isinstance(e.ops[0], ast.In) and ast.unparse(e.left) == "ch"
                 and isinstance(e.comparators[0], ast.Constant) and isinstance(e.comparators[0].value, str)
                 and e.comparators[0].value, f"type coercion: underflow guard digit test not understood: `{t}`")
            mant["digit_test"] = DIGIT_TEST_ASCII_TABLE
            mant["digits"] = e.comparators[0].value
        mant["test"] = t
        guards.append(FLOAT_GUARD_UNDERFLOW)
    need(len(set(guards)) == len(guards), "type coercion: a float guard occurs twice")
    need(mant is None or "digits" in mant, "type coercion: mantissa bound but never tested")
    return guards, mant


def _find_if(fn, test_src):
    hits = [n for n in ast.walk(fn) if isinstance(n, ast.If) and ast.unparse(n.test) == test_src]
    need(len(hits) == 1, f"{fn.name}: expected exactly one `if {test_src}:` block, found {len(hits)}")
    return hits[0]


def generate(src):
    mod = parse_file(src / "core" / "repair.py")
    tiers, logmod = _tier_values(src)
    # ---------------- repair_value: guards, loop dispatch -----------------
    rv = find_def(mod, "repair_value")
    body = _strip_doc(rv)
    guards = []
    i = 0
    while i < len(body) and isinstance(body[i], ast.If):
        st = body[i]
        t = ast.unparse(st.test)
        need(t in GUARD_CODES, f"repair_value: unknown guard `{t}`")
        need(not st.orelse and len(st.body) == 1 and isinstance(st.body[0], ast.Return)
             and ast.unparse(st.body[0].value) == "(value, False)", f"repair_value: guard `{t}` does not `return value, False`")
        guards.append(GUARD_CODES[t])
        i += 1
    rest = body[i:]
    need(len(rest) == 5, f"repair_value: unexpected tail of {len(rest)} statements")
    need(ast.unparse(rest[0]) == "constraints = field_def.pattern.constraints.constraints", "repair_value: constraints binding changed")
    need(ast.unparse(rest[1]) == "current_value = value", "repair_value: current_value binding changed")
    need(ast.unparse(rest[2]) == "was_repaired = False", "repair_value: was_repaired binding changed")
    loop = rest[3]
    need(isinstance(loop, ast.For) and ast.unparse(loop.target) == "constraint" and ast.unparse(loop.iter) == "constraints"
         and not loop.orelse and len(loop.body) == 1 and isinstance(loop.body[0], ast.If), "repair_value: loop shape changed")
    need(ast.unparse(rest[4]) == "return (current_value, was_repaired)", "repair_value: final return changed")
    dispatch = []
    cur = loop.body[0]
    while True:
        t = cur.test
        need(isinstance(t, ast.Call) and ast.unparse(t.func) == "isinstance" and len(t.args) == 2
             and ast.unparse(t.args[0]) == "constraint" and isinstance(t.args[1], ast.Name)
             and t.args[1].id in CLASS_CODES, f"repair_value: unknown dispatch test `{ast.unparse(t)}`")
        cls = t.args[1].id
        want = (f"repaired, did_repair = {FUNC_OF_CLASS[cls]}(current_value, constraint, repair_log)\n"
                "if did_repair:\n    current_value = repaired\n    was_repaired = True")
        got = "\n".join(ast.unparse(s) for s in cur.body)
        need(got == want, f"repair_value: branch for {cls} changed: {got!r}")
        dispatch.append(CLASS_CODES[cls])
        if not cur.orelse:
            break
        need(len(cur.orelse) == 1 and isinstance(cur.orelse[0], ast.If), "repair_value: dispatch has an else branch")
        cur = cur.orelse[0]
    # ---------------- _attempt_enum_casefold -----------------
    ef = find_def(mod, "_attempt_enum_casefold")
    ekw = _add_call(ef)
    need(ast.unparse(ekw["before"]) == "value" and ast.unparse(ekw["after"]) == "canonical", "enum casefold: logged before/after changed")
    need(isinstance(ekw["rule_id"], ast.Constant), "enum casefold: rule_id not literal")
    etier = ast.unparse(ekw["tier"])
    need(etier.startswith("RepairTier.") and etier.split(".")[1] in tiers, f"enum casefold: tier {etier}")
    # ---------------- _attempt_type_coercion -----------------
    tf = find_def(mod, "_attempt_type_coercion")
    tkw = _add_call(tf)
    need(ast.unparse(tkw["before"]) == "value" and ast.unparse(tkw["after"]) == "str(coerced)", "type coercion: logged before/after changed")
    need(isinstance(tkw["rule_id"], ast.Constant), "type coercion: rule_id not literal")
    ttier = ast.unparse(tkw["tier"])
    need(ttier.startswith("RepairTier.") and ttier.split(".")[1] in tiers, f"type coercion: tier {ttier}")
    num = None
    for n in ast.walk(tf):
        if isinstance(n, ast.Compare) and ast.unparse(n.left) == "expected_type" and len(n.ops) == 1 \
                and isinstance(n.ops[0], ast.NotEq) and isinstance(n.comparators[0], ast.Constant):
            num = n.comparators[0].value
    need(isinstance(num, str), "type coercion: `expected_type != <literal>` not found")
    tries = [n for n in ast.walk(tf) if isinstance(n, ast.Try)]
    need(len(tries) == 1 and len(tries[0].handlers) == 1, "type coercion: try/except shape changed")
    h = tries[0].handlers[0]
    caught = [ast.unparse(e) for e in (h.type.elts if isinstance(h.type, ast.Tuple) else [h.type])]
    need(ast.unparse(h.body[0]) == "return (value, False)", "type coercion: except handler does not return value unchanged")
    br = tries[0].body[0]
    need(isinstance(br, ast.If), "type coercion: int/float branch not first in try")
    branch_test = ast.unparse(br.test)
    # characters whose absence selects int(): every `'<c>' not in <expr>` of the test
    int_chars = []
    need(isinstance(br.test, ast.BoolOp) and isinstance(br.test.op, ast.And), "type coercion: branch test is not a conjunction")
    for v in br.test.values:
        need(isinstance(v, ast.Compare) and len(v.ops) == 1 and isinstance(v.ops[0], ast.NotIn)
             and isinstance(v.left, ast.Constant) and isinstance(v.left.value, str) and len(v.left.value) == 1,
             f"type coercion: branch conjunct `{ast.unparse(v)}` not understood")
        on = ast.unparse(v.comparators[0])
        need(on in ("value_stripped", "value_stripped.lower()"), f"type coercion: branch tests `{on}`")
        int_chars.append((ord(v.left.value), 1 if on.endswith(".lower()") else 0))
    need(ast.unparse(br.body[0]) == "coerced = int(value_stripped)", "type coercion: int branch changed")
    need(ast.unparse(br.orelse[0]) == "coerced = float(value_stripped)", "type coercion: float branch changed")
    # the float branch: `coerced = float(..)` followed by an ordered sequence of rejecting guards (each returns
    # (value, False)); bindings between guards are understood one by one (only the mantissa binding exists)
    float_guards, mant = _float_guards(br.orelse[1:])
    need(float_guards[:1] == [FLOAT_GUARD_NONFINITE],
         "type coercion: the finiteness guard is not the first statement after float()")
    tb = tries[0].body
    need(len(tb) == 3 and isinstance(tb[1], ast.Expr) and isinstance(tb[1].value, ast.Call)
         and ast.unparse(tb[1].value.func) == "repair_log.add" and ast.unparse(tb[2]) == "return (coerced, True)",
         "type coercion: statements between the int/float branch and the logged return changed")
    need(len(br.body) == 1, "type coercion: int branch has more than the int() binding")
    # ---------------- pins: normalised sources -----------------
    pins = {
        "src_attempt_enum_casefold": _src(ef),
        "src_attempt_type_coercion": _src(tf),
        "src_repair_ast_node": _src(find_def(mod, "_repair_ast_node")),
        "src_apply_schema_repairs": _src(find_def(mod, "_apply_schema_repairs")),
        "src_repair": _src(find_def(mod, "repair")),
        "src_log_add": _src(find_def(logmod, "add", cls="RepairLog")),
        "src_entry_to_dict": _src(find_def(logmod, "to_dict", cls="RepairEntry")),
    }
    vmod = parse_file(src / "mcp" / "validate.py")
    pins["src_validate_fix_stage"] = ast.unparse(_find_if(find_def(vmod, "execute", cls="ValidateTool"), "fix"))
    wmod = parse_file(src / "mcp" / "write.py")
    wex = find_def(wmod, "execute", cls="WriteTool")
    pins["src_write_repair_stage"] = ast.unparse(_find_if(wex, "lenient and schema_definition is not None and validation_errors"))
    pins["src_write_meta_repair_stage"] = ast.unparse(_find_if(wex, "lenient and schema_def is not None and validation_errors"))
    cmod = parse_file(src / "cli" / "main.py")
    pins["src_cli_fix_stage"] = ast.unparse(_find_if(find_def(cmod, "validate"), "fix and validation_errors"))
    # ---------------- emit -----------------
    out = [HEADER]
    out.append("(* repair_value: ordered guard codes (1 zone, 2 not fix, 3 no field_def, 4 no pattern, 5 no chain, 6 empty chain, 7 None);\n"
               "   every guard returns (value, False) *)\n")
    out.append(f"Definition repair_guards : list N := {coq_list([str(g) for g in guards], 'N')}.\n")
    out.append("(* constraint loop: isinstance order (1 EnumConstraint -> _attempt_enum_casefold, 2 TypeConstraint -> _attempt_type_coercion) *)\n")
    out.append(f"Definition repair_dispatch : list N := {coq_list([str(g) for g in dispatch], 'N')}.\n")
    out.append(f"Definition repair_rule_enum : list N := {coq_str(ekw['rule_id'].value)}.\n")
    out.append(f"Definition repair_rule_type : list N := {coq_str(tkw['rule_id'].value)}.\n")
    out.append(f"Definition repair_tier_enum : list N := {coq_str(tiers[etier.split('.')[1]])}.\n")
    out.append(f"Definition repair_tier_type : list N := {coq_str(tiers[ttier.split('.')[1]])}.\n")
    out.append(f"Definition repair_number_type : list N := {coq_str(num)}.\n")
    out.append("(* int() is chosen iff none of these characters occurs; (char, 1 = tested on .lower()) *)\n")
    out.append(f"Definition repair_int_branch_chars : list (N * N) := {coq_list([f'({c}, {l})' for c, l in int_chars], '(N * N)')}.\n")
    out.append(f"Definition repair_int_branch_test : list N := {coq_str(branch_test)}.\n")
    out.append("(* float branch: ordered rejecting guards after float() (1 = not math.isfinite(coerced), 2 = coerced == 0 and the\n"
               "   mantissa -- text before the first split char, of the lower-cased text iff lower = 1 -- has a char of digits) *)\n")
    out.append(f"Definition repair_float_guards : list N := {coq_list([str(g) for g in float_guards], 'N')}.\n")
    out.append(f"Definition repair_mantissa_split : N := {mant['split'] if mant else 0}.\n")
    out.append(f"Definition repair_mantissa_lower : N := {mant['lower'] if mant else 0}.\n")
    out.append("(* per-character test of the mantissa: 1 = `ch in <repair_mantissa_digits>`, 2 = `ch.isdecimal() and int(ch) != 0` *)\n")
    out.append(f"Definition repair_mantissa_digit_test : N := {mant['digit_test'] if mant else 0}.\n")
    out.append(f"Definition repair_mantissa_digits : list N := {coq_str(mant['digits'] if mant else '')}.\n")
    out.append(f"Definition repair_mantissa_expr : list N := {coq_str(mant['expr'] if mant else '')}.\n")
    out.append(f"Definition repair_underflow_guard_test : list N := {coq_str(mant['test'] if mant else '')}.\n")
    out.append(f"Definition repair_caught : list (list N) := {coq_list([coq_str(c) for c in caught], '(list N)')}.\n")
    for k, v in pins.items():
        out.append(f"Definition repair_{k} : list N := {coq_str(v)}.\n")
    return {"RepairGen.v": "".join(out)}
