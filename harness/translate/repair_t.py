"""core/repair.py (+ the fix/repair stages of mcp/validate.py, mcp/write.py, cli/main.py) -> Gen/RepairGen.v

CONSUMED by Rep/Repair.v : repair_guards (ordered guard codes of repair_value), repair_dispatch (isinstance order of
the constraint loop), rule ids, tier strings, the NUMBER type name, the characters tested by the int/float branch, the ORDERED rejecting guards of the float branch
(repair_float_guards: 1 not finite, 2 zero with a non-zero mantissa) and the mantissa test (split char, lower(), the per-character
digit test: 2 = `ch.isdecimal() and int(ch) != 0` (0b7941a), 1 = membership in a literal ASCII table (80b6126)).
PINNED (Rep/Pins_Repair.v) : normalised source (ast.unparse, docstrings removed) of _attempt_enum_casefold,
_attempt_type_coercion, _repair_ast_node, _apply_schema_repairs, repair, RepairLog.add, RepairEntry.to_dict and of the
three call sites (validate.execute `if fix:`, write.execute lenient repair, cli validate `--fix`), and WHAT SWITCHES REPAIR ON:
ValidateTool.execute `fix = params.get('fix', False)` / WriteTool.execute `lenient = params.get('lenient', False)` must be
the only binding of the switch (top-level, from an unmodified `params`), cli `--fix` a plain is_flag option never rebound, and
every repair() call must sit under `if <switch> ...` (defaults are CONSUMED: repair_*_default; texts pinned).
Fail closed: any guard / branch / call shape that is not recognised raises TranslateError.
"""
import ast

from .tlib import HEADER, TranslateError, coq_list, coq_str, find_def, need, parse_file

OUTPUTS = ["RepairGen.v"]

GUARD_CODES = {
    "isinstance(value, LiteralZoneValue)": 1,
    "not fix": 2,
    "field_def is None": 3,
    "field_def.pattern is None": 4,
    "field_def.pattern.constraints is None": 5,
    "not field_def.pattern.constraints.constraints": 6,
    "value is None": 7,
}
CLASS_CODES = {"EnumConstraint": 1, "TypeConstraint": 2}
FUNC_OF_CLASS = {"EnumConstraint": "_attempt_enum_casefold", "TypeConstraint": "_attempt_type_coercion"}


def _strip_doc(fn):
    body = list(fn.body)
    if body and isinstance(body[0], ast.Expr) and isinstance(body[0].value, ast.Constant) and isinstance(body[0].value.value, str):
        body = body[1:]
    return body


def _src(fn):
    """Normalised source of a function: signature line + unparsed statements without the docstring."""
    head = f"def {fn.name}({ast.unparse(fn.args)})"
    return head + "\n" + "\n".join(ast.unparse(s) for s in _strip_doc(fn))


def _add_call(fn):
    calls = [n for n in ast.walk(fn) if isinstance(n, ast.Call) and ast.unparse(n.func) == "repair_log.add"]
    need(len(calls) == 1, f"{fn.name}: expected exactly one repair_log.add call, found {len(calls)}")
    c = calls[0]
    need(not c.args, f"{fn.name}: repair_log.add with positional arguments")
    return {k.arg: k.value for k in c.keywords}


def _tier_values(src):
    mod = parse_file(src / "core" / "repair_log.py")
    cs = [n for n in mod.body if isinstance(n, ast.ClassDef) and n.name == "RepairTier"]
    need(len(cs) == 1, "RepairTier not found")
    out = {}
    for st in cs[0].body:
        if isinstance(st, ast.Assign) and len(st.targets) == 1 and isinstance(st.targets[0], ast.Name) \
                and isinstance(st.value, ast.Constant) and isinstance(st.value.value, str):
            out[st.targets[0].id] = st.value.value
    need("REPAIR" in out, "RepairTier.REPAIR not found")
    return out, mod


FLOAT_GUARD_NONFINITE = 1
FLOAT_GUARD_UNDERFLOW = 2
DIGIT_TEST_ASCII_TABLE = 1
DIGIT_TEST_DECIMAL_NONZERO = 2
REJECT = "(value, False)"


def _float_guards(stmts):
    """Statements after `coerced = float(value_stripped)` in the float branch -> (ordered guard codes, mantissa info | None).
    Understood, anything else raises:
      `if not math.isfinite(coerced): return (value, False)`                                    -> code 1
      `mantissa = value_stripped[.lower()].split('<c>')[0]`                                      -> binding (once, before its use)
      `if coerced == 0 and any((<digit test> for ch in mantissa)): return (value, False)`       -> code 2, where <digit test> is
           `ch.isdecimal() and int(ch) != 0`   -> digit_test 2 (any Unicode decimal digit whose value is not 0; current source)
           `ch in '<digits>'`                  -> digit_test 1 + the literal table (the ASCII-only test of 80b6126; recognised so
                                                  that a reverted tree still translates -- the generated digit_test differs and the
                                                  pin repair_mantissa_digit_test = 2 breaks)
    """
    guards, mant = [], None
    for st in stmts:
        if isinstance(st, ast.Assign):
            need(mant is None, "type coercion: second binding in the float branch")
            need(len(st.targets) == 1 and isinstance(st.targets[0], ast.Name) and st.targets[0].id == "mantissa",
                 f"type coercion: float branch binds `{ast.unparse(st.targets[0])}`")
            v = st.value
            need(isinstance(v, ast.Subscript) and isinstance(v.slice, ast.Constant) and v.slice.value == 0
                 and type(v.slice.value) is int, f"type coercion: mantissa is not `<split>[0]`: {ast.unparse(v)}")
            call = v.value
            need(isinstance(call, ast.Call) and isinstance(call.func, ast.Attribute) and call.func.attr == "split"
                 and len(call.args) == 1 and not call.keywords and isinstance(call.args[0], ast.Constant)
                 and isinstance(call.args[0].value, str) and len(call.args[0].value) == 1,
                 f"type coercion: mantissa split not understood: {ast.unparse(v)}")
            on = ast.unparse(call.func.value)
            need(on in ("value_stripped", "value_stripped.lower()"), f"type coercion: mantissa taken from `{on}`")
            mant = {"split": ord(call.args[0].value), "lower": 1 if on.endswith(".lower()") else 0, "expr": ast.unparse(v)}
            continue
        need(isinstance(st, ast.If) and not st.orelse and len(st.body) == 1 and isinstance(st.body[0], ast.Return)
             and st.body[0].value is not None and ast.unparse(st.body[0].value) == REJECT,
             f"type coercion: float branch statement is not a rejecting guard: {ast.unparse(st)!r}")
        t = ast.unparse(st.test)
        if t == "not math.isfinite(coerced)":
            guards.append(FLOAT_GUARD_NONFINITE)
            continue
        te = st.test
        need(mant is not None and "digits" not in mant, f"type coercion: unknown float guard `{t}`")
        need(isinstance(te, ast.BoolOp) and isinstance(te.op, ast.And) and len(te.values) == 2
             and ast.unparse(te.values[0]) == "coerced == 0", f"type coercion: unknown float guard `{t}`")
        a = te.values[1]
        need(isinstance(a, ast.Call) and ast.unparse(a.func) == "any" and len(a.args) == 1 and not a.keywords
             and isinstance(a.args[0], ast.GeneratorExp), f"type coercion: unknown float guard `{t}`")
        g = a.args[0]
        need(len(g.generators) == 1 and not g.generators[0].ifs and not g.generators[0].is_async
             and ast.unparse(g.generators[0].target) == "ch" and ast.unparse(g.generators[0].iter) == "mantissa",
             f"type coercion: underflow guard does not scan the mantissa: `{t}`")
        e = g.elt
        if ast.unparse(e) == "ch.isdecimal() and int(ch) != 0":
            need(isinstance(e, ast.BoolOp) and isinstance(e.op, ast.And) and len(e.values) == 2
                 and isinstance(e.values[0], ast.Call) and not e.values[0].args and not e.values[0].keywords
                 and isinstance(e.values[1], ast.Compare) and isinstance(e.values[1].ops[0], ast.NotEq)
                 and isinstance(e.values[1].comparators[0], ast.Constant) and e.values[1].comparators[0].value == 0
                 and type(e.values[1].comparators[0].value) is int,
                 f"type coercion: underflow guard digit test not understood: `{t}`")
            mant["digit_test"] = DIGIT_TEST_DECIMAL_NONZERO
            mant["digits"] = ""
        else:
            need(isinstance(e, ast.Compare) and len(e.ops) == 1 and isinstance(e.ops[0], ast.In) and ast.unparse(e.left) == "ch"
                 and isinstance(e.comparators[0], ast.Constant) and isinstance(e.comparators[0].value, str)
                 and e.comparators[0].value, f"type coercion: underflow guard digit test not understood: `{t}`")
            mant["digit_test"] = DIGIT_TEST_ASCII_TABLE
            mant["digits"] = e.comparators[0].value
        mant["test"] = t
        guards.append(FLOAT_GUARD_UNDERFLOW)
    need(len(set(guards)) == len(guards), "type coercion: a float guard occurs twice")
    need(mant is None or "digits" in mant, "type coercion: mantissa bound but never tested")
    return guards, mant


DYNAMIC_NAMES = {"locals", "vars", "globals", "exec", "eval", "setattr"}


def _stores(fn, name):
    """Every node that (re)binds or deletes the local `name` inside fn (assignment targets of any kind, for/with/except
    targets, walrus, augmented assignment, nested def/class/import of that name)."""
    out = []
    for n in ast.walk(fn):
        if isinstance(n, ast.Name) and n.id == name and isinstance(n.ctx, (ast.Store, ast.Del)):
            out.append(n)
        elif isinstance(n, (ast.FunctionDef, ast.AsyncFunctionDef, ast.ClassDef)) and n is not fn and n.name == name:
            out.append(n)
        elif isinstance(n, ast.ExceptHandler) and n.name == name:
            out.append(n)
        elif isinstance(n, ast.alias) and (n.asname or n.name.split(".")[0]) == name:
            out.append(n)
        elif isinstance(n, (ast.Global, ast.Nonlocal)) and name in n.names:
            out.append(n)
        elif isinstance(n, ast.arg) and n.arg == name and n not in (fn.args.args + fn.args.kwonlyargs):
            pass        # parameter of a nested lambda/def: a different scope
    return out


def _tool_flag(fn, name, key, where):
    """Parameter handling of a boolean flag of a tool's execute(): `params = self.validate_parameters(kwargs)` is the first
    statement and the only binding of `params`, `params` is only ever read through params.get(..)/params[..]/`in`,
    `<name> = params.get('<key>', <bool literal>)` is a top-level statement and the ONLY binding of <name>, and nothing in
    the function reaches locals by name (locals/vars/exec/eval/setattr).  -> (default as bool, binding source text)"""
    body = _strip_doc(fn)
    need(body and ast.unparse(body[0]) == "params = self.validate_parameters(kwargs)",
         f"{where}: first statement is not `params = self.validate_parameters(kwargs)`")
    need(fn.args.kwarg is not None and fn.args.kwarg.arg == "kwargs" and not fn.args.args[1:] and not fn.args.kwonlyargs
         and not fn.args.posonlyargs and fn.args.vararg is None, f"{where}: signature is not (self, **kwargs)")
    need(len(_stores(fn, "params")) == 1, f"{where}: `params` is bound more than once")
    need(not _stores(fn, "kwargs"), f"{where}: `kwargs` is rebound")
    for n in ast.walk(fn):
        if isinstance(n, ast.Attribute) and isinstance(n.value, ast.Name) and n.value.id in ("params", "kwargs"):
            need(n.value.id == "params" and n.attr == "get", f"{where}: `{ast.unparse(n)}` (only params.get is understood)")
        if isinstance(n, ast.Subscript) and isinstance(n.value, ast.Name) and n.value.id in ("params", "kwargs"):
            need(isinstance(n.ctx, ast.Load), f"{where}: `{ast.unparse(n)}` is written")
        if isinstance(n, ast.Name) and n.id in DYNAMIC_NAMES:
            need(False, f"{where}: uses `{n.id}`")
        if isinstance(n, ast.Call):
            for a in list(n.args) + [k.value for k in n.keywords]:
                if isinstance(a, ast.Starred):
                    a = a.value
                need(not (isinstance(a, ast.Name) and a.id in ("params", "kwargs")) or ast.unparse(n) == "self.validate_parameters(kwargs)",
                     f"{where}: `params`/`kwargs` passed on: {ast.unparse(n)[:80]}")
            for k in n.keywords:
                need(not (k.arg is None and isinstance(k.value, ast.Name) and k.value.id in ("params", "kwargs")),
                     f"{where}: `**{ast.unparse(k.value)}` passed on")
    st = _stores(fn, name)
    need(len(st) == 1 and isinstance(st[0], ast.Name), f"{where}: `{name}` is bound {len(st)} times (exactly one binding is understood)")
    binds = [b for b in body if isinstance(b, ast.Assign) and len(b.targets) == 1 and b.targets[0] is st[0]]
    need(len(binds) == 1, f"{where}: the binding of `{name}` is not a top-level statement of execute()")
    v = binds[0].value
    need(isinstance(v, ast.Call) and ast.unparse(v.func) == "params.get" and len(v.args) == 2 and not v.keywords
         and isinstance(v.args[0], ast.Constant) and v.args[0].value == key
         and isinstance(v.args[1], ast.Constant) and type(v.args[1].value) is bool,
         f"{where}: `{ast.unparse(binds[0])}` is not `{name} = params.get('{key}', <bool>)`")
    return v.args[1].value, ast.unparse(binds[0])


def _repair_calls_gated(fn, flag, where):
    """Every call of repair(..) inside fn sits in the BODY of an `if` whose test is `<flag>` or `<flag> and ...`."""
    parent = {}
    for n in ast.walk(fn):
        for c in ast.iter_child_nodes(n):
            parent[c] = n
    calls = [n for n in ast.walk(fn) if isinstance(n, ast.Call) and ast.unparse(n.func) in ("repair", "repair_value", "_apply_schema_repairs")]
    need(calls, f"{where}: no repair() call found")
    gates = []
    for c in calls:
        need(ast.unparse(c.func) == "repair", f"{where}: calls {ast.unparse(c.func)} directly")
        cur, ok = c, None
        while cur in parent:
            p = parent[cur]
            if isinstance(p, ast.If) and any(cur is b or _contains(b, cur) for b in p.body):
                t = p.test
                first = t.values[0] if isinstance(t, ast.BoolOp) and isinstance(t.op, ast.And) else t
                if isinstance(first, ast.Name) and first.id == flag:
                    ok = ast.unparse(t)
                    break
            cur = p
        need(ok is not None, f"{where}: a repair() call is not guarded by `if {flag} ...`")
        gates.append(ok)
    return gates


def _contains(root, node):
    return any(n is node for n in ast.walk(root))


def _cli_fix_option(fn, where):
    """`@click.option('--fix', is_flag=True, ...)` without default/flag_value, parameter `fix` never rebound."""
    opts = [d for d in fn.decorator_list if isinstance(d, ast.Call) and ast.unparse(d.func) == "click.option"
            and d.args and isinstance(d.args[0], ast.Constant) and d.args[0].value == "--fix"]
    need(len(opts) == 1, f"{where}: expected exactly one click.option('--fix', ...)")
    o = opts[0]
    need(len(o.args) == 1, f"{where}: --fix option has extra declarations")
    kws = {k.arg: k.value for k in o.keywords}
    need(set(kws) <= {"is_flag", "help"} and isinstance(kws.get("is_flag"), ast.Constant) and kws["is_flag"].value is True,
         f"{where}: --fix is not a plain is_flag option: {ast.unparse(o)}")
    need(any(a.arg == "fix" for a in fn.args.args), f"{where}: no parameter `fix`")
    need(not _stores(fn, "fix"), f"{where}: parameter `fix` is rebound")
    for n in ast.walk(fn):
        need(not (isinstance(n, ast.Name) and n.id in DYNAMIC_NAMES), f"{where}: uses `{getattr(n, 'id', '')}`")
    return ast.unparse(ast.Call(func=o.func, args=o.args, keywords=[k for k in o.keywords if k.arg != "help"]))


def _find_if(fn, test_src):
    hits = [n for n in ast.walk(fn) if isinstance(n, ast.If) and ast.unparse(n.test) == test_src]
    need(len(hits) == 1, f"{fn.name}: expected exactly one `if {test_src}:` block, found {len(hits)}")
    return hits[0]


def generate(src):
    mod = parse_file(src / "core" / "repair.py")
    tiers, logmod = _tier_values(src)
    # ---------------- repair_value: guards, loop dispatch -----------------
    rv = find_def(mod, "repair_value")
    body = _strip_doc(rv)
    guards = []
    i = 0
    while i < len(body) and isinstance(body[i], ast.If):
        st = body[i]
        t = ast.unparse(st.test)
        need(t in GUARD_CODES, f"repair_value: unknown guard `{t}`")
        need(not st.orelse and len(st.body) == 1 and isinstance(st.body[0], ast.Return)
             and ast.unparse(st.body[0].value) == "(value, False)", f"repair_value: guard `{t}` does not `return value, False`")
        guards.append(GUARD_CODES[t])
        i += 1
    rest = body[i:]
    need(len(rest) == 5, f"repair_value: unexpected tail of {len(rest)} statements")
    need(ast.unparse(rest[0]) == "constraints = field_def.pattern.constraints.constraints", "repair_value: constraints binding changed")
    need(ast.unparse(rest[1]) == "current_value = value", "repair_value: current_value binding changed")
    need(ast.unparse(rest[2]) == "was_repaired = False", "repair_value: was_repaired binding changed")
    loop = rest[3]
    need(isinstance(loop, ast.For) and ast.unparse(loop.target) == "constraint" and ast.unparse(loop.iter) == "constraints"
         and not loop.orelse and len(loop.body) == 1 and isinstance(loop.body[0], ast.If), "repair_value: loop shape changed")
    need(ast.unparse(rest[4]) == "return (current_value, was_repaired)", "repair_value: final return changed")
    dispatch = []
    cur = loop.body[0]
    while True:
        t = cur.test
        need(isinstance(t, ast.Call) and ast.unparse(t.func) == "isinstance" and len(t.args) == 2
             and ast.unparse(t.args[0]) == "constraint" and isinstance(t.args[1], ast.Name)
             and t.args[1].id in CLASS_CODES, f"repair_value: unknown dispatch test `{ast.unparse(t)}`")
        cls = t.args[1].id
        want = (f"repaired, did_repair = {FUNC_OF_CLASS[cls]}(current_value, constraint, repair_log)\n"
                "if did_repair:\n    current_value = repaired\n    was_repaired = True")
        got = "\n".join(ast.unparse(s) for s in cur.body)
        need(got == want, f"repair_value: branch for {cls} changed: {got!r}")
        dispatch.append(CLASS_CODES[cls])
        if not cur.orelse:
            break
        need(len(cur.orelse) == 1 and isinstance(cur.orelse[0], ast.If), "repair_value: dispatch has an else branch")
        cur = cur.orelse[0]
    # ---------------- _attempt_enum_casefold -----------------
    ef = find_def(mod, "_attempt_enum_casefold")
    ekw = _add_call(ef)
    need(ast.unparse(ekw["before"]) == "value" and ast.unparse(ekw["after"]) == "canonical", "enum casefold: logged before/after changed")
    need(isinstance(ekw["rule_id"], ast.Constant), "enum casefold: rule_id not literal")
    etier = ast.unparse(ekw["tier"])
    need(etier.startswith("RepairTier.") and etier.split(".")[1] in tiers, f"enum casefold: tier {etier}")
    # ---------------- _attempt_type_coercion -----------------
    tf = find_def(mod, "_attempt_type_coercion")
    tkw = _add_call(tf)
    need(ast.unparse(tkw["before"]) == "value" and ast.unparse(tkw["after"]) == "str(coerced)", "type coercion: logged before/after changed")
    need(isinstance(tkw["rule_id"], ast.Constant), "type coercion: rule_id not literal")
    ttier = ast.unparse(tkw["tier"])
    need(ttier.startswith("RepairTier.") and ttier.split(".")[1] in tiers, f"type coercion: tier {ttier}")
    num = None
    for n in ast.walk(tf):
        if isinstance(n, ast.Compare) and ast.unparse(n.left) == "expected_type" and len(n.ops) == 1 \
                and isinstance(n.ops[0], ast.NotEq) and isinstance(n.comparators[0], ast.Constant):
            num = n.comparators[0].value
    need(isinstance(num, str), "type coercion: `expected_type != <literal>` not found")
    tries = [n for n in ast.walk(tf) if isinstance(n, ast.Try)]
    need(len(tries) == 1 and len(tries[0].handlers) == 1, "type coercion: try/except shape changed")
    h = tries[0].handlers[0]
    caught = [ast.unparse(e) for e in (h.type.elts if isinstance(h.type, ast.Tuple) else [h.type])]
    need(ast.unparse(h.body[0]) == "return (value, False)", "type coercion: except handler does not return value unchanged")
    br = tries[0].body[0]
    need(isinstance(br, ast.If), "type coercion: int/float branch not first in try")
    branch_test = ast.unparse(br.test)
    # characters whose absence selects int(): every `'<c>' not in <expr>` of the test
    int_chars = []
    need(isinstance(br.test, ast.BoolOp) and isinstance(br.test.op, ast.And), "type coercion: branch test is not a conjunction")
    for v in br.test.values:
        need(isinstance(v, ast.Compare) and len(v.ops) == 1 and isinstance(v.ops[0], ast.NotIn)
             and isinstance(v.left, ast.Constant) and isinstance(v.left.value, str) and len(v.left.value) == 1,
             f"type coercion: branch conjunct `{ast.unparse(v)}` not understood")
        on = ast.unparse(v.comparators[0])
        need(on in ("value_stripped", "value_stripped.lower()"), f"type coercion: branch tests `{on}`")
        int_chars.append((ord(v.left.value), 1 if on.endswith(".lower()") else 0))
    need(ast.unparse(br.body[0]) == "coerced = int(value_stripped)", "type coercion: int branch changed")
    need(ast.unparse(br.orelse[0]) == "coerced = float(value_stripped)", "type coercion: float branch changed")
    # the float branch: `coerced = float(..)` followed by an ordered sequence of rejecting guards (each returns
    # (value, False)); bindings between guards are understood one by one (only the mantissa binding exists)
    float_guards, mant = _float_guards(br.orelse[1:])
    need(float_guards[:1] == [FLOAT_GUARD_NONFINITE],
         "type coercion: the finiteness guard is not the first statement after float()")
    tb = tries[0].body
    need(len(tb) == 3 and isinstance(tb[1], ast.Expr) and isinstance(tb[1].value, ast.Call)
         and ast.unparse(tb[1].value.func) == "repair_log.add" and ast.unparse(tb[2]) == "return (coerced, True)",
         "type coercion: statements between the int/float branch and the logged return changed")
    need(len(br.body) == 1, "type coercion: int branch has more than the int() binding")
    # ---------------- pins: normalised sources -----------------
    pins = {
        "src_attempt_enum_casefold": _src(ef),
        "src_attempt_type_coercion": _src(tf),
        "src_repair_ast_node": _src(find_def(mod, "_repair_ast_node")),
        "src_apply_schema_repairs": _src(find_def(mod, "_apply_schema_repairs")),
        "src_repair": _src(find_def(mod, "repair")),
        "src_log_add": _src(find_def(logmod, "add", cls="RepairLog")),
        "src_entry_to_dict": _src(find_def(logmod, "to_dict", cls="RepairEntry")),
    }
    vmod = parse_file(src / "mcp" / "validate.py")
    pins["src_validate_fix_stage"] = ast.unparse(_find_if(find_def(vmod, "execute", cls="ValidateTool"), "fix"))
    wmod = parse_file(src / "mcp" / "write.py")
    wex = find_def(wmod, "execute", cls="WriteTool")
    pins["src_write_repair_stage"] = ast.unparse(_find_if(wex, "lenient and schema_definition is not None and validation_errors"))
    pins["src_write_meta_repair_stage"] = ast.unparse(_find_if(wex, "lenient and schema_def is not None and validation_errors"))
    cmod = parse_file(src / "cli" / "main.py")
    pins["src_cli_fix_stage"] = ast.unparse(_find_if(find_def(cmod, "validate"), "fix and validation_errors"))
    # ---------------- what switches repair ON at each surface -----------------
    vex = find_def(vmod, "execute", cls="ValidateTool")
    v_default, v_bind = _tool_flag(vex, "fix", "fix", "ValidateTool.execute")
    v_gates = _repair_calls_gated(vex, "fix", "ValidateTool.execute")
    w_default, w_bind = _tool_flag(wex, "lenient", "lenient", "WriteTool.execute")
    w_gates = _repair_calls_gated(wex, "lenient", "WriteTool.execute")
    cfn = find_def(cmod, "validate")
    c_opt = _cli_fix_option(cfn, "cli validate")
    c_gates = _repair_calls_gated(cfn, "fix", "cli validate")
    for cls_name, m in (("ValidateTool", vmod), ("WriteTool", wmod)):
        cs = [n for n in m.body if isinstance(n, ast.ClassDef) and n.name == cls_name]
        need(len(cs) == 1 and not any(isinstance(b, (ast.FunctionDef, ast.AsyncFunctionDef)) and b.name == "validate_parameters" for b in cs[0].body)
             and [ast.unparse(b) for b in cs[0].bases] == ["BaseTool"], f"{cls_name}: overrides validate_parameters or has other bases")
    bmod = parse_file(src / "mcp" / "base_tool.py")
    pins["src_validate_parameters"] = _src(find_def(bmod, "validate_parameters", cls="BaseTool"))
    pins["validate_fix_binding"] = v_bind
    pins["validate_repair_gates"] = "\n".join(v_gates)
    pins["write_lenient_binding"] = w_bind
    pins["write_repair_gates"] = "\n".join(w_gates)
    pins["cli_fix_option"] = c_opt
    pins["cli_repair_gates"] = "\n".join(c_gates)
    # ---------------- emit -----------------
    out = [HEADER]
    out.append("(* repair_value: ordered guard codes (1 zone, 2 not fix, 3 no field_def, 4 no pattern, 5 no chain, 6 empty chain, 7 None);\n"
               "   every guard returns (value, False) *)\n")
    out.append(f"Definition repair_guards : list N := {coq_list([str(g) for g in guards], 'N')}.\n")
    out.append("(* constraint loop: isinstance order (1 EnumConstraint -> _attempt_enum_casefold, 2 TypeConstraint -> _attempt_type_coercion) *)\n")
    out.append(f"Definition repair_dispatch : list N := {coq_list([str(g) for g in dispatch], 'N')}.\n")
    out.append(f"Definition repair_rule_enum : list N := {coq_str(ekw['rule_id'].value)}.\n")
    out.append(f"Definition repair_rule_type : list N := {coq_str(tkw['rule_id'].value)}.\n")
    out.append(f"Definition repair_tier_enum : list N := {coq_str(tiers[etier.split('.')[1]])}.\n")
    out.append(f"Definition repair_tier_type : list N := {coq_str(tiers[ttier.split('.')[1]])}.\n")
    out.append(f"Definition repair_number_type : list N := {coq_str(num)}.\n")
    out.append("(* int() is chosen iff none of these characters occurs; (char, 1 = tested on .lower()) *)\n")
    out.append(f"Definition repair_int_branch_chars : list (N * N) := {coq_list([f'({c}, {l})' for c, l in int_chars], '(N * N)')}.\n")
    out.append(f"Definition repair_int_branch_test : list N := {coq_str(branch_test)}.\n")
    out.append("(* float branch: ordered rejecting guards after float() (1 = not math.isfinite(coerced), 2 = coerced == 0 and the\n"
               "   mantissa -- text before the first split char, of the lower-cased text iff lower = 1 -- has a char of digits) *)\n")
    out.append(f"Definition repair_float_guards : list N := {coq_list([str(g) for g in float_guards], 'N')}.\n")
    out.append(f"Definition repair_mantissa_split : N := {mant['split'] if mant else 0}.\n")
    out.append(f"Definition repair_mantissa_lower : N := {mant['lower'] if mant else 0}.\n")
    out.append("(* per-character test of the mantissa: 1 = `ch in <repair_mantissa_digits>`, 2 = `ch.isdecimal() and int(ch) != 0` *)\n")
    out.append(f"Definition repair_mantissa_digit_test : N := {mant['digit_test'] if mant else 0}.\n")
    out.append(f"Definition repair_mantissa_digits : list N := {coq_str(mant['digits'] if mant else '')}.\n")
    out.append(f"Definition repair_mantissa_expr : list N := {coq_str(mant['expr'] if mant else '')}.\n")
    out.append(f"Definition repair_underflow_guard_test : list N := {coq_str(mant['test'] if mant else '')}.\n")
    out.append(f"Definition repair_caught : list (list N) := {coq_list([coq_str(c) for c in caught], '(list N)')}.\n")
    out.append("(* value of the switch when the caller OMITS it (1 = on): octave_validate `fix`, octave_write `lenient`, cli `--fix`;\n"
               "   extracted together with the facts that it is the only binding of the switch and that every repair() call is gated by it *)\n")
    out.append(f"Definition repair_validate_fix_default : N := {1 if v_default else 0}.\n")
    out.append(f"Definition repair_write_lenient_default : N := {1 if w_default else 0}.\n")
    out.append("Definition repair_cli_fix_default : N := 0.\n")
    for k, v in pins.items():
        out.append(f"Definition repair_{k} : list N := {coq_str(v)}.\n")
    return {"RepairGen.v": "".join(out)}
