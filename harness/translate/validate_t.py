"""mcp/validate.py (execute), core/validator.py (Validator), core/routing.py, schemas/loader.py, mcp/write.py, cli/main.py
-> Gen/ValidateGen.v                                                                                   (property C09)

CONSUMED by Val/ToPy.v
  vt_valid_profiles, vt_default_profile      VALID_PROFILES / DEFAULT_PROFILE
  vt_strict_profile                          the literal of `strict_mode = profile == <lit>`
  vt_downgrade_profiles                      the tuple of `if profile in (...)` under `if validation_errors:` (errors -> warnings)
  vt_status_*                                the status literals assigned in the clean / downgraded / blocking / no-schema branches
  vt_doc_flow                                every statement of execute() that assigns `doc`, passes `doc` to a call, assigns
                                             `canonical_output` or result["canonical"], in source order, each with the chain of
                                             enclosing tests (source text; `not <t>` for else branches, `try` / `except <T>`).
                                             kind 1 doc := parse_with_warnings(content) | 2 doc := repair(doc, ...) | 3 doc read by a call
                                                  4 canonical_output := emit(doc) | 5 result["canonical"] := <expr>
                                             The flow interpreter of Val/ToPy.v runs THIS list (C09_readonly).
  vt_target_builtins                         routing.TargetRegistry.BUILTINS
  vt_builtin_schemas                         loader.BUILTIN_SCHEMA_DEFINITIONS: (name, has "META", required, [(field, type, values)])
  vt_meta_type_map                           the type_map of Validator._validate_type
  vt_fm_blank_is_absent, vt_fm_absent_code,  validate_frontmatter: whether a whitespace-only block takes the ABSENT branch, and what that
  vt_fm_absent_prefix                        branch reports (code, field_path prefix) -- the test text and the branch source are pinned
PINNED (Val/Pins_Validate.v)
  vt_topy_dispatch / vt_topy_default         the isinstance chain of Validator._to_python_value: (class, returned expression) in order
  vt_src_*                                   normalised source (ast.unparse, docstrings removed) of Validator.validate, _validate_meta,
                                             _validate_type, _validate_section, TargetRouter.route/parse_target_spec,
                                             TargetRegistry.is_valid, extract_block_targets(+_recursive), InheritanceResolver.resolve_target/_ancestors
  vt_validator_stores                        every attribute/subscript store and every mutating method call inside class Validator
                                             (validation writes to self.* and locals only -- never to the document)
  vt_validator_ctor_sites                    every `Validator(...)` construction in validate.execute / write.execute / cli validate with its guards
  vt_tool_instance_state                     ValidateTool defines __init__ or stores to self.* anywhere (expected: false)
  vt_write_validate_calls, vt_cli_validate_calls   the `.validate(doc, ...)` call texts of the two other surfaces
Fail closed: a statement touching `doc` / the canonical output in a shape not listed above raises TranslateError.
"""
import ast

from .tlib import HEADER, TranslateError, coq_comment, coq_list, coq_str, coq_strlist, const_eval, find_def, module_assign, need, parse_file

OUTPUTS = ["ValidateGen.v"]

MUTATING_METHODS = ("append", "extend", "insert", "add", "update", "pop", "popitem", "remove", "clear", "setdefault", "discard",
                    "sort", "reverse", "register_custom", "route", "__setitem__", "__delitem__")


def _strip_doc(fn):
    body = list(fn.body)
    if body and isinstance(body[0], ast.Expr) and isinstance(body[0].value, ast.Constant) and isinstance(body[0].value.value, str):
        body = body[1:]
    return body


def _src(fn):
    head = f"def {fn.name}({ast.unparse(fn.args)})"
    return head + "\n" + "\n".join(ast.unparse(s) for s in _strip_doc(fn))


def _mentions(node, name):
    return any(isinstance(n, ast.Name) and n.id == name for n in ast.walk(node))


def _is_result_canonical(t):
    return (isinstance(t, ast.Subscript) and isinstance(t.value, ast.Name) and t.value.id == "result"
            and isinstance(t.slice, ast.Constant) and t.slice.value == "canonical")


def _walk_stmts(stmts, guards, out):
    """Source-order walk of a statement list with the chain of enclosing tests."""
    for st in stmts:
        if isinstance(st, ast.If):
            t = ast.unparse(st.test)
            # the test itself may read doc (e.g. `doc.raw_frontmatter`): reading an attribute is not a flow event, a call is
            _expr_events(st.test, guards, out, st)
            _walk_stmts(st.body, guards + [t], out)
            _walk_stmts(st.orelse, guards + ["not " + t], out)
        elif isinstance(st, ast.Try):
            _walk_stmts(st.body, guards + ["try"], out)
            for h in st.handlers:
                _walk_stmts(h.body, guards + ["except " + (ast.unparse(h.type) if h.type is not None else "")], out)
            _walk_stmts(st.orelse, guards + ["try-else"], out)
            _walk_stmts(st.finalbody, guards + ["finally"], out)
        elif isinstance(st, (ast.For, ast.AsyncFor, ast.While)):
            need(not _touches(st), f"loop touching doc/canonical not understood: {ast.unparse(st)[:80]}")
        elif isinstance(st, (ast.With, ast.AsyncWith)):
            need(not _touches(st), f"with-block touching doc/canonical not understood: {ast.unparse(st)[:80]}")
        elif isinstance(st, (ast.FunctionDef, ast.AsyncFunctionDef, ast.ClassDef)):
            need(not _touches(st), "nested definition touching doc/canonical not understood")
        else:
            _simple(st, guards, out)


def _touches(node):
    for n in ast.walk(node):
        if isinstance(n, ast.Name) and n.id in ("doc", "canonical_output"):
            return True
        if _is_result_canonical(n):
            return True
    return False


def _expr_events(expr, guards, out, st):
    """calls inside an expression that receive `doc` as an argument (kind 3)"""
    for n in ast.walk(expr):
        if isinstance(n, ast.Call):
            args = list(n.args) + [k.value for k in n.keywords]
            if any(isinstance(a, ast.Name) and a.id == "doc" for a in args):
                out.append((list(guards), 3, ast.unparse(n.func)))
            else:
                for a in args:
                    need(not _mentions(a, "doc") or isinstance(a, ast.Attribute) or _only_attr_reads(a),
                         f"doc passed inside a compound argument: {ast.unparse(n)[:80]}")


def _only_attr_reads(expr):
    """every occurrence of the name doc is the base of an attribute READ (doc.raw_frontmatter ...)"""
    parents = {}
    for p in ast.walk(expr):
        for c in ast.iter_child_nodes(p):
            parents[id(c)] = p
    for n in ast.walk(expr):
        if isinstance(n, ast.Name) and n.id == "doc":
            p = parents.get(id(n))
            if not (isinstance(p, ast.Attribute) and isinstance(p.ctx, ast.Load)):
                return False
    return True


def _simple(st, guards, out):
    if not _touches(st):
        return
    if isinstance(st, ast.Assign):
        need(len(st.targets) == 1, f"chained assignment touching doc: {ast.unparse(st)[:80]}")
        tgt = st.targets[0]
        names = [e for e in (tgt.elts if isinstance(tgt, ast.Tuple) else [tgt])]
        assigns_doc = any(isinstance(e, ast.Name) and e.id == "doc" for e in names)
        assigns_out = any(isinstance(e, ast.Name) and e.id == "canonical_output" for e in names)
        assigns_rc = any(_is_result_canonical(e) for e in names)
        for e in names:   # stores INTO the document (doc.x = ..., doc.meta[k] = ...) are not understood here
            need(not ((isinstance(e, (ast.Attribute, ast.Subscript))) and _mentions(e, "doc")),
                 f"store into the document: {ast.unparse(st)[:80]}")
        v = st.value
        if assigns_doc:
            need(isinstance(v, ast.Call), f"doc assigned from a non-call: {ast.unparse(st)[:80]}")
            fn = ast.unparse(v.func)
            if fn == "parse_with_warnings":
                need(len(v.args) == 1 and ast.unparse(v.args[0]) == "content" and not v.keywords, "parse_with_warnings argument changed")
                need(isinstance(tgt, ast.Tuple) and ast.unparse(tgt.elts[0]) == "doc", "parse_with_warnings result binding changed")
                out.append((list(guards), 1, ast.unparse(st)))
            elif fn == "repair":
                need(len(v.args) >= 1 and ast.unparse(v.args[0]) == "doc", "repair first argument changed")
                need(isinstance(tgt, ast.Tuple) and ast.unparse(tgt.elts[0]) == "doc", "repair result binding changed")
                out.append((list(guards), 2, ast.unparse(st)))
            else:
                raise TranslateError(f"doc assigned from an unknown call {fn}")
            return
        if assigns_out:
            need(isinstance(tgt, ast.Name) and ast.unparse(v) == "emit(doc)", f"canonical_output not assigned from emit(doc): {ast.unparse(st)[:80]}")
            out.append((list(guards), 4, ast.unparse(st)))
            return
        if assigns_rc:
            need(not _mentions(v, "doc"), f"result['canonical'] computed from doc directly: {ast.unparse(st)[:80]}")
            out.append((list(guards), 5, ast.unparse(v)))
            return
        # doc only read on the right-hand side
        need(_only_attr_reads(v) or any(isinstance(n, ast.Call) for n in ast.walk(v)), f"unexpected use of doc: {ast.unparse(st)[:80]}")
        _expr_events(v, guards, out, st)
        # canonical_output read (content_changed = content != canonical_output): not a flow event
        return
    if isinstance(st, ast.AnnAssign):
        need(not (_mentions(st.target, "doc") or (st.value is not None and _touches(st.value))), f"annotated assignment touching doc: {ast.unparse(st)[:80]}")
        return
    if isinstance(st, ast.Expr):
        _expr_events(st.value, guards, out, st)
        return
    if isinstance(st, (ast.Return, ast.Assert)):
        need(not _mentions(st, "doc"), f"return/assert mentions doc: {ast.unparse(st)[:80]}")
        return
    if isinstance(st, ast.AugAssign) or isinstance(st, ast.Delete):
        raise TranslateError(f"augmented assignment / del touching doc: {ast.unparse(st)[:80]}")
    raise TranslateError(f"statement touching doc not understood: {type(st).__name__}: {ast.unparse(st)[:80]}")


def _profile_tables(ex):
    """strict literal, downgrade tuple, status literals of the four branches"""
    strict = None
    for n in ast.walk(ex):
        if isinstance(n, ast.Assign) and ast.unparse(n.targets[0]) == "strict_mode":
            c = n.value
            need(isinstance(c, ast.Compare) and ast.unparse(c.left) == "profile" and len(c.ops) == 1 and isinstance(c.ops[0], ast.Eq)
                 and isinstance(c.comparators[0], ast.Constant), "strict_mode test shape")
            need(strict is None, "strict_mode assigned twice")
            strict = c.comparators[0].value
    need(isinstance(strict, str), "strict_mode = profile == <literal> not found")
    hs = [n for n in ast.walk(ex) if isinstance(n, ast.If) and ast.unparse(n.test) == "has_schema"]
    need(len(hs) == 1, "`if has_schema:` not found exactly once")
    hs = hs[0]
    ve = [s for s in hs.body if isinstance(s, ast.If) and ast.unparse(s.test) == "validation_errors"]
    need(len(ve) == 1, "`if validation_errors:` under has_schema not found exactly once")
    ve = ve[0]
    pb = [s for s in ve.body if isinstance(s, ast.If)]
    need(len(pb) == 1, "profile branch under `if validation_errors:` not found exactly once")
    pb = pb[0]
    t = pb.test
    need(isinstance(t, ast.Compare) and ast.unparse(t.left) == "profile" and len(t.ops) == 1 and isinstance(t.ops[0], ast.In),
         f"profile branch test shape: {ast.unparse(t)}")
    down = const_eval(t.comparators[0])
    need(all(isinstance(x, str) for x in down), "downgrade profiles not literal")

    def status_of(stmts, what):
        vals = [s.value.value for s in stmts if isinstance(s, ast.Assign) and ast.unparse(s.targets[0]) == "result['validation_status']"
                and isinstance(s.value, ast.Constant)]
        need(len(vals) == 1, f"{what}: expected exactly one literal validation_status assignment, found {len(vals)}")
        return vals[0]

    def err_sinks(stmts, what):
        """which result lists receive the error dicts: ('validation_errors' assigned from error_dicts?, 'warnings' extended?)"""
        ve_src = None
        warn = False
        for s in stmts:
            if isinstance(s, ast.Assign) and ast.unparse(s.targets[0]) == "result['validation_errors']":
                ve_src = ast.unparse(s.value)
            if isinstance(s, ast.Expr) and isinstance(s.value, ast.Call) and ast.unparse(s.value.func) == "result['warnings'].extend":
                a = ast.unparse(s.value.args[0])
                need(a in ("error_dicts", "result['validation_errors']"), f"{what}: warnings extended with {a}")
                warn = True
        need(ve_src in ("[]", "error_dicts"), f"{what}: validation_errors assigned from {ve_src}")
        return ve_src == "error_dicts", warn

    st_down = status_of(pb.body, "downgrade branch")
    st_block = status_of(pb.orelse, "blocking branch")
    st_clean = status_of(ve.orelse, "clean branch")
    d_ve, d_w = err_sinks(pb.body, "downgrade branch")
    b_ve, b_w = err_sinks(pb.orelse, "blocking branch")
    # initial status of the success envelope
    init = None
    for n in ex.body:
        if isinstance(n, ast.AnnAssign) and ast.unparse(n.target) == "result" and isinstance(n.value, ast.Dict):
            for k, v in zip(n.value.keys, n.value.values):
                if isinstance(k, ast.Constant) and k.value == "validation_status":
                    init = const_eval(v)
    need(isinstance(init, str), "initial validation_status of the envelope not found")
    # the no-schema branch must not assign a status and may only extend warnings
    for s in ast.walk(ast.Module(body=hs.orelse, type_ignores=[])):
        if isinstance(s, ast.Assign):
            need(ast.unparse(s.targets[0]) in ("validator", "validation_errors"), f"no-schema branch assigns {ast.unparse(s.targets[0])}")
    return strict, down, st_down, st_block, st_clean, init, (d_ve, d_w, b_ve, b_w)


def _topy(fn):
    body = _strip_doc(fn)
    disp = []
    need(len(body) >= 1, "_to_python_value: empty body")
    for st in body[:-1]:
        need(isinstance(st, ast.If) and not st.orelse and len(st.body) == 1 and isinstance(st.body[0], ast.Return),
             f"_to_python_value: statement shape: {ast.unparse(st)[:60]}")
        t = st.test
        need(isinstance(t, ast.Call) and ast.unparse(t.func) == "isinstance" and len(t.args) == 2 and ast.unparse(t.args[0]) == "value"
             and isinstance(t.args[1], ast.Name), f"_to_python_value: test shape: {ast.unparse(t)}")
        disp.append((t.args[1].id, ast.unparse(st.body[0].value)))
    last = body[-1]
    need(isinstance(last, ast.Return), "_to_python_value: last statement is not a return")
    return disp, ast.unparse(last.value)


def _validator_stores(cls):
    out = []
    for fn in cls.body:
        if not isinstance(fn, (ast.FunctionDef, ast.AsyncFunctionDef)):
            continue
        for n in ast.walk(fn):
            tgts = []
            if isinstance(n, ast.Assign):
                tgts = n.targets
            elif isinstance(n, (ast.AugAssign, ast.AnnAssign)):
                tgts = [n.target]
            elif isinstance(n, ast.Delete):
                tgts = n.targets
            for t in tgts:
                for e in (t.elts if isinstance(t, ast.Tuple) else [t]):
                    if isinstance(e, (ast.Attribute, ast.Subscript)):
                        out.append(f"{fn.name}: store {ast.unparse(e)}")
            if isinstance(n, ast.Call) and isinstance(n.func, ast.Attribute) and n.func.attr in MUTATING_METHODS:
                out.append(f"{fn.name}: call {ast.unparse(n.func)}")
            if isinstance(n, ast.Call) and ast.unparse(n.func) in ("setattr", "delattr"):
                out.append(f"{fn.name}: call {ast.unparse(n)}")
    return out


def _ctor_sites(fn, where):
    evs = []

    def walk(stmts, guards):
        for st in stmts:
            if isinstance(st, ast.If):
                walk(st.body, guards + [ast.unparse(st.test)])
                walk(st.orelse, guards + ["not " + ast.unparse(st.test)])
            elif isinstance(st, ast.Try):
                walk(st.body, guards + ["try"])
                for h in st.handlers:
                    walk(h.body, guards + ["except"])
                walk(st.orelse, guards)
                walk(st.finalbody, guards)
            elif isinstance(st, (ast.For, ast.While, ast.With)):
                walk(st.body, guards + ["loop/with"])
            else:
                for n in ast.walk(st):
                    if isinstance(n, ast.Call) and ast.unparse(n.func) == "Validator":
                        tgt = ast.unparse(st.targets[0]) if isinstance(st, ast.Assign) else "<expr>"
                        evs.append(f"{where}: {tgt} = {ast.unparse(n)} | {' & '.join(guards) or 'always'}")
    walk(fn.body, [])
    return evs


def _validate_calls(fn, where):
    out = []
    for n in ast.walk(fn):
        if isinstance(n, ast.Call) and isinstance(n.func, ast.Attribute) and n.func.attr == "validate" \
                and n.args and ast.unparse(n.args[0]) == "doc":
            out.append(f"{where}: {ast.unparse(n)}")
    return out


def _builtin_schemas(lmod):
    tbl = const_eval(module_assign(lmod, "BUILTIN_SCHEMA_DEFINITIONS"))
    out = []
    for name, d in tbl:
        need(isinstance(name, str) and isinstance(d, list), "BUILTIN_SCHEMA_DEFINITIONS entry shape")
        dd = dict(d)
        has_meta = "META" in dd
        req, fields = [], []
        if has_meta:
            m = dict(dd["META"])
            need(set(m) <= {"required", "fields"}, f"builtin schema {name}: unknown META keys {sorted(m)}")
            req = list(m.get("required", []))
            need(all(isinstance(x, str) for x in req), "required names not literal strings")
            for fname, spec in m.get("fields", []):
                sp = dict(spec)
                need(set(sp) <= {"type", "values"}, f"builtin schema {name}.{fname}: unknown keys {sorted(sp)}")
                ty = sp.get("type", "")
                vals = list(sp.get("values", []))
                need(isinstance(ty, str) and all(isinstance(x, str) for x in vals), "field type/values not literal strings")
                fields.append((fname, ty, vals))
        need(set(dd) <= {"name", "version", "META"}, f"builtin schema {name}: unknown keys {sorted(dd)}")
        out.append((name, has_meta, req, fields))
    return out


def _meta_type_map(fn):
    for n in ast.walk(fn):
        if isinstance(n, ast.AnnAssign) and ast.unparse(n.target) == "type_map" and isinstance(n.value, ast.Dict):
            out = []
            for k, v in zip(n.value.keys, n.value.values):
                need(isinstance(k, ast.Constant) and isinstance(v, ast.Name), "_validate_type type_map shape")
                out.append((k.value, v.id))
            return out
    raise TranslateError("_validate_type: type_map not found")


def _fm_absent_branch(fn):
    """validate_frontmatter: the branch that treats the frontmatter as ABSENT (reports each required field and returns).
    -> (test source, blank-counts-as-absent?, code literal, field_path prefix, source of the whole branch)"""
    body = _strip_doc(fn)
    hits = [st for st in body if isinstance(st, ast.If) and any(isinstance(n, ast.Constant) and n.value == "E_FM_REQUIRED" for n in ast.walk(st))
            and st.body and isinstance(st.body[-1], ast.Return)]
    need(len(hits) == 1, f"validate_frontmatter: absent branch not found exactly once ({len(hits)})")
    br = hits[0]
    need(not br.orelse and ast.unparse(br.body[-1]) == "return errors", "validate_frontmatter: absent branch shape changed")
    test = ast.unparse(br.test)
    known = {"raw_frontmatter is None": False, "raw_frontmatter is None or not raw_frontmatter.strip()": True}
    need(test in known, f"validate_frontmatter: absent test not understood: {test}")
    # it must come before any YAML parsing
    idx = body.index(br)
    for st in body[:idx]:
        need(not any(isinstance(n, ast.Attribute) and n.attr == "safe_load" for n in ast.walk(st)), "validate_frontmatter: YAML parsed before the absent test")
    loops = [st for st in br.body if isinstance(st, ast.For)]
    need(len(loops) == 1 and ast.unparse(loops[0].iter) == "schema.frontmatter.items()" and len(br.body) == 2, "validate_frontmatter: absent branch body changed")
    inner = loops[0].body
    need(len(inner) == 1 and isinstance(inner[0], ast.If) and ast.unparse(inner[0].test) == "field_def.required" and not inner[0].orelse,
         "validate_frontmatter: absent branch reports something else than the required fields")
    calls = [n for n in ast.walk(inner[0]) if isinstance(n, ast.Call) and ast.unparse(n.func) == "ValidationError"]
    need(len(calls) == 1, "validate_frontmatter: absent branch error constructor")
    kw = {k.arg: k.value for k in calls[0].keywords}
    need(isinstance(kw.get("code"), ast.Constant) and isinstance(kw["code"].value, str), "validate_frontmatter: absent code literal")
    fp = kw.get("field_path")
    need(isinstance(fp, ast.JoinedStr) and len(fp.values) == 2 and isinstance(fp.values[0], ast.Constant)
         and isinstance(fp.values[1], ast.FormattedValue) and ast.unparse(fp.values[1].value) == "field_name", "validate_frontmatter: absent field_path shape")
    return test, known[test], kw["code"].value, fp.values[0].value, ast.unparse(br)


def generate(src):
    vmod = parse_file(src / "mcp" / "validate.py")
    ex = find_def(vmod, "execute", cls="ValidateTool")
    # ---- tables
    profiles = const_eval(module_assign(vmod, "VALID_PROFILES"))
    need(all(isinstance(p, str) for p in profiles), "VALID_PROFILES not literal strings")
    default = const_eval(module_assign(vmod, "DEFAULT_PROFILE"))
    need(isinstance(default, str), "DEFAULT_PROFILE not a literal string")
    strict, down, st_down, st_block, st_clean, st_init, sinks = _profile_tables(ex)
    # ---- doc flow
    flow = []
    _walk_stmts(_strip_doc(ex), [], flow)
    need(sum(1 for g, k, t in flow if k == 1) == 1, "expected exactly one parse_with_warnings(content) binding of doc")
    need(sum(1 for g, k, t in flow if k == 4) == 1, "expected exactly one canonical_output = emit(doc)")
    # ---- ValidateTool has no per-instance / per-class mutable state
    tool = [n for n in vmod.body if isinstance(n, ast.ClassDef) and n.name == "ValidateTool"][0]
    has_state = any(isinstance(f, ast.FunctionDef) and f.name == "__init__" for f in tool.body)
    for n in ast.walk(tool):
        tg = []
        if isinstance(n, ast.Assign):
            tg = n.targets
        elif isinstance(n, (ast.AugAssign, ast.AnnAssign)):
            tg = [n.target]
        for t in tg:
            for e in (t.elts if isinstance(t, ast.Tuple) else [t]):
                if isinstance(e, (ast.Attribute, ast.Subscript)) and ast.unparse(e).startswith(("self.", "cls.", "ValidateTool.")):
                    has_state = True
        if isinstance(n, ast.Global) or isinstance(n, ast.Nonlocal):
            has_state = True
    # ---- core/validator.py
    cmod = parse_file(src / "core" / "validator.py")
    vcls = [n for n in cmod.body if isinstance(n, ast.ClassDef) and n.name == "Validator"]
    need(len(vcls) == 1, "class Validator not found")
    vcls = vcls[0]
    disp, dflt = _topy(find_def(cmod, "_to_python_value", cls="Validator"))
    stores = _validator_stores(vcls)
    srcs = {
        "validator_validate": _src(find_def(cmod, "validate", cls="Validator")),
        "validator_validate_meta": _src(find_def(cmod, "_validate_meta", cls="Validator")),
        "validator_validate_type": _src(find_def(cmod, "_validate_type", cls="Validator")),
        "validator_validate_section": _src(find_def(cmod, "_validate_section", cls="Validator")),
        "validator_init": _src(find_def(cmod, "__init__", cls="Validator")),
        "count_literal_zones": _src(find_def(cmod, "_count_literal_zones")),
    }
    tmap = _meta_type_map(find_def(cmod, "_validate_type", cls="Validator"))
    fm_test, fm_blank, fm_code, fm_prefix, fm_src = _fm_absent_branch(find_def(cmod, "validate_frontmatter"))
    # ---- core/routing.py, core/schema_extractor.py
    rmod = parse_file(src / "core" / "routing.py")
    rcls = [n for n in rmod.body if isinstance(n, ast.ClassDef) and n.name == "TargetRegistry"]
    need(len(rcls) == 1, "TargetRegistry not found")
    builtins = None
    for st in rcls[0].body:
        if isinstance(st, ast.AnnAssign) and ast.unparse(st.target) == "BUILTINS":
            builtins = const_eval(st.value)
    need(isinstance(builtins, list) and all(isinstance(x, str) for x in builtins), "TargetRegistry.BUILTINS not a literal set of strings")
    srcs["router_route"] = _src(find_def(rmod, "route", cls="TargetRouter"))
    srcs["router_parse_target_spec"] = _src(find_def(rmod, "parse_target_spec", cls="TargetRouter"))
    srcs["registry_is_valid"] = _src(find_def(rmod, "is_valid", cls="TargetRegistry"))
    smod = parse_file(src / "core" / "schema_extractor.py")
    srcs["extract_block_targets"] = _src(find_def(smod, "extract_block_targets")) + "\n" + _src(find_def(smod, "_extract_targets_recursive"))
    srcs["resolve_target"] = _src(find_def(smod, "resolve_target", cls="InheritanceResolver")) + "\n" + \
        _src(find_def(smod, "_ancestors", cls="InheritanceResolver"))
    # ---- schemas/loader.py
    lmod = parse_file(src / "schemas" / "loader.py")
    bschemas = _builtin_schemas(lmod)
    srcs["get_builtin_schema"] = _src(find_def(lmod, "get_builtin_schema"))
    # ---- other surfaces
    wmod = parse_file(src / "mcp" / "write.py")
    wex = find_def(wmod, "execute", cls="WriteTool")
    climod = parse_file(src / "cli" / "main.py")
    cval = find_def(climod, "validate")
    ctor = _ctor_sites(ex, "validate.execute") + _ctor_sites(wex, "write.execute") + _ctor_sites(cval, "cli.validate")
    need(len(ctor) >= 3, "Validator construction sites not found")
    wcalls = _validate_calls(wex, "write.execute")
    ccalls = _validate_calls(cval, "cli.validate")
    # ---- emit
    out = [HEADER]
    out.append(f"Definition vt_valid_profiles : list (list N) := {coq_strlist(profiles)}.\n")
    out.append(f"Definition vt_default_profile : list N := {coq_str(default)}.\n")
    out.append(f"Definition vt_strict_profile : list N := {coq_str(strict)}.\n")
    out.append("(* `if profile in (...)` under `if validation_errors:`: these profiles turn validation errors into warnings *)\n")
    out.append(f"Definition vt_downgrade_profiles : list (list N) := {coq_strlist(list(down))}.\n")
    out.append(f"Definition vt_status_init : list N := {coq_str(st_init)}.\n")
    out.append(f"Definition vt_status_clean : list N := {coq_str(st_clean)}.\n")
    out.append(f"Definition vt_status_downgraded : list N := {coq_str(st_down)}.\n")
    out.append(f"Definition vt_status_blocking : list N := {coq_str(st_block)}.\n")
    b = lambda x: "true" if x else "false"  # noqa
    out.append("(* where the (code, field) dicts go: (downgrade: validation_errors?, warnings?, blocking: validation_errors?, warnings?) *)\n")
    out.append(f"Definition vt_error_sinks : bool * bool * bool * bool := ({b(sinks[0])}, {b(sinks[1])}, {b(sinks[2])}, {b(sinks[3])}).\n")
    out.append("(* execute(): statements that bind / pass `doc` or bind the canonical output: (guards, kind, text)\n"
               "   kind 1 doc := parse_with_warnings(content) | 2 doc := repair(doc, ..) | 3 call receiving doc | 4 canonical_output := emit(doc)\n"
               "   | 5 result['canonical'] := <text> *)\n")
    out.append("Definition vt_doc_flow : list (list (list N) * N * list N) :=\n  " +
               coq_list([f"({coq_strlist(g)}, {k}, {coq_str(t)})" for g, k, t in flow], "(list (list N) * N * list N)") + ".\n")
    for g, k, t in flow:
        out.append(coq_comment(f"  {k} | {' & '.join(g) or 'always'} | {t[:100]}") + "\n")
    out.append(f"Definition vt_tool_instance_state : bool := {b(has_state)}.\n")
    out.append("(* Validator._to_python_value: isinstance chain in order (class, returned expression); then the default return *)\n")
    out.append("Definition vt_topy_dispatch : list (list N * list N) :=\n  " +
               coq_list([f"({coq_str(c)}, {coq_str(r)})" for c, r in disp], "(list N * list N)") + ".\n")
    out.append(f"Definition vt_topy_default : list N := {coq_str(dflt)}.\n")
    out.append("(* every attribute/subscript store and mutating method call inside class Validator *)\n")
    out.append(f"Definition vt_validator_stores : list (list N) := {coq_strlist(stores)}.\n")
    out.append(f"Definition vt_validator_ctor_sites : list (list N) := {coq_strlist(ctor)}.\n")
    out.append(f"Definition vt_write_validate_calls : list (list N) := {coq_strlist(wcalls)}.\n")
    out.append(f"Definition vt_cli_validate_calls : list (list N) := {coq_strlist(ccalls)}.\n")
    out.append(f"Definition vt_target_builtins : list (list N) := {coq_strlist(builtins)}.\n")
    out.append("(* BUILTIN_SCHEMA_DEFINITIONS: (name, has a META entry, required, [(field, type, values)]) *)\n")
    out.append("Definition vt_builtin_schemas : list (list N * bool * list (list N) * list (list N * list N * list (list N))) :=\n  " +
               coq_list([f"({coq_str(n)}, {b(h)}, {coq_strlist(r)}, " +
                         coq_list([f"({coq_str(fn)}, {coq_str(ty)}, {coq_strlist(vs)})" for fn, ty, vs in fs], "(list N * list N * list (list N))") + ")"
                         for n, h, r, fs in bschemas], "(list N * bool * list (list N) * list (list N * list N * list (list N)))") + ".\n")
    out.append("Definition vt_meta_type_map : list (list N * list N) :=\n  " +
               coq_list([f"({coq_str(k)}, {coq_str(v)})" for k, v in tmap], "(list N * list N)") + ".\n")
    out.append("(* validate_frontmatter: the ABSENT branch (each required field -> code, prefix ++ name; return).  Its test, whether a\n"
               "   whitespace-only block (`not raw_frontmatter.strip()`) takes it too, the code literal and the field_path prefix *)\n")
    out.append(f"Definition vt_fm_absent_test : list N := {coq_str(fm_test)}.\n")
    out.append(f"Definition vt_fm_blank_is_absent : bool := {b(fm_blank)}.\n")
    out.append(f"Definition vt_fm_absent_code : list N := {coq_str(fm_code)}.\n")
    out.append(f"Definition vt_fm_absent_prefix : list N := {coq_str(fm_prefix)}.\n")
    out.append(f"Definition vt_src_fm_absent_branch : list N := {coq_str(fm_src)}.\n")
    for k, v in srcs.items():
        out.append(f"Definition vt_src_{k} : list N := {coq_str(v)}.\n")
    return {"ValidateGen.v": "".join(out)}
