#!/usr/bin/env python3
"""Snapshot selected generated definitions into a committed Pins file:
     harness/mkpins.py <GenFile.v> <OutDir/Pins_X.v> name1 name2 ...
   Each becomes  `Lemma pin_<name> : <name> = <body as generated NOW>. Proof. reflexivity. Qed.`
   (run by hand when the model is (re)written against a source text; never at check time)."""
import re, sys
from pathlib import Path
gen = Path(sys.argv[1]); out = Path(sys.argv[2]); names = sys.argv[3:]
txt = gen.read_text()
area = gen.stem
lines = [f"(* PINS: the text/tables of /repo the hand-written model was written against. Generated once by harness/mkpins.py\n   from {gen.name}; committed. A source change that alters one of these breaks the pin (a proof obligation). *)",
         f"From OV Require Import Gen.{area}.", "From Coq Require Import List NArith.", "Import ListNotations.", "Open Scope N_scope.", ""]
for n in names:
    m = re.search(r"Definition %s\s*:\s*(.*?)\s*:=\s*(.*?)\.\n" % re.escape(n), txt, re.S)
    if not m:
        sys.exit(f"definition {n} not found in {gen}")
    ty, body = m.group(1), m.group(2)
    lines.append(f"Definition pinned_{n} : {ty} :=\n  {body}.")
    lines.append(f"Lemma pin_{n} : {n} = pinned_{n}.\nProof. reflexivity. Qed.\n")
out.write_text("\n".join(lines))
print("wrote", out)
