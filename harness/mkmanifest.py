#!/usr/bin/env python3
"""Regenerate /verif/MANIFEST.json from the table below (run by hand; output committed)."""
import json
from pathlib import Path

VERIF = Path(__file__).resolve().parents[1]

# property -> (category, technique, level text, level note, design ref)
CLAIMED = {
    "C04": ("proof",
            "Coq proof (induction over strings) of escape/un-escape inversion on the translator-extracted replace chains + "
            "extracted-model/implementation correspondence (lexer, quoting) + exhaustive small-scope search on the implementation",
            "Theorems in coq/theories/Properties/C04.v (15): the escape chain extracted from emitter.py and the single-pass un-escape "
            "(map + pattern extracted from lexer.py) are proved inverse for EVERY string (unconditional since repo fix 4b61c18; the old sequential "
            "reader is refuted); C04_scalars_survive_text_core and C04_bare_strings_survive_text_core3: null, booleans, numbers, quoted strings and "
            "bare-emitted strings (plain, dotted, dashed words, $VAR) keep value and kind through the emitted text at every nesting depth, in lists "
            "and in META; C04_scalars_survive_text_core4: all four positions incl. nested list items and inline-map values at text level (lexer half Rt/LexLink4*.v); reserved-word segments (true.x) are a closed counterexample outside the safe class (known finding); pins tie the hand-written quoting/lexer model to the "
            "current regex texts and tables. The faithful lexer model and the quoting model are run against the implementation on "
            "every run; the property itself is evaluated on the implementation exhaustively for short strings in all four positions; values set through octave_write(changes) over an EXISTING value for every ordered pair of close scalars.",
            "Trusted: Coq kernel, translator, ExtrOcamlBasic extraction + OCaml driver, CPython int/float/repr, unicodedata as oracle. "
            "Modelled, not verified: the Python source itself; parser branches beyond single-token values are covered by the "
            "implementation-side search, not by a theorem yet.",
            "DESIGN.md §5 C04"),
}
PENDING_REASON = "check under construction in this session (model and harness not yet committed); not claimed until it runs clean"


def main():
    props = [json.loads(l)["id"] for l in (VERIF / "properties.jsonl").read_text().splitlines() if l.strip()]
    extra = {}
    ef = VERIF / "harness" / "manifest_entries.json"
    if ef.exists():
        extra = json.loads(ef.read_text())
    checks = []
    na = []
    for p in props:
        ent = CLAIMED.get(p) or extra.get(p)
        if ent and (VERIF / "harness" / "props" / f"{p.lower()}.py").exists():
            cat, tech, text, note, ref = ent
            checks.append({
                "property_id": p,
                "quick_cmd": f"./check {p} --tier quick",
                "thorough_cmd": f"./check {p} --tier thorough",
                "evidence_file": f"/verif/evidence/{p}.json",
                "replay_cmd_template": f"./check {p} --replay {{path}}",
                "engine": "coq-model+correspondence",
                "level_claimed": {"category": cat, "text": text, "design_ref": ref},
                "level_note": note,
                "technique": tech,
            })
        else:
            na.append({"property_id": p, "reason": PENDING_REASON})
    man = {
        "version": 1,
        "setup_cmd": "cd /verif && ./check --setup",
        "hooks": {
            "guard": "OCTAVE_MCP_VERIF",
            "enable": "no source hooks: file-operation interposition, fault injection and scheduling are done from the harness "
                      "by wrapping os.*/tempfile/builtins.open in child processes before importing octave_mcp",
            "baseline_off_cmd": "cd /repo && /venv/bin/python -m pytest -ra -q -p no:cacheprovider --timeout=900 --continue-on-collection-errors",
            "source_commits": [],
            "add_only": True,
        },
        "engines": [{
            "name": "coq-model+correspondence",
            "path": "/verif/check",
            "serves_properties": [c["property_id"] for c in checks],
            "kind_free_text": "Coq 8.16.1 development (coq/theories) rebuilt by make on every run after the Python-ast translator "
                              "regenerates coq/theories/Gen/*.v from /repo; Print Assumptions per property theorem; extracted OCaml "
                              "model run against the implementation on generated cases; implementation-side property search; "
                              "known_findings.jsonl attribution",
        }],
        "checks": checks,
        "not_applicable": na,
        "notes": "Every check: translate /repo -> Gen/*.v, make the property's .vo closure, Print Assumptions, build the extracted driver, "
                 "replay corpus and finding witnesses, run correspondence and the property search, decide. See DESIGN.md.",
    }
    (VERIF / "MANIFEST.json").write_text(json.dumps(man, indent=1) + "\n")
    print("claimed:", [c["property_id"] for c in checks], "pending:", [n["property_id"] for n in na])


if __name__ == "__main__":
    main()
