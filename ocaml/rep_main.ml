(* rep driver (C11): one case per line, space-separated tokens.
   repair <fix: 0 | 1 | v~ | w~ | c~ (switch omitted at validate / write / cli)> <S0 | S n {key fd}> O n {text int|x float:fin:zero|x} G n {char value} D n {node}
     O = int()/float() oracle (float = repr, fin = isfinite, zero = (x == 0)); G = digit oracle: non-ASCII code point -> int(ch)
     for every ch with ch.isdecimal() occurring in the case (absent = not a decimal digit)
     fd     := p | c | F n {constr}        constr := E n {str} | T str | X
     node   := A key value | B key tgt|~ n {node} | S id key ann|~ n {node} | C text
     value  := z | b0 | b1 | i<dec> | f<enc> | s<enc> | L n {value} | M n {key value} | Z content tag|~ fence | H raw
   strings are '.'-separated code points, "-" is empty, "~" is None.
   answer: D n {node} # rule|before|after|tier;...
   other commands: lower s | strip s | useint s | enumeval n {str} s | zdec i<dec> | simple S.. | settled S.. D..
     mant G .. s      -> <nonzero_mantissa s as 0/1> <mantissa s>          (the underflow guard's text test)
     tblok O .. G ..  -> <tbl_float_consistent> <tbl_int_zero_ok>          (hypotheses of C11_repair_tbl_lossless_text on real tables) *)
exception Bad of string
let toks : string list ref = ref []
let next () = match !toks with [] -> raise (Bad "eof") | t :: r -> toks := r; t
let str () = str_of_tok (next ())
let ostr () = let t = next () in if t = "~" then None else Some (str_of_tok t)
let count () = int_of_string (next ())
let rec many n f = if n <= 0 then [] else let x = f () in x :: many (n - 1) f
let z_of_dec (s : string) : z =
  match read_dec (List.map (fun c -> n_of_int (Char.code c)) (List.init (String.length s) (String.get s))) with
  | Some z -> z | None -> raise (Bad ("int " ^ s))
let dec_of_z (z : z) : string = String.concat "" (List.map (fun c -> String.make 1 (Char.chr (int_of_n c))) (z_to_dec z))

let rec value () : value =
  let t = next () in
  match t.[0] with
  | 'z' -> VNull
  | 'b' -> VBool (t = "b1")
  | 'i' -> VInt (z_of_dec (String.sub t 1 (String.length t - 1)))
  | 'f' -> VFloat (str_of_tok (String.sub t 1 (String.length t - 1)))
  | 's' -> VStr (str_of_tok (String.sub t 1 (String.length t - 1)))
  | 'L' -> let n = count () in VList (many n value)
  | 'M' -> let n = count () in VMap (many n (fun () -> let k = str () in let v = value () in (k, v)))
  | 'Z' -> let c = str () in let tg = ostr () in let f = str () in VZone (c, tg, f)
  | 'H' -> VHolo (str ())
  | _ -> raise (Bad ("value " ^ t))
let rec node () : node =
  match next () with
  | "A" -> let k = str () in let v = value () in NAssign (k, v)
  | "B" -> let k = str () in let tg = ostr () in let n = count () in NBlock (k, tg, many n node)
  | "S" -> let i = str () in let k = str () in let a = ostr () in let n = count () in NSection (i, k, a, many n node)
  | "C" -> NComment (str ())
  | t -> raise (Bad ("node " ^ t))
let constr () : constr =
  match next () with
  | "E" -> let n = count () in CEnum (many n str)
  | "T" -> CType (str ())
  | "X" -> COther
  | t -> raise (Bad ("constr " ^ t))
let fd () : fielddef =
  match next () with
  | "p" -> FNoPattern | "c" -> FNoChain
  | "F" -> let n = count () in FChain (many n constr)
  | t -> raise (Bad ("fd " ^ t))
let schema () : schema option =
  match next () with
  | "S0" -> None
  | "S" -> let n = count () in Some (many n (fun () -> let k = str () in let f = fd () in (k, f)))
  | t -> raise (Bad ("schema " ^ t))
let oracle () =
  (match next () with "O" -> () | t -> raise (Bad ("oracle " ^ t)));
  let n = count () in
  many n (fun () ->
      let k = str () in
      let i = (match next () with "x" -> None | t -> Some (z_of_dec t)) in
      let f = (match next () with
          | "x" -> None
          | t -> (match String.split_on_char ':' t with
              | [r; fin; zero] -> Some ((str_of_tok r, fin = "1"), zero = "1")
              | _ -> raise (Bad "float"))) in
      (k, (i, f)))
let digits () =
  (match next () with "G" -> () | t -> raise (Bad ("digits " ^ t)));
  let n = count () in
  many n (fun () -> let c = n_of_int (count ()) in let v = n_of_int (count ()) in (c, v))
let doc () : node list =
  (match next () with "D" -> () | t -> raise (Bad ("doc " ^ t)));
  let n = count () in many n node

let po = function None -> "~" | Some s -> tok_of_str s
let rec pv = function
  | VNull -> "z" | VBool b -> if b then "b1" else "b0"
  | VInt z -> "i" ^ dec_of_z z
  | VFloat r -> "f" ^ tok_of_str r
  | VStr s -> "s" ^ tok_of_str s
  | VList l -> String.concat " " (("L " ^ string_of_int (List.length l)) :: List.map pv l)
  | VMap m -> String.concat " " (("M " ^ string_of_int (List.length m)) :: List.map (fun (k, v) -> tok_of_str k ^ " " ^ pv v) m)
  | VZone (c, t, f) -> "Z " ^ tok_of_str c ^ " " ^ po t ^ " " ^ tok_of_str f
  | VHolo r -> "H " ^ tok_of_str r
let rec pn = function
  | NAssign (k, v) -> "A " ^ tok_of_str k ^ " " ^ pv v
  | NBlock (k, t, ch) -> String.concat " " (("B " ^ tok_of_str k ^ " " ^ po t ^ " " ^ string_of_int (List.length ch)) :: List.map pn ch)
  | NSection (i, k, a, ch) ->
    String.concat " " (("S " ^ tok_of_str i ^ " " ^ tok_of_str k ^ " " ^ po a ^ " " ^ string_of_int (List.length ch)) :: List.map pn ch)
  | NComment t -> "C " ^ tok_of_str t
let pdoc d = String.concat " " (("D " ^ string_of_int (List.length d)) :: List.map pn d)
let pe e = String.concat "|" [tok_of_str e.e_rule; tok_of_str e.e_before; tok_of_str e.e_after; tok_of_str e.e_tier]

let handle l =
  toks := words l;
  try
    match next () with
    | "repair" ->
      (* switch: 0 | 1 explicit; v~ / w~ / c~ = OMITTED at octave_validate / octave_write / the CLI (default from RepairGen) *)
      let fx = (match next () with
          | "v~" -> surface_flag (n_of_int 1) None
          | "w~" -> surface_flag (n_of_int 2) None
          | "c~" -> surface_flag (n_of_int 3) None
          | t -> tok_bool t) in
      let s = schema () in
      let o = oracle () in
      let g = digits () in
      let d = doc () in
      let (d', lg) = repair_tbl o g fx s d in
      pdoc d' ^ " # " ^ String.concat ";" (List.map pe lg)
    | "lower" -> tok_of_str (lower (str ()))
    | "strip" -> tok_of_str (strip (str ()))
    | "useint" -> bool_tok (use_int (str ()))
    | "enumeval" -> let n = count () in let a = many n str in bool_tok (enum_eval a (str ()))
    | "zdec" -> let t = next () in dec_of_z (z_of_dec (String.sub t 1 (String.length t - 1)))
    | "simple" -> (match schema () with Some s -> bool_tok (simple_schema s) | None -> "1")
    | "settled" -> (match schema () with
        | Some s -> let d = doc () in bool_tok (List.for_all (settled_n s) d)
        | None -> "1")
    | "mant" -> let g = digits () in let s = str () in bool_tok (nonzero_mantissa (dig_find g) s) ^ " " ^ tok_of_str (mantissa s)
    | "tblok" -> let o = oracle () in let g = digits () in bool_tok (tbl_float_consistent o) ^ " " ^ bool_tok (tbl_int_zero_ok o g)
    | "lossy0" -> let g = digits () in let b = str () in let a = str () in bool_tok (zero_text a && nonzero_mantissa (dig_find g) (strip b))
    | _ -> "!badcmd"
  with Bad m -> "!bad:" ^ m
let () = main_loop handle
