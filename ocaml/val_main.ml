(* val driver (C09): one case per line; strings are '.'-separated code points, "-" = empty, "~" = None.
   value   : as in cst_main.ml  (N | B0 | B1 | I<int> | F<fl>:<repr> | S<str> | L<k> v*k | D<k> (<key> v)*k | Z<tag or ~>)
   cst     : REQ OPT DIR APP DATE ISO LIT | CONST <atom value> | ENUM <k> <str>*k | TYPE <str> | REGEX <pat>
             | RANGE <fl> <fl> | MAXL <int> | MINL <int> | LANG <str>
   fltab   : <k> (<text> <fl>)*k                      float(text) of every float literal of the document
   def     : ~ | D <name> <policy> <nf> (<field> <0|1> [<k> <cst>*k])*nf <nr> (<field> <target|~>)*nr <default|~> <npt> <str>*npt <hasfm 0|1> <nreq> <required fm field>*nreq
   orcs    : <nblocks> ( <nfields> ( <field> <str(v)> <float(v) ~|fl> <0|1> <0|1> <nre> (<pat> <0|1>)*nre )*nfields )*nblocks
   all <builtin name|~> <def> <fltab> <orcs> <sp extra|-> <nfm> (<code> <path>)*nfm <doc (astcodec)>      (fm = validate_frontmatter on a NON-blank frontmatter; unused otherwise)
        -> V:<STRICT> | V:<STANDARD> | V:<LENIENT> | V:<ULTRA> | A:<errs> | W:<status errs> | C:<status errs>     or OUT per part
   topy <fltab> <doc-codec value>  -> value (cst codec) | OUT *)
let toks = ref [||]
let pos = ref 0
let next () = let t = !toks.(!pos) in incr pos; t
let rec times k f = if k <= 0 then [] else let x = f () in x :: times (k - 1) f
let opt_of_tok t = if t = "~" then None else Some (str_of_tok t)
let tok_opt = function None -> "~" | Some s -> tok_of_str s

(* ---- numbers / python values: copied from cst_main.ml ---- *)
let pos_of_bin (s : string) : positive =
  if s = "" || s.[0] <> '1' then failwith "bin";
  let p = ref XH in
  for i = 1 to String.length s - 1 do p := if s.[i] = '1' then XI !p else XO !p done;
  !p
let z_of_tok (t : string) : z =
  if t = "0" then Z0
  else
    let body = String.sub t 1 (String.length t - 1) in
    if t.[0] = '-' then Zneg (pos_of_bin body) else if t.[0] = '+' then Zpos (pos_of_bin body) else failwith "int"
let fl_of_tok (t : string) : fl =
  match t with
  | "inf" -> FInf false
  | "ninf" -> FInf true
  | "nan" -> FNan
  | _ -> (match String.split_on_char '/' t with
          | [a; b] -> FFin { qnum = z_of_tok a; qden = pos_of_bin b }
          | _ -> failwith "fl")
let rec bin_of_pos = function XH -> "1" | XO p -> bin_of_pos p ^ "0" | XI p -> bin_of_pos p ^ "1"
let tok_of_z = function Z0 -> "0" | Zpos p -> "+" ^ bin_of_pos p | Zneg p -> "-" ^ bin_of_pos p
let tok_of_fl = function
  | FInf false -> "inf" | FInf true -> "ninf" | FNan -> "nan"
  | FFin q -> tok_of_z q.qnum ^ "/" ^ bin_of_pos q.qden

let rec pval () : pyval =
  let t = next () in
  let r = String.sub t 1 (String.length t - 1) in
  match t.[0] with
  | 'N' -> PA ANone
  | 'B' -> PA (ABool (r = "1"))
  | 'I' -> PA (AInt (z_of_tok r))
  | 'F' -> (match String.index_opt r ':' with
            | Some i ->
                let f = fl_of_tok (String.sub r 0 i) in
                let rp = str_of_tok (String.sub r (i + 1) (String.length r - i - 1)) in
                PA (AFloat (f, rp))
            | None -> failwith "float")
  | 'S' -> PA (AStr (str_of_tok r))
  | 'L' -> let k = int_of_string r in PList (times k pval)
  | 'D' -> let k = int_of_string r in
           PDict (times k (fun () -> let key = str_of_tok (next ()) in let v = pval () in (key, v)))
  | 'Z' -> PZone ([], (if r = "~" then None else Some (str_of_tok r)))
  | _ -> failwith "value"

let rec enc_pval (v : pyval) : string =
  match v with
  | PA ANone -> "N"
  | PA (ABool b) -> if b then "B1" else "B0"
  | PA (AInt z) -> "I" ^ tok_of_z z
  | PA (AFloat (f, r)) -> "F" ^ tok_of_fl f ^ ":" ^ tok_of_str r
  | PA (AStr s) -> "S" ^ tok_of_str s
  | PList l -> String.concat " " (("L" ^ string_of_int (List.length l)) :: List.map enc_pval l)
  | PDict l -> String.concat " " (("D" ^ string_of_int (List.length l)) :: List.map (fun (k, x) -> tok_of_str k ^ " " ^ enc_pval x) l)
  | PZone (c, t) -> "Z" ^ tok_opt t ^ " " ^ tok_of_str c

let pcst () : cst =
  match next () with
  | "REQ" -> CReq | "OPT" -> COpt | "DIR" -> CDir | "APP" -> CAppend
  | "DATE" -> CDate | "ISO" -> CIso | "LIT" -> CLiteral
  | "CONST" -> (match pval () with PA a -> CConst a | _ -> failwith "const")
  | "ENUM" -> let k = int_of_string (next ()) in CEnum (times k (fun () -> str_of_tok (next ())))
  | "TYPE" -> CType (str_of_tok (next ()))
  | "REGEX" -> CRegex (str_of_tok (next ()))
  | "RANGE" -> let lo = fl_of_tok (next ()) in let hi = fl_of_tok (next ()) in CRange (lo, hi)
  | "MAXL" -> CMaxLen (z_of_tok (next ()))
  | "MINL" -> CMinLen (z_of_tok (next ()))
  | "LANG" -> CLang (str_of_tok (next ()))
  | _ -> failwith "cst"
let pchain () = let k = int_of_string (next ()) in times k pcst

(* ---- AST codec: copied from syn_main.ml (reader over the shared token array) ---- *)
let rest_of x = String.sub x 1 (String.length x - 1)
let rd_list n f = let rec go i acc = if i = 0 then List.rev acc else go (i - 1) (f () :: acc) in go n []
let rec dec_value () : value =
  let x = next () in
  let rest = rest_of x in
  match x.[0] with
  | 'N' -> VNull | 'T' -> VBool true | 'F' -> VBool false
  | 'I' -> VNum (false, str_of_tok rest) | 'D' -> VNum (true, str_of_tok rest)
  | 'S' -> VStr (str_of_tok rest)
  | 'L' -> VList (rd_list (int_of_string rest) (fun () -> dec_value ()))
  | 'M' -> VMap (rd_list (int_of_string rest) (fun () -> let k = str_of_tok (next ()) in let v = dec_value () in (k, v)))
  | 'H' -> VHolo (str_of_tok rest)
  | 'Z' -> let c = str_of_tok rest in let tag = opt_of_tok (next ()) in let m = str_of_tok (next ()) in VZone (c, tag, m)
  | 'A' -> VAbsent
  | _ -> failwith "value"
let dec_strs () = rd_list (int_of_string (next ())) (fun () -> str_of_tok (next ()))
let rec dec_node () : node =
  match next () with
  | "a" -> let k = str_of_tok (next ()) in let v = dec_value () in let l = dec_strs () in let t = opt_of_tok (next ()) in NAssign (k, v, l, t)
  | "b" -> let k = str_of_tok (next ()) in let t = opt_of_tok (next ()) in
           let ch = rd_list (int_of_string (next ())) (fun () -> dec_node ()) in let l = dec_strs () in NBlock (k, t, ch, l)
  | "s" -> let i = str_of_tok (next ()) in let k = str_of_tok (next ()) in let a = opt_of_tok (next ()) in
           let ch = rd_list (int_of_string (next ())) (fun () -> dec_node ()) in let l = dec_strs () in NSection (i, k, a, ch, l)
  | "c" -> NComment (str_of_tok (next ()))
  | _ -> failwith "node"
let dec_doc () : doc =
  let name = str_of_tok (next ()) in let g = opt_of_tok (next ()) in let f = opt_of_tok (next ()) in
  let sep = (next () = "1") in
  let meta = rd_list (int_of_string (next ())) (fun () ->
      let k = str_of_tok (next ()) in
      let x = next () in
      if x.[0] = 'd' then (k, MD (rd_list (int_of_string (rest_of x)) (fun () -> let k2 = str_of_tok (next ()) in let v = dec_value () in (k2, v))))
      else (k, MV (dec_value ()))) in
  let secs = rd_list (int_of_string (next ())) (fun () -> dec_node ()) in
  let tr = dec_strs () in
  { dname = name; dgrammar = g; dfront = f; dsep = sep; dmeta = meta; dsections = secs; dtrailing = tr }

(* ---- C09 inputs ---- *)
let pfltab () : n list -> fl =
  let k = int_of_string (next ()) in
  let tab = times k (fun () -> let t = str_of_tok (next ()) in let f = fl_of_tok (next ()) in (t, f)) in
  fun c -> (try List.assoc c tab with Not_found -> failwith "nofloatoracle")

let pdef () : sdef option =
  match next () with
  | "~" -> None
  | "D" ->
      let name = str_of_tok (next ()) in
      let pol = str_of_tok (next ()) in
      let nf = int_of_string (next ()) in
      let fields = times nf (fun () ->
          let f = str_of_tok (next ()) in
          let has = (next () = "1") in
          let ch = if has then Some (pchain ()) else None in
          (f, ch)) in
      let nr = int_of_string (next ()) in
      let routes = times nr (fun () -> let f = str_of_tok (next ()) in let t = opt_of_tok (next ()) in (f, t)) in
      let dt = opt_of_tok (next ()) in
      let npt = int_of_string (next ()) in
      let pts = times npt (fun () -> str_of_tok (next ())) in
      let fm = (next () = "1") in
      let nreq = int_of_string (next ()) in
      let req = times nreq (fun () -> str_of_tok (next ())) in
      Some { sd_name = name; sd_schema = { sc_fields = fields; sc_policy = pol }; sd_routes = routes;
             sd_default_target = dt; sd_policy_targets = pts; sd_has_fm = fm; sd_fm_required = req }
  | _ -> failwith "def"

let dummy_orc : orc = { o_str = []; o_float = None; o_fromiso = false; o_fromiso_z = false; o_re = (fun _ -> failwith "noregexoracle") }
let porcs () : n -> n list -> orc =
  let nb = int_of_string (next ()) in
  let blocks = times nb (fun () ->
      let nfld = int_of_string (next ()) in
      times nfld (fun () ->
          let f = str_of_tok (next ()) in
          let s = str_of_tok (next ()) in
          let fl = (match next () with "~" -> None | t -> Some (fl_of_tok t)) in
          let a = (next () = "1") in
          let b = (next () = "1") in
          let nre = int_of_string (next ()) in
          let re = times nre (fun () -> let p = str_of_tok (next ()) in let v = (next () = "1") in (p, v)) in
          (f, { o_str = s; o_float = fl; o_fromiso = a; o_fromiso_z = b;
                o_re = (fun p -> try List.assoc p re with Not_found -> failwith "noregexoracle") }))) in
  fun i f ->
    (match List.nth_opt blocks (int_of_n i) with
     | None -> dummy_orc
     | Some flds -> (try List.assoc f flds with Not_found -> dummy_orc))

let ascii_space c = let i = int_of_n c in (i >= 9 && i <= 13) || (i >= 28 && i <= 32)

let pr_pairs (l : (n list * n list) list) =
  if l = [] then "-" else String.concat "," (List.map (fun (c, p) -> tok_of_str c ^ ":" ^ tok_of_str p) l)
let pr_tv = function
  | None -> "OUT"
  | Some v -> tok_of_str v.tv_status ^ " " ^ pr_pairs v.tv_errors ^ " " ^ pr_pairs v.tv_warnings
let pr_sv = function
  | None -> "OUT"
  | Some (st, errs) -> tok_of_str st ^ " " ^ pr_pairs errs

let handle l =
  toks := Array.of_list (words l);
  pos := 0;
  match next () with
  | "all" ->
      let bname = next () in
      let builtin = if bname = "~" then None else builtin_lookup (str_of_tok bname) in
      let def = pdef () in
      let ofl = pfltab () in
      let oof = porcs () in
      let extra = str_of_tok (next ()) in
      let nfm = int_of_string (next ()) in
      let fm = times nfm (fun () -> let c = str_of_tok (next ()) in let p = str_of_tok (next ()) in (c, p)) in
      let d = dec_doc () in
      let o = { or_fl = ofl; or_field = oof; or_sp = (fun c -> ascii_space c || List.mem c extra); or_fm = (fun _ -> fm) } in
      let s = { vs_builtin = builtin; vs_def = def } in
      let profs = ["83.84.82.73.67.84"; "83.84.65.78.68.65.82.68"; "76.69.78.73.69.78.84"; "85.76.84.82.65"] in
      let vs = List.map (fun p -> "V:" ^ pr_tv (verdict o s (str_of_tok p) d)) profs in
      let a = "A:" ^ (match validator_errors o (builtin_meta s) false (active_def s) d with None -> "OUT" | Some e -> pr_pairs e) in
      let w = "W:" ^ pr_sv (write_verdict o s d) in
      let c = "C:" ^ pr_sv (cli_verdict o s d) in
      (* the erasure theorem, observed: the verdict of the erased document is the same *)
      let e = "E:" ^ pr_tv (verdict o s (str_of_tok "83.84.65.78.68.65.82.68") (erase_doc d)) in
      String.concat " | " (vs @ [a; w; c; e])
  | "topy" ->
      let ofl = pfltab () in
      let v = dec_value () in
      (match to_py ofl v with None -> "OUT" | Some p -> enc_pval p)
  | "names" ->
      let extra = str_of_tok (next ()) in
      let spec = str_of_tok (next ()) in
      String.concat " " (List.map tok_of_str (target_names (fun c -> ascii_space c || List.mem c extra) spec))
  | _ -> "!badcmd"
let () = main_loop (fun l -> try handle l with Invalid_argument m -> "!invalid:" ^ m)
