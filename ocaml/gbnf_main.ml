(* gbnf driver: one case per line (strings: '.'-separated code points, '-' empty).
   wf <us> <text>                      -> <code> <defs ;-sep|~> <refs ;-sep|~>
   san <name> <lower>                  -> sanitised rule name
   esc <s> | regex <p> | lit <s>
   chain <chain>                       -> compiled fragment
   schema <env> <name> <upper> {<fname> <flower> <chain>}   -> grammar text
   clauses <env> <name> <upper> {...}                       -> clause bit mask
   ctr <spec>                          -> OK <name> <chain|~> | INVALID
   oneline <s>                         -> " ".join(s.splitlines())
   docname <envelope name|~>           -> name extract_schema_from_document gives the schema (~ : text without envelope line)
   metaname ~ | S:<str> | O            -> name compile_gbnf_from_meta gives the schema (~ : no TYPE key; S: a str value;
                                          O: any other value) or NONE (the compiler raises on it)
   derive <bound> <csample> <text>     -> C|P words ;-sep    (value fragment of the first rule of text)
   read <cls> <w>                      -> value read from F::w
   accept <ck,ck,..> <cls> <w>         -> 1|0|? <value>
   chain: ~ (no pattern) | = (empty chain) | c,c,...  with c in R O E:v/v/.. C:t T:t X:p D A G M N:n DT ISO Z *)
let split_on c s = String.split_on_char c s
let parse_cst t =
  match split_on ':' t with
  | ["R"] -> CReq | ["O"] -> COpt | ["D"] -> CDir | ["A"] -> CAppend | ["G"] -> CRange | ["M"] -> CMaxLen
  | ["DT"] -> CDate | ["ISO"] -> CIso | ["Z"] -> COther
  | ["E"; vs] -> CEnum (if vs = "~" then [] else List.map str_of_tok (split_on '/' vs))
  | ["C"; v] -> CConst (str_of_tok v)
  | ["T"; v] -> CType (str_of_tok v)
  | ["X"; v] -> CRegex (str_of_tok v)
  | ["N"; v] -> CMinLen (n_of_int (int_of_string v))
  | _ -> failwith ("cst " ^ t)
let parse_chain t =
  if t = "~" then None else if t = "=" then Some [] else Some (List.map parse_cst (split_on ',' t))
let rec parse_fields = function
  | [] -> []
  | n :: l :: c :: rest -> { fd_name = str_of_tok n; fd_lower = str_of_tok l; fd_chain = parse_chain c } :: parse_fields rest
  | _ -> failwith "fields"
let parse_schema name upper fs = { sc_name = str_of_tok name; sc_upper = str_of_tok upper; sc_fields = parse_fields fs }
let names l = if l = [] then "~" else String.concat ";" (List.map tok_of_str l)
(* ---- derivations (C13) ---- *)
let pr_read = function
  | RInt s -> "I" ^ tok_of_str s
  | RFloat s -> "F" ^ tok_of_str s
  | RBool b -> if b then "B1" else "B0"
  | RNull -> "Z"
  | RStr s -> "S" ^ tok_of_str s
  | RErr -> "ERR"
  | ROut -> "OUT"
(* C13 chain: R O TB TN DT ISO E:v/v CS:txt CI:txt CF:repr CB:0|1 CZ *)
let parse_ck t =
  match split_on ':' t with
  | ["R"] -> KReq | ["O"] -> KOpt | ["TB"] -> KTypeBool | ["TN"] -> KTypeNum | ["DT"] -> KDate | ["ISO"] -> KIso
  | ["E"; vs] -> KEnum (if vs = "~" then [] else List.map str_of_tok (split_on '/' vs))
  | ["CS"; v] -> KConst (CVStr (str_of_tok v))
  | ["CI"; v] -> KConst (CVInt (str_of_tok v))
  | ["CF"; v] -> KConst (CVFloat (str_of_tok v))
  | ["CB"; v] -> KConst (CVBool (v = "1"))
  | ["CZ"] -> KConst CVNone
  | _ -> failwith ("ck " ^ t)
let parse_cls t =
  if t = "-" then [] else
    List.map (fun p -> match String.split_on_char ':' p with
        | [c; f] -> (n_of_int (int_of_string c), n_of_int (int_of_string f))
        | _ -> failwith "cls") (String.split_on_char ',' t)
let handle l =
  match words l with
  | ["wf"; us; t] ->
      let s = str_of_tok t in
      let code = int_of_n (wf_text_code_g (tok_bool us) s) in
      (match gbnf_parse_g (tok_bool us) s with
       | None -> Printf.sprintf "%d ~ ~" code
       | Some g -> Printf.sprintf "%d %s %s" code (names (defs g)) (names (grammar_refs g)))
  | ["san"; n; lo] -> tok_of_str (sanitize_rule_name (str_of_tok n) (str_of_tok lo))
  | ["esc"; s] -> tok_of_str (escape_literal (str_of_tok s))
  | ["regex"; s] -> tok_of_str (compile_regex (str_of_tok s))
  | ["lit"; s] -> (match gbnf_literal (str_of_tok s) with Some (a, b) -> tok_of_str a ^ " " ^ tok_of_str b | None -> "NONE")
  | ["chain"; c] -> (match parse_chain c with Some ch -> tok_of_str (compile_chain ch) | None -> "NONE")
  | "schema" :: env :: name :: upper :: fs -> tok_of_str (compile_schema (parse_schema name upper fs) (tok_bool env))
  | "clauses" :: env :: name :: upper :: fs -> string_of_int (int_of_n (schema_clauses (parse_schema name upper fs) (tok_bool env)))
  | ["ctr"; s] -> (match parse_contract_spec (str_of_tok s) with
                   | CtOk (n, None) -> "OK " ^ tok_of_str n ^ " ~"
                   | CtOk (n, Some c) -> "OK " ^ tok_of_str n ^ " " ^ tok_of_str c
                   | CtInvalid -> "INVALID")
  | ["oneline"; s] -> tok_of_str (one_line (str_of_tok s))
  | ["docname"; e] -> tok_of_str (doc_schema_name (envelope_doc_name (if e = "~" then None else Some (str_of_tok e))))
  | ["metaname"; t] ->
      let ty = if t = "~" then MtAbsent else if t = "O" then MtOther
               else if String.length t >= 2 && String.sub t 0 2 = "S:" then MtStr (str_of_tok (String.sub t 2 (String.length t - 2)))
               else failwith ("metaname " ^ t) in
      (match meta_schema_name ty with Some n -> tok_of_str n | None -> "NONE")
  | ["derive"; bound; cap; t] ->
      (* value fragment of the first rule of grammar text t: drop the 3 leading items ("NAME" "::" ws) *)
      (match field_value_alts (str_of_tok t) with
       | None -> "NONE"
       | Some a ->
           let (ws, complete) = enum_alts (nat_of_int (int_of_string bound)) (n_of_int (int_of_string cap)) a in
           (if complete then "C " else "P ") ^ String.concat ";" (List.map tok_of_str ws))
  | ["read"; cls; w] -> pr_read (read_value_tbl (parse_cls cls) (str_of_tok w))
  | ["accept"; ch; cls; w] ->
      let v = read_value_tbl (parse_cls cls) (str_of_tok w) in
      (match accepts (List.map parse_ck (split_on ',' ch)) v with
       | Some true -> "1" | Some false -> "0" | None -> "?") ^ " " ^ pr_read v
  | _ -> "!badcmd"
let () = main_loop handle
