(* syn driver: one case per line.
   lex <lenient> <cls|-> <raw|nfc> ...     cls = c:f,c:f   line pairs raw|nfc (enc strings)
   esc <s> | unesc <s> | safe <s> *)
let tok_opt = function None -> "~" | Some s -> tok_of_str s
let pr_val = function
  | TVText s -> "t" ^ tok_of_str s
  | TVNum r -> "n" ^ tok_of_str r
  | TVBool b -> if b then "b1" else "b0"
  | TVNone -> "z"
  | TVCount n -> "c" ^ string_of_int (int_of_n n)
  | TVFence (m, t) -> "f" ^ tok_of_str m ^ "/" ^ tok_opt t
let pr_tok t =
  Printf.sprintf "%d:%s:%d:%d:%s" (int_of_n (tkind_code t.tk)) (pr_val t.tv) (int_of_n t.tline) (int_of_n t.tcol) (tok_opt t.tnorm)
let pr_rep r =
  Printf.sprintf "%d:%s:%s:%d:%d" (int_of_n r.rkind) (tok_of_str r.rorig) (tok_of_str r.rnew) (int_of_n r.rline) (int_of_n r.rcol)
let parse_cls t =
  if t = "-" then [] else
    List.map (fun p -> match String.split_on_char ':' p with
        | [c; f] -> (n_of_int (int_of_string c), n_of_int (int_of_string f))
        | _ -> failwith "cls") (String.split_on_char ',' t)
let parse_pair t = match String.split_on_char '|' t with
  | [a; b] -> (str_of_tok a, str_of_tok b)
  | _ -> failwith "pair"
let pr_lexres = function
  | LexOk (toks, reps) -> "OK " ^ String.concat ";" (List.map pr_tok toks) ^ " # " ^ String.concat ";" (List.map pr_rep reps)
  | LexErr (code, l, c) -> Printf.sprintf "ERR %s %d %d" (tok_of_str code) (int_of_n l) (int_of_n c)
  | LexFuel -> "FUEL"

(* ---- AST codec (see harness/lib/astcodec.py) ---- *)
let opt_of_tok t = if t = "~" then None else Some (str_of_tok t)
let rest_of x = String.sub x 1 (String.length x - 1)
let rd_list n f = let rec go i acc = if i = 0 then List.rev acc else go (i - 1) (f () :: acc) in go n []
let make_reader (toks : string list) =
  let r = ref toks in
  (fun () -> match !r with x :: t -> r := t; x | [] -> failwith "eof")
let rec dec_value next : value =
  let x = next () in
  let rest = rest_of x in
  match x.[0] with
  | 'N' -> VNull | 'T' -> VBool true | 'F' -> VBool false
  | 'I' -> VNum (false, str_of_tok rest) | 'D' -> VNum (true, str_of_tok rest)
  | 'S' -> VStr (str_of_tok rest)
  | 'L' -> VList (rd_list (int_of_string rest) (fun () -> dec_value next))
  | 'M' -> VMap (rd_list (int_of_string rest) (fun () -> let k = str_of_tok (next ()) in let v = dec_value next in (k, v)))
  | 'H' -> VHolo (str_of_tok rest)
  | 'Z' -> let c = str_of_tok rest in let tag = opt_of_tok (next ()) in let m = str_of_tok (next ()) in VZone (c, tag, m)
  | 'A' -> VAbsent
  | _ -> failwith "value"
let dec_strs next = rd_list (int_of_string (next ())) (fun () -> str_of_tok (next ()))
let rec dec_node next : node =
  match next () with
  | "a" -> let k = str_of_tok (next ()) in let v = dec_value next in let l = dec_strs next in let t = opt_of_tok (next ()) in NAssign (k, v, l, t)
  | "b" -> let k = str_of_tok (next ()) in let t = opt_of_tok (next ()) in
           let ch = rd_list (int_of_string (next ())) (fun () -> dec_node next) in let l = dec_strs next in NBlock (k, t, ch, l)
  | "s" -> let i = str_of_tok (next ()) in let k = str_of_tok (next ()) in let a = opt_of_tok (next ()) in
           let ch = rd_list (int_of_string (next ())) (fun () -> dec_node next) in let l = dec_strs next in NSection (i, k, a, ch, l)
  | "c" -> NComment (str_of_tok (next ()))
  | _ -> failwith "node"
let dec_doc next : doc =
  let name = str_of_tok (next ()) in let g = opt_of_tok (next ()) in let f = opt_of_tok (next ()) in
  let sep = (next () = "1") in
  let meta = rd_list (int_of_string (next ())) (fun () ->
      let k = str_of_tok (next ()) in
      let x = next () in
      if x.[0] = 'd' then (k, MD (rd_list (int_of_string (rest_of x)) (fun () -> let k2 = str_of_tok (next ()) in let v = dec_value next in (k2, v))))
      else (k, MV (dec_value next))) in
  let secs = rd_list (int_of_string (next ())) (fun () -> dec_node next) in
  let tr = dec_strs next in
  { dname = name; dgrammar = g; dfront = f; dsep = sep; dmeta = meta; dsections = secs; dtrailing = tr }
let rec enc_value (v : value) (b : Buffer.t) =
  let add s = Buffer.add_string b s; Buffer.add_char b ' ' in
  match v with
  | VNull -> add "N" | VBool true -> add "T" | VBool false -> add "F"
  | VNum (false, c) -> add ("I" ^ tok_of_str c) | VNum (true, c) -> add ("D" ^ tok_of_str c)
  | VStr s -> add ("S" ^ tok_of_str s)
  | VList l -> add ("L" ^ string_of_int (List.length l)); List.iter (fun x -> enc_value x b) l
  | VMap ps -> add ("M" ^ string_of_int (List.length ps)); List.iter (fun (k, x) -> add (tok_of_str k); enc_value x b) ps
  | VHolo r -> add ("H" ^ tok_of_str r)
  | VZone (c, t, m) -> add ("Z" ^ tok_of_str c); add (tok_opt t); add (tok_of_str m)
  | VAbsent -> add "A"
let enc_strs l b = Buffer.add_string b (string_of_int (List.length l)); Buffer.add_char b ' ';
  List.iter (fun s -> Buffer.add_string b (tok_of_str s); Buffer.add_char b ' ') l
let rec enc_node (n : node) (b : Buffer.t) =
  let add s = Buffer.add_string b s; Buffer.add_char b ' ' in
  match n with
  | NAssign (k, v, l, t) -> add "a"; add (tok_of_str k); enc_value v b; enc_strs l b; add (tok_opt t)
  | NBlock (k, t, ch, l) -> add "b"; add (tok_of_str k); add (tok_opt t); add (string_of_int (List.length ch));
      List.iter (fun c -> enc_node c b) ch; enc_strs l b
  | NSection (i, k, a, ch, l) -> add "s"; add (tok_of_str i); add (tok_of_str k); add (tok_opt a);
      add (string_of_int (List.length ch)); List.iter (fun c -> enc_node c b) ch; enc_strs l b
  | NComment t -> add "c"; add (tok_of_str t)
let enc_doc (d : doc) : string =
  let b = Buffer.create 256 in
  let add s = Buffer.add_string b s; Buffer.add_char b ' ' in
  add (tok_of_str d.dname); add (tok_opt d.dgrammar); add (tok_opt d.dfront); add (if d.dsep then "1" else "0");
  add (string_of_int (List.length d.dmeta));
  List.iter (fun (k, mv) -> add (tok_of_str k);
    (match mv with
     | MV v -> add "v"; enc_value v b
     | MD ps -> add ("d" ^ string_of_int (List.length ps)); List.iter (fun (k2, v) -> add (tok_of_str k2); enc_value v b) ps)) d.dmeta;
  add (string_of_int (List.length d.dsections)); List.iter (fun n -> enc_node n b) d.dsections;
  enc_strs d.dtrailing b;
  String.trim (Buffer.contents b)
let ascii_space c = let i = int_of_n c in (i >= 9 && i <= 13) || (i >= 28 && i <= 32)

let pr_warn (w : pwarn) =
  Printf.sprintf "%d:%d:%d:%s:%s:%s:%s" (int_of_n w.wsub) (int_of_n w.wline) (int_of_n w.wcol) (tok_of_str w.wa) (tok_of_str w.wb)
    (String.concat "/" (List.map tok_of_str w.wparts)) (String.concat "/" (List.map (fun n -> string_of_int (int_of_n n)) w.wnums))
let handle l =
  match words l with
  | "lex" :: len :: cls :: pairs -> pr_lexres (tokenize_tbl (tok_bool len) (parse_cls cls) (List.map parse_pair pairs))
  | ["esc"; s] -> tok_of_str (escape (str_of_tok s))
  | ["unesc"; s] -> tok_of_str (unescape (str_of_tok s))
  | ["safe"; s] -> bool_tok (escape_safe (str_of_tok s))
  | ["esco"; s] -> (match escape_opt (str_of_tok s) with Some r -> tok_of_str r | None -> "NONE")
  | ["unesco"; s] -> (match unescape_opt (str_of_tok s) with Some r -> tok_of_str r | None -> "NONE")
  | "parse" :: strict :: cls :: nums :: holos :: pairs ->
      let nums = if nums = "-" then [] else List.map (fun e -> match String.split_on_char '/' e with
          | [r; k; c] -> (str_of_tok r, ((k = "f"), str_of_tok c)) | _ -> failwith "num") (String.split_on_char ',' nums) in
      let holos = if holos = "-" then [] else List.map str_of_tok (String.split_on_char ',' holos) in
      (match parse_tbl (tok_bool strict) (parse_cls cls) nums holos (List.map parse_pair pairs) with
       | PRDoc (d, reps, warns) ->
           "DOC " ^ enc_doc d ^ " # " ^ String.concat ";" (List.map pr_rep reps) ^ " # " ^ String.concat ";" (List.map pr_warn warns)
       | PRLexErr (c, l, k) -> Printf.sprintf "LEXERR %s %d %d" (tok_of_str c) (int_of_n l) (int_of_n k)
       | PRParseErr (c, l, k) -> Printf.sprintf "PARSEERR %s %d %d" (tok_of_str c) (int_of_n l) (int_of_n k)
       | PRFuel -> "FUEL"
       | PROut w -> "OUT " ^ string_of_int (int_of_n w))
  | "emit" :: spc :: rest ->
      (* spc: extra (non-ASCII) whitespace code points of the frontmatter, '-' if none *)
      let extra = str_of_tok spc in
      let sp c = ascii_space c || List.mem c extra in
      tok_of_str (emit sp (dec_doc (make_reader rest)))
  | "clauses" :: rest ->
      (match doc_clauses (dec_doc (make_reader rest)) with
       | [] -> "-"
       | l -> String.concat "," (List.map (fun n -> string_of_int (int_of_n n)) l))
  | "core2shape" :: cls :: np :: rest ->
      let n = int_of_string np in
      let rec split i acc l = if i = 0 then (List.rev acc, l) else (match l with x :: t -> split (i - 1) (x :: acc) t | [] -> failwith "core2shape") in
      let (pairs, doc) = split n [] rest in
      string_of_int (int_of_n (core2_shape_tbl (parse_cls cls) (dec_doc (make_reader doc)) (List.map parse_pair pairs)))
  | "coretshape" :: cls :: nums :: holos :: np :: rest ->
      let nums = if nums = "-" then [] else List.map (fun e -> match String.split_on_char '/' e with
          | [r; k; c] -> (str_of_tok r, ((k = "f"), str_of_tok c)) | _ -> failwith "num") (String.split_on_char ',' nums) in
      let holos = if holos = "-" then [] else List.map str_of_tok (String.split_on_char ',' holos) in
      let n = int_of_string np in
      let rec split i acc l = if i = 0 then (List.rev acc, l) else (match l with x :: t -> split (i - 1) (x :: acc) t | [] -> failwith "coretshape") in
      let (pairs, doc) = split n [] rest in
      let d = dec_doc (make_reader doc) in
      (if in_coreth4_domain (parse_cls cls) d then "D" else if is_coret d then "" else "X") ^ string_of_int (int_of_n (coret_shape_tbl (parse_cls cls) nums holos d (List.map parse_pair pairs)))
  | "corezshape" :: cls :: np :: rest ->
      let n = int_of_string np in
      let rec split i acc l = if i = 0 then (List.rev acc, l) else (match l with x :: t -> split (i - 1) (x :: acc) t | [] -> failwith "corezshape") in
      let (pairs, doc) = split n [] rest in
      let d = dec_doc (make_reader doc) in
      (if in_corez_domain (parse_cls cls) d then "D" else if is_corez d then "" else "X") ^ string_of_int (int_of_n (corez_shape_tbl (parse_cls cls) d (List.map parse_pair pairs)))
  | "core4shape" :: cls :: np :: rest ->
      let n = int_of_string np in
      let rec split i acc l = if i = 0 then (List.rev acc, l) else (match l with x :: t -> split (i - 1) (x :: acc) t | [] -> failwith "core4shape") in
      let (pairs, doc) = split n [] rest in
      let d = dec_doc (make_reader doc) in
      (if in_core4_domain d then "D" else if is_core4 d then "" else "X") ^ string_of_int (int_of_n (core4_shape_tbl (parse_cls cls) d (List.map parse_pair pairs)))
  | "core3shape" :: cls :: np :: rest ->
      let n = int_of_string np in
      let rec split i acc l = if i = 0 then (List.rev acc, l) else (match l with x :: t -> split (i - 1) (x :: acc) t | [] -> failwith "core3shape") in
      let (pairs, doc) = split n [] rest in
      string_of_int (int_of_n (core3_shape_tbl (parse_cls cls) (dec_doc (make_reader doc)) (List.map parse_pair pairs)))
  | "coreshape" :: cls :: np :: rest ->
      (* coreshape <cls> <#pairs> pair... <doc> *)
      let n = int_of_string np in
      let rec split i acc l = if i = 0 then (List.rev acc, l) else (match l with x :: t -> split (i - 1) (x :: acc) t | [] -> failwith "coreshape") in
      let (pairs, doc) = split n [] rest in
      string_of_int (int_of_n (core_shape_tbl (parse_cls cls) (dec_doc (make_reader doc)) (List.map parse_pair pairs)))
  | "domains" :: rest -> string_of_int (int_of_n (theorem_domains (dec_doc (make_reader rest))))
  | ["strict"; t] -> bool_tok (strict_profile (str_of_tok t))
  | "echo" :: rest -> enc_doc (dec_doc (make_reader rest))
  | ["nq"; s] -> bool_tok (needs_quotes (str_of_tok s))
  | ["emitstr"; f; s] -> tok_of_str (emit_str (tok_bool f) (str_of_tok s))
  | ["aqk"; s] -> bool_tok (always_quote_key (str_of_tok s))
  | ["pats"; s] -> let x = str_of_tok s in
      String.concat "" (List.map bool_tok [match_identifier x; match_annotation x; match_expression x; match_variable x; reserved_prefix x])
  | ["sclass"; f; s] -> string_of_int (int_of_n (scalar_class (tok_bool f) (str_of_tok s)))
  | _ -> "!badcmd"
let () = main_loop handle
