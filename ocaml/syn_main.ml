(* syn driver: one case per line.
   lex <lenient> <cls|-> <raw|nfc> ...     cls = c:f,c:f   line pairs raw|nfc (enc strings)
   esc <s> | unesc <s> | safe <s> *)
let tok_opt = function None -> "~" | Some s -> tok_of_str s
let pr_val = function
  | TVText s -> "t" ^ tok_of_str s
  | TVNum r -> "n" ^ tok_of_str r
  | TVBool b -> if b then "b1" else "b0"
  | TVNone -> "z"
  | TVCount n -> "c" ^ string_of_int (int_of_n n)
  | TVFence (m, t) -> "f" ^ tok_of_str m ^ "/" ^ tok_opt t
let pr_tok t =
  Printf.sprintf "%d:%s:%d:%d:%s" (int_of_n (tkind_code t.tk)) (pr_val t.tv) (int_of_n t.tline) (int_of_n t.tcol) (tok_opt t.tnorm)
let pr_rep r =
  Printf.sprintf "%d:%s:%s:%d:%d" (int_of_n r.rkind) (tok_of_str r.rorig) (tok_of_str r.rnew) (int_of_n r.rline) (int_of_n r.rcol)
let parse_cls t =
  if t = "-" then [] else
    List.map (fun p -> match String.split_on_char ':' p with
        | [c; f] -> (n_of_int (int_of_string c), n_of_int (int_of_string f))
        | _ -> failwith "cls") (String.split_on_char ',' t)
let parse_pair t = match String.split_on_char '|' t with
  | [a; b] -> (str_of_tok a, str_of_tok b)
  | _ -> failwith "pair"
let pr_lexres = function
  | LexOk (toks, reps) -> "OK " ^ String.concat ";" (List.map pr_tok toks) ^ " # " ^ String.concat ";" (List.map pr_rep reps)
  | LexErr (code, l, c) -> Printf.sprintf "ERR %s %d %d" (tok_of_str code) (int_of_n l) (int_of_n c)
  | LexFuel -> "FUEL"
let handle l =
  match words l with
  | "lex" :: len :: cls :: pairs -> pr_lexres (tokenize_tbl (tok_bool len) (parse_cls cls) (List.map parse_pair pairs))
  | ["esc"; s] -> tok_of_str (escape (str_of_tok s))
  | ["unesc"; s] -> tok_of_str (unescape (str_of_tok s))
  | ["safe"; s] -> bool_tok (escape_safe (str_of_tok s))
  | ["esco"; s] -> (match escape_opt (str_of_tok s) with Some r -> tok_of_str r | None -> "NONE")
  | ["unesco"; s] -> (match unescape_opt (str_of_tok s) with Some r -> tok_of_str r | None -> "NONE")
  | ["nq"; s] -> bool_tok (needs_quotes (str_of_tok s))
  | ["emitstr"; f; s] -> tok_of_str (emit_str (tok_bool f) (str_of_tok s))
  | ["aqk"; s] -> bool_tok (always_quote_key (str_of_tok s))
  | ["pats"; s] -> let x = str_of_tok s in
      String.concat "" (List.map bool_tok [match_identifier x; match_annotation x; match_expression x; match_variable x; reserved_prefix x])
  | ["sclass"; f; s] -> string_of_int (int_of_n (scalar_class (tok_bool f) (str_of_tok s)))
  | _ -> "!badcmd"
let () = main_loop handle
