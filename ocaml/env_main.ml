(* env driver (C10): one case per line = tool + the fact valuation of one execution (space-separated small ints;
   booleans are 0/1), in the field order of the records of Tools/Envelope.v.
     validate <profile> <content> <file> <path_ok> <exists> <read_ok> <parse_ok> <builtin> <loaded> <fields> <errs>
              <compact> <emit_ok>  <fix> <diff_only> <grammar_hint> <debug_grammar>
     write    <policy> <path_ok> <content> <changes> <exists> <io> <base_hash> <lenient> <pst> <emit_ok> <schema>
              <builtin> <loaded> <fields> <errs> <post>  <grammar_hint> <debug_grammar>
     eject    <content> <parse_ok> <format>
     grammar  <format> <schema> <content> <load_exc> <loaded> <parse_ok> <meta> <contract> <resolved> <compile_exc>
     cliv     <file> <stdin> <require_seal> <verify_seal> <exc> <schema> <builtin> <errs> <errs_noschema> <fix>
              <errs_after> <seal>
     cliw     <sources> <path_ok> <content> <exists> <exc> <schema> <builtin> <errs> <write_err>
     builtins                      (the builtin dict schema names seen by the translator)
   answer: `vs valid name version verrs vcount status echo exit` (codes of Tools/Envelope.v: envl), or `none`
   when the model yields no response (table did not compile against the atom dictionary / no return reached). *)
exception Bad of string
let toks : string list ref = ref []
let next () = match !toks with [] -> raise (Bad "eof") | t :: r -> toks := r; t
let num () = n_of_int (int_of_string (next ()))
let bit () = match next () with "1" -> true | "0" -> false | t -> raise (Bad ("bool " ^ t))
let fin () = match !toks with [] -> () | t :: _ -> raise (Bad ("trailing " ^ t))

let show (e : envl option) : string =
  match e with
  | None -> "none"
  | Some e ->
    String.concat " "
      [ string_of_int (int_of_n e.e_vs); string_of_int (int_of_n e.e_valid); bool_tok e.e_name; bool_tok e.e_version;
        string_of_int (int_of_n e.e_verrs); string_of_int (int_of_n e.e_vcount); string_of_int (int_of_n e.e_status);
        string_of_int (int_of_n e.e_echo); string_of_int (int_of_n e.e_exit) ]

let handle (l : string) : string =
  toks := words l;
  try
    match next () with
    | "validate" ->
      let v_profile = num () in let v_content = bit () in let v_file = bit () in let v_path_ok = bit () in
      let v_exists = bit () in let v_read_ok = bit () in let v_parse_ok = bit () in let v_builtin = bit () in
      let v_loaded = bit () in let v_fields = bit () in let v_errs = bit () in let v_compact = bit () in
      let v_emit_ok = bit () in
      let fx = bit () in let d = bit () in let gh = bit () in let dg = bit () in fin ();
      show (validate_env { v_profile; v_content; v_file; v_path_ok; v_exists; v_read_ok; v_parse_ok; v_builtin;
                           v_loaded; v_fields; v_errs; v_compact; v_emit_ok } fx d gh dg)
    | "write" ->
      let w_policy = num () in let w_path_ok = bit () in let w_content = bit () in let w_changes = bit () in
      let w_exists = bit () in let w_io = num () in let w_base_hash = bit () in let w_lenient = bit () in
      let w_pst = num () in let w_emit_ok = bit () in let w_schema = bit () in let w_builtin = bit () in
      let w_loaded = bit () in let w_fields = bit () in let w_errs = bit () in let w_post = num () in
      let gh = bit () in let dg = bit () in fin ();
      show (write_env { w_policy; w_path_ok; w_content; w_changes; w_exists; w_io; w_base_hash; w_lenient; w_pst;
                        w_emit_ok; w_schema; w_builtin; w_loaded; w_fields; w_errs; w_post } gh dg)
    | "eject" ->
      let j_content = bit () in let j_parse_ok = bit () in let j_format = num () in fin ();
      show (eject_env { j_content; j_parse_ok; j_format })
    | "grammar" ->
      let g_format = num () in let g_schema = bit () in let g_content = bit () in let g_load_exc = bit () in
      let g_loaded = bit () in let g_parse_ok = bit () in let g_meta = bit () in let g_contract = bit () in
      let g_resolved = bit () in let g_compile_exc = bit () in fin ();
      show (grammar_env { g_format; g_schema; g_content; g_load_exc; g_loaded; g_parse_ok; g_meta; g_contract;
                          g_resolved; g_compile_exc })
    | "cliv" ->
      let cv_file = bit () in let cv_stdin = bit () in let cv_require_seal = bit () in let cv_verify_seal = bit () in
      let cv_exc = bit () in let cv_schema = bit () in let cv_builtin = bit () in let cv_errs = bit () in
      let cv_errs_noschema = bit () in let cv_fix = bit () in let cv_errs_after = bit () in let cv_seal = num () in
      fin ();
      show (cli_validate_env { cv_file; cv_stdin; cv_require_seal; cv_verify_seal; cv_exc; cv_schema; cv_builtin;
                               cv_errs; cv_errs_noschema; cv_fix; cv_errs_after; cv_seal })
    | "cliw" ->
      let cw_sources = num () in let cw_path_ok = bit () in let cw_content = bit () in let cw_exists = bit () in
      let cw_exc = num () in let cw_schema = bit () in let cw_builtin = bit () in let cw_errs = bit () in
      let cw_write_err = bit () in fin ();
      show (cli_write_env { cw_sources; cw_path_ok; cw_content; cw_exists; cw_exc; cw_schema; cw_builtin; cw_errs;
                            cw_write_err })
    | "builtins" ->
      String.concat " " (List.map (fun ((k, hn), hv) -> tok_of_str k ^ ":" ^ bool_tok hn ^ bool_tok hv)
                           status_builtin_dict_schemas)
    | t -> "!bad:" ^ t
  with Bad m -> "!bad:" ^ m

let () = main_loop handle
