(* cst driver: one case per line (tokens separated by spaces; strings are '.'-separated code points, "-" = empty).
   value   : N | B0 | B1 | I<int> | F<fl>:<repr> | S<str> | L<k> v*k | D<k> (<key> v)*k | Z<tag or ~>
   int     : 0 | +<binary> | -<binary>          fl : <int>/<binary den> | inf | ninf | nan
   oracle  : <str(v)> <float(v): ~ | fl> <fromisoformat ok 0/1> <fromisoformat(Z->+00:00) ok 0/1>
   cst     : REQ OPT DIR APP DATE ISO LIT | CONST <atom value> | ENUM <k> <str>*k | TYPE <str> | REGEX <pat> <verdict 0/1>
             | RANGE <fl> <fl> | MAXL <int> | MINL <int> | LANG <str>
   ev <oracle> <value> <k> <cst>*k                         -> <valid> <codes ,-joined | ->
   conf <k> <cst>*k                                        -> <number of conflicts>
   doc <section> <policy> <nf> (<field> <0|1> [<k> <cst>*k])*nf <ni> (<key> <oracle> <value>)*ni
                                                           -> code:path:severity ... | NONE
   pystr <value> | date <str> | cls <str> | split <str> | eqb <atom> <atom> *)
let toks = ref [||]
let pos = ref 0
let next () = let t = !toks.(!pos) in incr pos; t
let rec times k f = if k <= 0 then [] else let x = f () in x :: times (k - 1) f

let pos_of_bin (s : string) : positive =
  if s = "" || s.[0] <> '1' then failwith "bin";
  let p = ref XH in
  for i = 1 to String.length s - 1 do p := if s.[i] = '1' then XI !p else XO !p done;
  !p
let z_of_tok (t : string) : z =
  if t = "0" then Z0
  else
    let body = String.sub t 1 (String.length t - 1) in
    if t.[0] = '-' then Zneg (pos_of_bin body) else if t.[0] = '+' then Zpos (pos_of_bin body) else failwith "int"
let fl_of_tok (t : string) : fl =
  match t with
  | "inf" -> FInf false
  | "ninf" -> FInf true
  | "nan" -> FNan
  | _ -> (match String.split_on_char '/' t with
          | [a; b] -> FFin { qnum = z_of_tok a; qden = pos_of_bin b }
          | _ -> failwith "fl")

let rec pval () : pyval =
  let t = next () in
  let r = String.sub t 1 (String.length t - 1) in
  match t.[0] with
  | 'N' -> PA ANone
  | 'B' -> PA (ABool (r = "1"))
  | 'I' -> PA (AInt (z_of_tok r))
  | 'F' -> (match String.index_opt r ':' with
            | Some i ->
                let f = fl_of_tok (String.sub r 0 i) in
                let rp = str_of_tok (String.sub r (i + 1) (String.length r - i - 1)) in
                PA (AFloat (f, rp))
            | None -> failwith "float")
  | 'S' -> PA (AStr (str_of_tok r))
  | 'L' -> let k = int_of_string r in PList (times k pval)
  | 'D' -> let k = int_of_string r in
           PDict (times k (fun () -> let key = str_of_tok (next ()) in let v = pval () in (key, v)))
  | 'Z' -> PZone ([], (if r = "~" then None else Some (str_of_tok r)))
  | _ -> failwith "value"

let pcst (re : (n list * bool) list ref) () : cst =
  match next () with
  | "REQ" -> CReq | "OPT" -> COpt | "DIR" -> CDir | "APP" -> CAppend
  | "DATE" -> CDate | "ISO" -> CIso | "LIT" -> CLiteral
  | "CONST" -> (match pval () with PA a -> CConst a | _ -> failwith "const")
  | "ENUM" -> let k = int_of_string (next ()) in CEnum (times k (fun () -> str_of_tok (next ())))
  | "TYPE" -> CType (str_of_tok (next ()))
  | "REGEX" -> let p = str_of_tok (next ()) in let b = (next () = "1") in re := (p, b) :: !re; CRegex p
  | "RANGE" -> let lo = fl_of_tok (next ()) in let hi = fl_of_tok (next ()) in CRange (lo, hi)
  | "MAXL" -> CMaxLen (z_of_tok (next ()))
  | "MINL" -> CMinLen (z_of_tok (next ()))
  | "LANG" -> CLang (str_of_tok (next ()))
  | _ -> failwith "cst"

let pchain re = let k = int_of_string (next ()) in times k (pcst re)

let re_fun (re : (n list * bool) list) : n list -> bool =
  fun p -> (try List.assoc p re with Not_found -> failwith "noregexoracle")

let porc () =
  let s = str_of_tok (next ()) in
  let f = (match next () with "~" -> None | t -> Some (fl_of_tok t)) in
  let a = (next () = "1") in
  let b = (next () = "1") in
  (s, f, a, b)
let mk_orc (s, f, a, b) re = { o_str = s; o_float = f; o_fromiso = a; o_fromiso_z = b; o_re = re_fun re }

let pr_res (r : res) =
  bool_tok r.valid ^ " " ^ (if r.codes = [] then "-" else String.concat "," (List.map tok_of_str r.codes))

let dummy = ([], None, false, false)

let handle l =
  toks := Array.of_list (words l);
  pos := 0;
  match next () with
  | "ev" ->
      let o4 = porc () in
      let v = pval () in
      let re = ref [] in
      let ch = pchain re in
      pr_res (chain_eval (mk_orc o4 !re) ch v)
  | "conf" ->
      let re = ref [] in
      let ch = pchain re in
      string_of_int (List.length (conflicts ch))
  | "doc" ->
      let sec = str_of_tok (next ()) in
      let pol = str_of_tok (next ()) in
      let nf = int_of_string (next ()) in
      let fields = times nf (fun () ->
          let name = str_of_tok (next ()) in
          let has = (next () = "1") in
          let re = ref [] in
          let ch = if has then Some (pchain re) else None in
          (name, ch, !re)) in
      let ni = int_of_string (next ()) in
      let inst = times ni (fun () ->
          let key = str_of_tok (next ()) in
          let o4 = porc () in
          let v = pval () in
          (key, o4, v)) in
      let oof (f : n list) : orc =
        let re = (try (match List.find (fun (nm, _, _) -> nm = f) fields with (_, _, re) -> re) with Not_found -> []) in
        let o4 = List.fold_left (fun acc (k, o, _) -> if k = f then o else acc) dummy inst in
        mk_orc o4 re in
      let sc = { sc_fields = List.map (fun (nm, ch, _) -> (nm, ch)) fields; sc_policy = pol } in
      let errs = validate_section oof sec sc (List.map (fun (k, _, v) -> (k, v)) inst) in
      if errs = [] then "NONE"
      else String.concat " " (List.map (fun e -> tok_of_str e.ve_code ^ ":" ^ tok_of_str e.ve_path ^ ":" ^ tok_of_str e.ve_sev) errs)
  | "pystr" -> tok_of_str (py_str [n_of_int 63] (pval ()))
  | "date" -> let s = str_of_tok (next ()) in bool_tok (date_shape s) ^ bool_tok (real_date s)
  | "cls" -> (match classify_part (str_of_tok (next ())) with
              | None -> "NONE"
              | Some (c, a) -> tok_of_str c ^ " " ^ tok_of_str a)
  | "split" -> (match split_parts_and (str_of_tok (next ())) with
                | [] -> "NONE"
                | ps -> String.concat " " (List.map tok_of_str ps))
  | "eqb" -> (match pval () with
              | PA a -> (match pval () with PA b -> bool_tok (atom_eqb a b) | _ -> failwith "atom")
              | _ -> failwith "atom")
  | _ -> "!badcmd"
let () = main_loop (fun l -> try handle l with Invalid_argument m -> "!invalid:" ^ m)
