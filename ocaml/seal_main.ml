(* seal driver (C15): one case per line.
   body   <spc> <doc>                                  -> text the model hashes: emit(remove_seal doc)
   seal   <spc> <n> (<text> <digest>)*n <doc>          -> <status of verify(sealed)> <resealed = sealed> <seal_count sealed> # <sealed doc>
   verify <spc> <n> (<text> <digest>)*n <doc>          -> <status> <stored hash: ~ no seal | !nonstr | enc> <seal_count>
   cliexit <status code> <require 0|1>                 -> exit status contributed by the seal check
   hexshape <s>                                        -> 1 iff 64 lowercase hex characters
   spc = extra (non-ASCII) whitespace code points of the frontmatter, '-' if none.
   The hash oracle is the per-case table; a body text that is missing from the table yields !oracle-miss. *)
let tok_opt = function None -> "~" | Some s -> tok_of_str s
(* ---- AST codec (see harness/lib/astcodec.py) ---- *)
let opt_of_tok t = if t = "~" then None else Some (str_of_tok t)
let rest_of x = String.sub x 1 (String.length x - 1)
let rd_list n f = let rec go i acc = if i = 0 then List.rev acc else go (i - 1) (f () :: acc) in go n []
let make_reader (toks : string list) =
  let r = ref toks in
  (fun () -> match !r with x :: t -> r := t; x | [] -> failwith "eof")
let rec dec_value next : value =
  let x = next () in
  let rest = rest_of x in
  match x.[0] with
  | 'N' -> VNull | 'T' -> VBool true | 'F' -> VBool false
  | 'I' -> VNum (false, str_of_tok rest) | 'D' -> VNum (true, str_of_tok rest)
  | 'S' -> VStr (str_of_tok rest)
  | 'L' -> VList (rd_list (int_of_string rest) (fun () -> dec_value next))
  | 'M' -> VMap (rd_list (int_of_string rest) (fun () -> let k = str_of_tok (next ()) in let v = dec_value next in (k, v)))
  | 'H' -> VHolo (str_of_tok rest)
  | 'Z' -> let c = str_of_tok rest in let tag = opt_of_tok (next ()) in let m = str_of_tok (next ()) in VZone (c, tag, m)
  | 'A' -> VAbsent
  | _ -> failwith "value"
let dec_strs next = rd_list (int_of_string (next ())) (fun () -> str_of_tok (next ()))
let rec dec_node next : node =
  match next () with
  | "a" -> let k = str_of_tok (next ()) in let v = dec_value next in let l = dec_strs next in let t = opt_of_tok (next ()) in NAssign (k, v, l, t)
  | "b" -> let k = str_of_tok (next ()) in let t = opt_of_tok (next ()) in
           let ch = rd_list (int_of_string (next ())) (fun () -> dec_node next) in let l = dec_strs next in NBlock (k, t, ch, l)
  | "s" -> let i = str_of_tok (next ()) in let k = str_of_tok (next ()) in let a = opt_of_tok (next ()) in
           let ch = rd_list (int_of_string (next ())) (fun () -> dec_node next) in let l = dec_strs next in NSection (i, k, a, ch, l)
  | "c" -> NComment (str_of_tok (next ()))
  | _ -> failwith "node"
let dec_doc next : doc =
  let name = str_of_tok (next ()) in let g = opt_of_tok (next ()) in let f = opt_of_tok (next ()) in
  let sep = (next () = "1") in
  let meta = rd_list (int_of_string (next ())) (fun () ->
      let k = str_of_tok (next ()) in
      let x = next () in
      if x.[0] = 'd' then (k, MD (rd_list (int_of_string (rest_of x)) (fun () -> let k2 = str_of_tok (next ()) in let v = dec_value next in (k2, v))))
      else (k, MV (dec_value next))) in
  let secs = rd_list (int_of_string (next ())) (fun () -> dec_node next) in
  let tr = dec_strs next in
  { dname = name; dgrammar = g; dfront = f; dsep = sep; dmeta = meta; dsections = secs; dtrailing = tr }
let rec enc_value (v : value) (b : Buffer.t) =
  let add s = Buffer.add_string b s; Buffer.add_char b ' ' in
  match v with
  | VNull -> add "N" | VBool true -> add "T" | VBool false -> add "F"
  | VNum (false, c) -> add ("I" ^ tok_of_str c) | VNum (true, c) -> add ("D" ^ tok_of_str c)
  | VStr s -> add ("S" ^ tok_of_str s)
  | VList l -> add ("L" ^ string_of_int (List.length l)); List.iter (fun x -> enc_value x b) l
  | VMap ps -> add ("M" ^ string_of_int (List.length ps)); List.iter (fun (k, x) -> add (tok_of_str k); enc_value x b) ps
  | VHolo r -> add ("H" ^ tok_of_str r)
  | VZone (c, t, m) -> add ("Z" ^ tok_of_str c); add (tok_opt t); add (tok_of_str m)
  | VAbsent -> add "A"
let enc_strs l b = Buffer.add_string b (string_of_int (List.length l)); Buffer.add_char b ' ';
  List.iter (fun s -> Buffer.add_string b (tok_of_str s); Buffer.add_char b ' ') l
let rec enc_node (n : node) (b : Buffer.t) =
  let add s = Buffer.add_string b s; Buffer.add_char b ' ' in
  match n with
  | NAssign (k, v, l, t) -> add "a"; add (tok_of_str k); enc_value v b; enc_strs l b; add (tok_opt t)
  | NBlock (k, t, ch, l) -> add "b"; add (tok_of_str k); add (tok_opt t); add (string_of_int (List.length ch));
      List.iter (fun c -> enc_node c b) ch; enc_strs l b
  | NSection (i, k, a, ch, l) -> add "s"; add (tok_of_str i); add (tok_of_str k); add (tok_opt a);
      add (string_of_int (List.length ch)); List.iter (fun c -> enc_node c b) ch; enc_strs l b
  | NComment t -> add "c"; add (tok_of_str t)
let enc_doc (d : doc) : string =
  let b = Buffer.create 256 in
  let add s = Buffer.add_string b s; Buffer.add_char b ' ' in
  add (tok_of_str d.dname); add (tok_opt d.dgrammar); add (tok_opt d.dfront); add (if d.dsep then "1" else "0");
  add (string_of_int (List.length d.dmeta));
  List.iter (fun (k, mv) -> add (tok_of_str k);
    (match mv with
     | MV v -> add "v"; enc_value v b
     | MD ps -> add ("d" ^ string_of_int (List.length ps)); List.iter (fun (k2, v) -> add (tok_of_str k2); enc_value v b) ps)) d.dmeta;
  add (string_of_int (List.length d.dsections)); List.iter (fun n -> enc_node n b) d.dsections;
  enc_strs d.dtrailing b;
  String.trim (Buffer.contents b)
let ascii_space c = let i = int_of_n c in (i >= 9 && i <= 13) || (i >= 28 && i <= 32)


let status_name = function VERIFIED -> "VERIFIED" | INVALID -> "INVALID" | NO_SEAL -> "NO_SEAL"
let mk_sp spc = let extra = str_of_tok spc in fun c -> ascii_space c || List.mem c extra
(* <n> (<text> <digest>)*n  then the rest *)
let read_table (toks : string list) =
  match toks with
  | n :: rest ->
      let rec go i acc r = if i = 0 then (List.rev acc, r) else
          (match r with t :: d :: r' -> go (i - 1) ((str_of_tok t, str_of_tok d) :: acc) r' | _ -> failwith "table") in
      go (int_of_string n) [] rest
  | [] -> failwith "table"
let handle l =
  match words l with
  | "body" :: spc :: rest -> tok_of_str (body_text (mk_sp spc) (dec_doc (make_reader rest)))
  | "seal" :: spc :: rest ->
      let sp = mk_sp spc in
      let (tbl, rest) = read_table rest in
      let d = dec_doc (make_reader rest) in
      if not (oracle_has tbl (body_text sp d)) then "!oracle-miss" else
      let s = seal_tbl tbl sp d in
      if not (oracle_has tbl (body_text sp s)) then "!oracle-miss" else
      let v = verify_tbl tbl sp s in
      let s2 = seal_tbl tbl sp s in
      Printf.sprintf "%s %s %d # %s" (status_name v) (bool_tok (s2 = s)) (int_of_nat (seal_count s)) (enc_doc s)
  | "verify" :: spc :: rest ->
      let sp = mk_sp spc in
      let (tbl, rest) = read_table rest in
      let d = dec_doc (make_reader rest) in
      if not (oracle_has tbl (body_text sp d)) then "!oracle-miss" else
      let st = (match stored_hash_of d with None -> "~" | Some None -> "!nonstr" | Some (Some s) -> tok_of_str s) in
      Printf.sprintf "%s %s %d" (status_name (verify_tbl tbl sp d)) st (int_of_nat (seal_count d))
  | ["cliexit"; code; req] -> string_of_int (int_of_n (cli_exit (status_of_code (n_of_int (int_of_string code))) (tok_bool req)))
  | ["hexshape"; s] -> bool_tok (hexdigest_shape (str_of_tok s))
  | "echo" :: rest -> enc_doc (dec_doc (make_reader rest))
  | _ -> "!badcmd"
let () = main_loop handle
