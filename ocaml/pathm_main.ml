(* pathm driver (C19): one command per line.
   fs <path|kind|payload> ...   kind d/f/l; path = enc segs joined by '/', '@' = root      -> ok
   cwd <path>                                                                            -> ok
   val <w|v|f> <s>      -> OK | R:DOTDOT | R:SYMLINK | R:RESOLVE | R:EXT
   res <s>              -> OK <path> | ERR NUL | ERR LOOP          (resolve of the absolute form of s)
   st <s>               -> <T|F|R><0|1|R><0|1>      (exists, is_symlink (lstat; R = raises), is_dir of the absolute form of s)
   late <s>             -> <T|F|R><T|F|R>           (late symlink re-check of the write block, of atomic_write_octave)
   name <s>             -> 0 | 1 <file> <file>
   frozen <ref>         -> NONE | <file>
   rfrozen <cache path> <ref> <bytes=digest> ...    -> NONE | <path>
   uri <base path> <uri> -> OK <path> <complete 0|1> | REFUSED | RAISE      (validate_source_uri of the current source)
   stale <base path> <uri> -> HASHED <path> | ERROR | RAISE                 (_check_single_snapshot, allowed_root = base)
   ext <name>           -> <suffix> <compound> <0|1 write> *)
let cur_fs = ref (NDir [])
let cur_cwd = ref []
let path_of_tok t = if t = "@" then [] else List.map str_of_tok (String.split_on_char '/' t)
let tok_of_path p = if p = [] then "@" else String.concat "/" (List.map tok_of_str p)
let entry_of_tok t = match String.split_on_char '|' t with
  | [p; k; payload] ->
      let n = (match k with "d" -> NDir [] | "f" -> NFile (str_of_tok payload) | "l" -> NLink (str_of_tok payload) | _ -> failwith "kind") in
      (path_of_tok p, n)
  | _ -> failwith "entry"
let pr_verdict = function
  | VOk -> "OK"
  | VRefuse RDotDot -> "R:DOTDOT" | VRefuse RSymlink -> "R:SYMLINK" | VRefuse RResolve -> "R:RESOLVE" | VRefuse RExt -> "R:EXT"
let pr_ex = function ExTrue -> "T" | ExFalse -> "F" | ExRaise -> "R"
let pair_of_tok t = match String.split_on_char '=' t with [a; b] -> (str_of_tok a, str_of_tok b) | _ -> failwith "pair"
let handle l =
  match words l with
  | "fs" :: es -> cur_fs := mk_fs (List.map entry_of_tok es); "ok"
  | ["cwd"; p] -> cur_cwd := path_of_tok p; "ok"
  | ["val"; w; s] ->
      let f = (match w with "w" -> validate_write | "v" -> validate_validate | "f" -> validate_fileops | _ -> failwith "variant") in
      pr_verdict (f !cur_fs !cur_cwd (str_of_tok s))
  | ["res"; s] -> let t = abs_tail !cur_cwd (str_of_tok s) in
      (match resolve !cur_fs t with
       | ResOk p -> "OK " ^ tok_of_path p
       | ResErr -> if has_nul t then "ERR NUL" else (match realpath rp_fuel !cur_fs [] t with RLoop -> "ERR LOOP" | ROk _ -> "ERR ?"))
  | ["st"; s] -> let p = abs_tail !cur_cwd (str_of_tok s) in
      pr_ex (p_exists !cur_fs p) ^ (match p_lstat_link !cur_fs p with ExTrue -> "1" | ExFalse -> "0" | ExRaise -> "R")
      ^ bool_tok (p_is_dir !cur_fs p)
  | ["late"; s] -> pr_ex (late_recheck_write !cur_fs !cur_cwd (str_of_tok s)) ^ pr_ex (late_recheck_fileops !cur_fs !cur_cwd (str_of_tok s))
  | ["name"; s] -> let n = str_of_tok s in
      if name_ok n then "1 " ^ String.concat " " (List.map tok_of_str (schema_files n)) else "0"
  | ["frozen"; r] -> (match parse_frozen (str_of_tok r) with Some d -> tok_of_str (frozen_file d) | None -> "NONE")
  | "rfrozen" :: c :: r :: tbl ->
      (match resolve_frozen_tbl (List.map pair_of_tok tbl) !cur_fs (path_of_tok c) (str_of_tok r) with
       | Some p -> tok_of_path p | None -> "NONE")
  | ["uri"; b; u] -> (match validate_uri_src !cur_fs (path_of_tok b) (str_of_tok u) with
       | UOk p -> "OK " ^ tok_of_path p ^ " " ^ bool_tok (uri_complete_src !cur_fs (path_of_tok b) (str_of_tok u))
       | URefused -> "REFUSED" | URaise -> "RAISE")
  | ["stale"; b; u] -> (match stale_uri_src !cur_fs (path_of_tok b) (path_of_tok b) (str_of_tok u) with
       | SHashed p -> "HASHED " ^ tok_of_path p | SError -> "ERROR" | SRaise -> "RAISE")
  | ["ext"; n] -> let s = str_of_tok n in
      tok_of_str (suffix s) ^ " " ^ tok_of_str (compound_suffix s) ^ " " ^ bool_tok (ext_ok cfg_write.v_allowed s)
  | _ -> "!badcmd"
let () = main_loop handle
