(* Shared driver prelude (textually included after `open <ExtractedModule>`).
   Only parsing/printing of the line protocol; N/positive stay the extracted inductive types. *)
(* an extracted module may define its own `string` (Coq String.string); restore OCaml's *)
type string = Stdlib.String.t
let rec pos_of_int i =
  if i = 1 then XH else if i land 1 = 1 then XI (pos_of_int (i lsr 1)) else XO (pos_of_int (i lsr 1))
let n_of_int i = if i = 0 then N0 else Npos (pos_of_int i)
let rec int_of_pos = function XH -> 1 | XO p -> 2 * int_of_pos p | XI p -> 2 * int_of_pos p + 1
let int_of_n = function N0 -> 0 | Npos p -> int_of_pos p

(* strings: '.'-separated decimal code points; "-" is the empty string *)
let str_of_tok (t : string) : n list =
  if t = "-" || t = "" then [] else List.map (fun x -> n_of_int (int_of_string x)) (String.split_on_char '.' t)
let tok_of_str (s : n list) : string =
  if s = [] then "-" else String.concat "." (List.map (fun c -> string_of_int (int_of_n c)) s)
let bool_tok b = if b then "1" else "0"
let tok_bool t = (t = "1")

let rec nat_of_int i = if i <= 0 then O else S (nat_of_int (i - 1))
let rec int_of_nat = function O -> 0 | S n -> 1 + int_of_nat n

let words (l : string) : string list = List.filter (fun x -> x <> "") (String.split_on_char ' ' l)

let main_loop (f : string -> string) =
  (try
     while true do
       let l = Stdlib.input_line Stdlib.stdin in
       let r = (try f l with Stack_overflow -> "!stackoverflow" | Not_found -> "!notfound" | Failure m -> "!failure:" ^ m) in
       Stdlib.print_string r; Stdlib.print_char '\n'
     done
   with End_of_file -> ());
  Stdlib.flush Stdlib.stdout
