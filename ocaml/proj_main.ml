(* proj driver (C14): one case per line, space-separated tokens.
   doc    := N name M n {key value} D n {node}           (node / value grammar as in rep_main.ml)
   project <mode> doc            -> <lossy> O n {str} doc
   dict <cli:0|1> doc            -> jv           jv := z|b0|b1|i..|f..|s..|L n {jv}|M n {key jv}|H raw|Z c t f
   md doc                        -> markdown text (enc)
   mdpairs doc                   -> k|text;k|text...
   native <cli:0|1> doc          -> 0|1   (dict tree holds only dict/list/str/number/bool/None)
   items doc | ditems <cli> doc  -> item item ...        item := step/step/...=cell   (root path is ".")
   wf doc                        -> 0|1 *)
exception Bad of string
let toks : string list ref = ref []
let next () = match !toks with [] -> raise (Bad "eof") | t :: r -> toks := r; t
let str () = str_of_tok (next ())
let ostr () = let t = next () in if t = "~" then None else Some (str_of_tok t)
let count () = int_of_string (next ())
let rec many n f = if n <= 0 then [] else let x = f () in x :: many (n - 1) f
let z_of_dec (s : string) : z =
  match read_dec (List.map (fun c -> n_of_int (Char.code c)) (List.init (String.length s) (String.get s))) with
  | Some z -> z | None -> raise (Bad ("int " ^ s))
let dec_of_z (z : z) : string = String.concat "" (List.map (fun c -> String.make 1 (Char.chr (int_of_n c))) (z_to_dec z))

let rec value () : value =
  let t = next () in
  match t.[0] with
  | 'z' -> VNull
  | 'b' -> VBool (t = "b1")
  | 'i' -> VInt (z_of_dec (String.sub t 1 (String.length t - 1)))
  | 'f' -> VFloat (str_of_tok (String.sub t 1 (String.length t - 1)))
  | 's' -> VStr (str_of_tok (String.sub t 1 (String.length t - 1)))
  | 'L' -> let n = count () in VList (many n value)
  | 'M' -> let n = count () in VMap (many n (fun () -> let k = str () in let v = value () in (k, v)))
  | 'Z' -> let c = str () in let tg = ostr () in let f = str () in VZone (c, tg, f)
  | 'H' -> VHolo (str ())
  | _ -> raise (Bad ("value " ^ t))
let rec node () : node =
  match next () with
  | "A" -> let k = str () in let v = value () in NAssign (k, v)
  | "B" -> let k = str () in let tg = ostr () in let n = count () in NBlock (k, tg, many n node)
  | "S" -> let i = str () in let k = str () in let a = ostr () in let n = count () in NSection (i, k, a, many n node)
  | "C" -> NComment (str ())
  | t -> raise (Bad ("node " ^ t))
let expect s = match next () with t when t = s -> () | t -> raise (Bad ("expected " ^ s ^ " got " ^ t))
let doc () : doc =
  expect "N"; let name = str () in
  expect "M"; let n = count () in
  let meta = many n (fun () -> let k = str () in let v = value () in (k, v)) in
  expect "D"; let m = count () in
  { d_name = name; d_meta = meta; d_sections = many m node }

let po = function None -> "~" | Some s -> tok_of_str s
let rec pv = function
  | VNull -> "z" | VBool b -> if b then "b1" else "b0"
  | VInt z -> "i" ^ dec_of_z z
  | VFloat r -> "f" ^ tok_of_str r
  | VStr s -> "s" ^ tok_of_str s
  | VList l -> String.concat " " (("L " ^ string_of_int (List.length l)) :: List.map pv l)
  | VMap m -> String.concat " " (("M " ^ string_of_int (List.length m)) :: List.map (fun (k, v) -> tok_of_str k ^ " " ^ pv v) m)
  | VZone (c, t, f) -> "Z " ^ tok_of_str c ^ " " ^ po t ^ " " ^ tok_of_str f
  | VHolo r -> "H " ^ tok_of_str r
let rec pn = function
  | NAssign (k, v) -> "A " ^ tok_of_str k ^ " " ^ pv v
  | NBlock (k, t, ch) -> String.concat " " (("B " ^ tok_of_str k ^ " " ^ po t ^ " " ^ string_of_int (List.length ch)) :: List.map pn ch)
  | NSection (i, k, a, ch) ->
    String.concat " " (("S " ^ tok_of_str i ^ " " ^ tok_of_str k ^ " " ^ po a ^ " " ^ string_of_int (List.length ch)) :: List.map pn ch)
  | NComment t -> "C " ^ tok_of_str t
let pdoc d =
  String.concat " " (["N " ^ tok_of_str d.d_name; "M " ^ string_of_int (List.length d.d_meta)]
                     @ List.map (fun (k, v) -> tok_of_str k ^ " " ^ pv v) d.d_meta
                     @ ["D " ^ string_of_int (List.length d.d_sections)] @ List.map pn d.d_sections)
let rec pj = function
  | JNull -> "z" | JBool b -> if b then "b1" else "b0"
  | JInt z -> "i" ^ dec_of_z z
  | JFloat r -> "f" ^ tok_of_str r
  | JStr s -> "s" ^ tok_of_str s
  | JList l -> String.concat " " (("L " ^ string_of_int (List.length l)) :: List.map pj l)
  | JMap m -> String.concat " " (("M " ^ string_of_int (List.length m)) :: List.map (fun (k, v) -> tok_of_str k ^ " " ^ pj v) m)
  | JHolo r -> "H " ^ tok_of_str r
  | JZoneObj (c, t, f) -> "Z " ^ tok_of_str c ^ " " ^ po t ^ " " ^ tok_of_str f
let pstep = function
  | PKey k -> "k" ^ tok_of_str k
  | PIdx i -> "i" ^ string_of_int (int_of_n i)
  | PSec (i, k) -> "s" ^ tok_of_str i ^ ":" ^ tok_of_str k
  | PTarget -> "t"
  | PAnn -> "a"
let pleaf = function
  | LfNull -> "z" | LfBool b -> if b then "b1" else "b0"
  | LfInt z -> "i" ^ dec_of_z z
  | LfFloat r -> "f" ^ tok_of_str r
  | LfStr s -> "s" ^ tok_of_str s
  | LfHolo r -> "h" ^ tok_of_str r
  | LfEmptyList -> "e"
let pitem (p, c) =
  (if p = [] then "." else String.concat "/" (List.map pstep p)) ^ "=" ^ (match c with CNode -> "N" | CLeaf l -> pleaf l)
let pitems l = String.concat " " (List.map pitem l)

let handle l =
  toks := words l;
  try
    match next () with
    | "project" ->
      let m = str () in
      let d = doc () in
      let ((d', lossy), om) = project m d in
      String.concat " " ([bool_tok lossy; "O " ^ string_of_int (List.length om)] @ List.map tok_of_str om @ [pdoc d'])
    | "dict" ->
      let cli = tok_bool (next ()) in
      let d = doc () in
      pj (JMap (if cli then cli_ast_to_dict d else ast_to_dict d))
    | "md" -> let d = doc () in tok_of_str (markdown d)
    | "mdpairs" -> let d = doc () in
      String.concat ";" (List.map (fun (k, v) -> tok_of_str k ^ "|" ^ tok_of_str v) (md_pairs_doc d))
    | "native" -> let cli = tok_bool (next ()) in let d = doc () in
      bool_tok (native_dict (if cli then cli_ast_to_dict d else ast_to_dict d))
    | "items" -> pitems (items_doc (doc ()))
    | "ditems" -> let cli = tok_bool (next ()) in let d = doc () in
      pitems (items_dict (if cli then cli_ast_to_dict d else ast_to_dict d))
    | "wf" -> bool_tok (wf_doc (doc ()))
    | _ -> "!badcmd"
  with Bad m -> "!bad:" ^ m
let () = main_loop handle
