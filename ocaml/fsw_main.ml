(* fsw driver: one case per line, fields separated by single spaces (no empty fields: "-" = empty).
   run   <proto> <target> <parent> <chain a,b> <tmp> <base|~> <pipe k=v,..> <dry> <nval> <faults k:f,..> <orc k:n,..> <hashes k=v,..> <fs e;e>
   hist  <target> <parent> <chain> <tmp> <nval> <hashes> <fs> <op> <op> ...
   sched <bits>      merges      witness
   encodings: strings as in prelude ('.'-separated code points, "-" empty); "~" = None. *)
let ostr t = if t = "~" then None else Some (str_of_tok t)
let tok_ostr = function None -> "~" | Some s -> tok_of_str s
let split c s = if s = "-" || s = "" then [] else String.split_on_char c s
let pair c s = match String.index_opt s c with
  | Some i -> (String.sub s 0 i, String.sub s (i+1) (String.length s - i - 1)) | None -> failwith ("pair:" ^ s)
let errno_of_int = function 28 -> ENOSPC | 13 -> EACCES | 1 -> EPERM | 5 -> EIO | 4 -> EINTR | 30 -> EROFS | 2 -> ENOENT | 20 -> ENOTDIR | _ -> EOTHER
let fault_of t = if t = "c" then FCrash else if t = "ok" then FOk else
  if t.[0] = 'f' then FFail (errno_of_int (int_of_string (String.sub t 1 (String.length t - 1)))) else failwith "fault"
let mode_of = function "content" -> MContent | "changes" -> MChanges | "normalize" -> MNormalize | _ -> failwith "mode"
let proto_of_tok = function "atomic" -> PAtomic | m -> PExecute (mode_of m)
let hashes t = List.map (fun e -> let (k, v) = pair '=' e in (str_of_tok k, str_of_tok v)) (split ',' t)
let pipes t = List.map (fun e -> let (k, v) = pair '=' e in (ostr k, ostr v)) (split ',' t)
let node_of e = match String.split_on_char '|' e with
  | [p; "D"] -> (str_of_tok p, Dir)
  | [p; "F"; d; m] -> (str_of_tok p, File (str_of_tok d, n_of_int (int_of_string m)))
  | _ -> failwith ("node:" ^ e)
let fs_of t = List.map node_of (split ';' t)
let pr_node = function None -> "~" | Some Dir -> "D" | Some (File (d, m)) -> "F|" ^ tok_of_str d ^ "|" ^ string_of_int (int_of_n m)
let ecode_s = function E_PATH -> "E_PATH" | E_FILE -> "E_FILE" | E_READ -> "E_READ" | E_HASH -> "E_HASH" | E_PIPE -> "E_PIPE" | E_WRITE -> "E_WRITE"
let pr_outcome = function
  | Success h -> "success " ^ tok_of_str h
  | Error c -> "error " ^ ecode_s c
  | Raised e -> "raised " ^ string_of_int (int_of_n (errno_code e))
  | Crashed -> "crashed -"
let pr_hres = function ROk h -> "ok:" ^ tok_of_str h | RFail c -> "err:" ^ ecode_s c | RExt -> "ext"
let hop_of t = match String.split_on_char ':' t with
  | ["X"; m; pt; b; dry] -> HExec (mode_of m, pipe_of (pipes pt), ostr b, tok_bool dry)
  | ["A"; c; b] -> HAtomic (str_of_tok c, ostr b)
  | ["E"; "~"; _] -> HExternal None
  | ["E"; c; m] -> HExternal (Some (str_of_tok c, n_of_int (int_of_string m)))
  | _ -> failwith ("hop:" ^ t)
let bits s = List.init (String.length s) (fun i -> s.[i] = '1')
let pr_bits l = String.concat "" (List.map (fun b -> if b then "1" else "0") l)
let handle l =
  match words l with
  | ["run"; p; target; parent; chain; tmp; base; pt; dry; nval; ft; ot; ht; fs] ->
      let chain = List.map str_of_tok (split ',' chain) in
      let ft = List.map (fun e -> let (k, v) = pair ':' e in (nat_of_int (int_of_string k), fault_of v)) (split ',' ft) in
      let ot = List.map (fun e -> let (k, v) = pair ':' e in (nat_of_int (int_of_string k), nat_of_int (int_of_string v))) (split ',' ot) in
      let target = str_of_tok target and tmp = str_of_tok tmp in
      let (st, oc) = run_case (hashes ht) target (str_of_tok parent) tmp chain (ostr base) (pipes pt) (tok_bool dry)
          (nat_of_int (int_of_string nval)) ft ot (proto_of_tok p) (fs_of fs) in
      Printf.sprintf "%s # %s # %s # %s # %s # %s # %s" (pr_outcome oc)
        (String.concat "," (List.rev_map (fun t -> string_of_int (int_of_n t)) st.tr))
        (pr_node (lookup target st.fsys)) (pr_node (lookup tmp st.fsys))
        (String.concat "," (List.map (fun c -> pr_node (lookup c st.fsys)) chain))
        (bool_tok st.ulfail) (tok_ostr st.cont)
  | "hist" :: target :: parent :: chain :: tmp :: nval :: ht :: fs :: ops ->
      let chain = List.map str_of_tok (split ',' chain) in
      let target = str_of_tok target in
      let h = List.map hop_of ops in
      let s0 = fs_of fs in
      let (s1, rs) = hist_impl (hashes ht) target (str_of_tok parent) (str_of_tok tmp) chain (nat_of_int (int_of_string nval)) s0 h in
      let (c1, ss) = hist_spec (hashes ht) (fs_read target s0) h in
      Printf.sprintf "%s # %s # %s # %s" (String.concat " " (List.map pr_hres rs)) (pr_node (lookup target s1))
        (String.concat " " (List.map pr_hres ss)) (tok_ostr c1)
  | ["sched"; b] -> let ((bs, iw), f) = sched_case (bits b) in Printf.sprintf "%s %s %s" (bool_tok bs) (bool_tok iw) (tok_of_str f)
  | ["merges"] -> String.concat "," (List.map pr_bits all_merges)
  | ["witness"] -> pr_bits witness_sched
  | _ -> "!badcmd"
let () = main_loop handle
