(* flow driver: one command per line.
   escapes <tool>      -> callee/ord/class;...      (uncovered, not benign)
   sites <tool>        -> line:callee:ord:may1,may2:unc1,unc2;...
   total | raising | benign | known | loops | maxnest | consuming *)
let strs l = if l = [] then "~" else String.concat "," (List.map tok_of_str l)
let handle l =
  match words l with
  | ["escapes"; t] ->
      let es = report_escapes (str_of_tok t) in
      if es = [] then "NONE" else
      String.concat ";" (List.map (fun ((c, o), k) -> Printf.sprintf "%s/%d/%s" (tok_of_str c) (int_of_n o) (tok_of_str k)) es)
  | ["sites"; t] ->
      String.concat ";" (List.map (fun ((((ln, c), o), may), unc) ->
        Printf.sprintf "%d:%s:%d:%s:%s" (int_of_n ln) (tok_of_str c) (int_of_n o) (strs may) (strs unc)) (report_sites (str_of_tok t)))
  | ["total"] -> String.concat ";" (List.map tok_of_str report_total)
  | ["raising"] -> String.concat ";" (List.map (fun (c, ks) -> tok_of_str c ^ "=" ^ strs ks) report_raising)
  | ["benign"] -> String.concat ";" (List.map (fun ((t, c), o) -> Printf.sprintf "%s/%s/%d" (tok_of_str t) (tok_of_str c) (int_of_n o)) report_benign)
  | ["known"] -> String.concat ";" (List.map (fun (((t, c), o), k) -> Printf.sprintf "%s/%s/%d/%s" (tok_of_str t) (tok_of_str c) (int_of_n o) (tok_of_str k)) report_known)
  | ["loops"] ->
      (* id:line:method:abcd  -- id is the key (method#ordinal); line is diagnostic only *)
      String.concat ";" (List.map (fun ((((((i, ln), f), a), b), c), d) ->
        Printf.sprintf "%s:%d:%s:%s%s%s%s" (tok_of_str i) (int_of_n ln) (tok_of_str f) (bool_tok a) (bool_tok b) (bool_tok c) (bool_tok d)) report_loops)
  | ["maxnest"] -> string_of_int (int_of_n report_max_nesting)
  | ["consuming"] -> String.concat ";" (List.map tok_of_str consuming_calls)
  | _ -> "!badcmd"
let () = main_loop handle
