(* chg driver (C18): one case per line.
   jval   : n | t | f | i<str> | d<str> | s<str> | l<count> item... | m<count> (key jval)...
   request: <count> (key jval)...
   seq <spc> <k> request^k DOC        -> DOC <doc> # <emit text>      apply_seq
   exec <spc> request request DOC     -> DOC <doc> # <emit text>      execute_changes (changes, mutations)
   cli <spc> request DOC              -> NONE | DOC <doc> # <emit text>
   drop DOC -> <doc>      emit <spc> DOC -> <text>      absinfo DOC -> <meta_all_absent><doc_absent_free>
   sent jval -> 0|1       norm jval -> <value>
   state <k> request^k <key>          -> t(N|D|S <value>) ; m(N|D|S <value>)   top_last / mop_last of the concatenation
   named <k> request^k <key>          -> <key in top_keys><meta_named>
   (AST codec copied from syn_main.ml; see harness/lib/astcodec.py) *)
let tok_opt = function None -> "~" | Some s -> tok_of_str s
let opt_of_tok t = if t = "~" then None else Some (str_of_tok t)
let rest_of x = String.sub x 1 (String.length x - 1)
let rd_list n f = let rec go i acc = if i = 0 then List.rev acc else go (i - 1) (f () :: acc) in go n []
let make_reader (toks : string list) =
  let r = ref toks in
  (fun () -> match !r with x :: t -> r := t; x | [] -> failwith "eof")
let rec dec_value next : value =
  let x = next () in
  let rest = rest_of x in
  match x.[0] with
  | 'N' -> VNull | 'T' -> VBool true | 'F' -> VBool false
  | 'I' -> VNum (false, str_of_tok rest) | 'D' -> VNum (true, str_of_tok rest)
  | 'S' -> VStr (str_of_tok rest)
  | 'L' -> VList (rd_list (int_of_string rest) (fun () -> dec_value next))
  | 'M' -> VMap (rd_list (int_of_string rest) (fun () -> let k = str_of_tok (next ()) in let v = dec_value next in (k, v)))
  | 'H' -> VHolo (str_of_tok rest)
  | 'Z' -> let c = str_of_tok rest in let tag = opt_of_tok (next ()) in let m = str_of_tok (next ()) in VZone (c, tag, m)
  | 'A' -> VAbsent
  | _ -> failwith "value"
let dec_strs next = rd_list (int_of_string (next ())) (fun () -> str_of_tok (next ()))
let rec dec_node next : node =
  match next () with
  | "a" -> let k = str_of_tok (next ()) in let v = dec_value next in let l = dec_strs next in let t = opt_of_tok (next ()) in NAssign (k, v, l, t)
  | "b" -> let k = str_of_tok (next ()) in let t = opt_of_tok (next ()) in
           let ch = rd_list (int_of_string (next ())) (fun () -> dec_node next) in let l = dec_strs next in NBlock (k, t, ch, l)
  | "s" -> let i = str_of_tok (next ()) in let k = str_of_tok (next ()) in let a = opt_of_tok (next ()) in
           let ch = rd_list (int_of_string (next ())) (fun () -> dec_node next) in let l = dec_strs next in NSection (i, k, a, ch, l)
  | "c" -> NComment (str_of_tok (next ()))
  | _ -> failwith "node"
let dec_doc next : doc =
  let name = str_of_tok (next ()) in let g = opt_of_tok (next ()) in let f = opt_of_tok (next ()) in
  let sep = (next () = "1") in
  let meta = rd_list (int_of_string (next ())) (fun () ->
      let k = str_of_tok (next ()) in
      let x = next () in
      if x.[0] = 'd' then (k, MD (rd_list (int_of_string (rest_of x)) (fun () -> let k2 = str_of_tok (next ()) in let v = dec_value next in (k2, v))))
      else (k, MV (dec_value next))) in
  let secs = rd_list (int_of_string (next ())) (fun () -> dec_node next) in
  let tr = dec_strs next in
  { dname = name; dgrammar = g; dfront = f; dsep = sep; dmeta = meta; dsections = secs; dtrailing = tr }
let rec enc_value (v : value) (b : Buffer.t) =
  let add s = Buffer.add_string b s; Buffer.add_char b ' ' in
  match v with
  | VNull -> add "N" | VBool true -> add "T" | VBool false -> add "F"
  | VNum (false, c) -> add ("I" ^ tok_of_str c) | VNum (true, c) -> add ("D" ^ tok_of_str c)
  | VStr s -> add ("S" ^ tok_of_str s)
  | VList l -> add ("L" ^ string_of_int (List.length l)); List.iter (fun x -> enc_value x b) l
  | VMap ps -> add ("M" ^ string_of_int (List.length ps)); List.iter (fun (k, x) -> add (tok_of_str k); enc_value x b) ps
  | VHolo r -> add ("H" ^ tok_of_str r)
  | VZone (c, t, m) -> add ("Z" ^ tok_of_str c); add (tok_opt t); add (tok_of_str m)
  | VAbsent -> add "A"
let enc_strs l b = Buffer.add_string b (string_of_int (List.length l)); Buffer.add_char b ' ';
  List.iter (fun s -> Buffer.add_string b (tok_of_str s); Buffer.add_char b ' ') l
let rec enc_node (n : node) (b : Buffer.t) =
  let add s = Buffer.add_string b s; Buffer.add_char b ' ' in
  match n with
  | NAssign (k, v, l, t) -> add "a"; add (tok_of_str k); enc_value v b; enc_strs l b; add (tok_opt t)
  | NBlock (k, t, ch, l) -> add "b"; add (tok_of_str k); add (tok_opt t); add (string_of_int (List.length ch));
      List.iter (fun c -> enc_node c b) ch; enc_strs l b
  | NSection (i, k, a, ch, l) -> add "s"; add (tok_of_str i); add (tok_of_str k); add (tok_opt a);
      add (string_of_int (List.length ch)); List.iter (fun c -> enc_node c b) ch; enc_strs l b
  | NComment t -> add "c"; add (tok_of_str t)
let enc_doc (d : doc) : string =
  let b = Buffer.create 256 in
  let add s = Buffer.add_string b s; Buffer.add_char b ' ' in
  add (tok_of_str d.dname); add (tok_opt d.dgrammar); add (tok_opt d.dfront); add (if d.dsep then "1" else "0");
  add (string_of_int (List.length d.dmeta));
  List.iter (fun (k, mv) -> add (tok_of_str k);
    (match mv with
     | MV v -> add "v"; enc_value v b
     | MD ps -> add ("d" ^ string_of_int (List.length ps)); List.iter (fun (k2, v) -> add (tok_of_str k2); enc_value v b) ps)) d.dmeta;
  add (string_of_int (List.length d.dsections)); List.iter (fun n -> enc_node n b) d.dsections;
  enc_strs d.dtrailing b;
  String.trim (Buffer.contents b)
let ascii_space c = let i = int_of_n c in (i >= 9 && i <= 13) || (i >= 28 && i <= 32)

(* ---- request codec ---- *)
let rec dec_jval next : jval =
  let x = next () in
  let rest = rest_of x in
  match x.[0] with
  | 'n' -> JNull | 't' -> JBool true | 'f' -> JBool false
  | 'i' -> JNum (false, str_of_tok rest) | 'd' -> JNum (true, str_of_tok rest)
  | 's' -> JStr (str_of_tok rest)
  | 'l' -> JList (rd_list (int_of_string rest) (fun () -> dec_jval next))
  | 'm' -> JDict (rd_list (int_of_string rest) (fun () -> let k = str_of_tok (next ()) in let v = dec_jval next in (k, v)))
  | _ -> failwith "jval"
let dec_request next : (str * jval) list =
  rd_list (int_of_string (next ())) (fun () -> let k = str_of_tok (next ()) in let v = dec_jval next in (k, v))
let dec_requests next = rd_list (int_of_string (next ())) (fun () -> dec_request next)
let value_tok v = let b = Buffer.create 64 in enc_value v b; String.trim (Buffer.contents b)
let sp_of spc = let extra = str_of_tok spc in (fun c -> ascii_space c || List.mem c extra)
let out_doc sp d = "DOC " ^ enc_doc d ^ " # " ^ tok_of_str (emit sp d)

let handle l =
  match words l with
  | "seq" :: spc :: rest ->
      let next = make_reader rest in
      let reqs = dec_requests next in
      let d = dec_doc next in
      out_doc (sp_of spc) (apply_seq d reqs)
  | "exec" :: spc :: rest ->
      let next = make_reader rest in
      let ch = dec_request next in let ms = dec_request next in
      let d = dec_doc next in
      out_doc (sp_of spc) (execute_changes d ch ms)
  | "cli" :: spc :: rest ->
      let next = make_reader rest in
      let ch = dec_request next in
      let d = dec_doc next in
      (match cli_apply_changes d ch with None -> "NONE" | Some d' -> out_doc (sp_of spc) d')
  | "drop" :: rest -> enc_doc (drop_absent (dec_doc (make_reader rest)))
  | "emit" :: spc :: rest -> tok_of_str (emit (sp_of spc) (dec_doc (make_reader rest)))
  | "absinfo" :: rest -> let d = dec_doc (make_reader rest) in bool_tok (meta_all_absent d) ^ bool_tok (doc_absent_free d)
  | "sent" :: rest -> bool_tok (is_delete_sentinel (dec_jval (make_reader rest)))
  | "norm" :: rest -> value_tok (norm_value (dec_jval (make_reader rest)))
  | "state" :: rest ->
      let next = make_reader rest in
      let ch = List.concat (dec_requests next) in
      let k = str_of_tok (next ()) in
      let t = (match top_last ch k with
               | None -> "tN"
               | Some v -> if is_delete_sentinel v then "tD" else "tS " ^ value_tok (norm_value v)) in
      let m = (match mop_last (request_meta_ops ch) k with
               | None -> "mN" | Some None -> "mD" | Some (Some v) -> "mS " ^ value_tok (norm_value v)) in
      t ^ " ; " ^ m
  | "named" :: rest ->
      let next = make_reader rest in
      let ch = List.concat (dec_requests next) in
      let k = str_of_tok (next ()) in
      bool_tok (List.mem k (top_keys ch)) ^ bool_tok (meta_named ch k)
  | _ -> "!badcmd"
let () = main_loop handle
